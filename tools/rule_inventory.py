#!/venv/bin/python
"""Rewrite the rule inventory of DESIGN.md (between the RULE-INVENTORY markers) from an in-process run of all 20 checks on /repo:
per rule id the number of obligations evaluated today and the distinct facts it states (first few)."""
import importlib
import os
import sys

HERE = os.path.dirname(os.path.dirname(os.path.abspath(__file__)))
sys.path.insert(0, HERE)
from lerax_sa.core import analyse  # noqa: E402
from lerax_sa.model import Program  # noqa: E402

prog = Program()
out = []
tot_ob = tot_rules = 0
for i in range(1, 21):
    pid = f"C{i:02d}"
    s, err = analyse(pid, prog, "quick")
    if err:
        print(pid, err)
        sys.exit(1)
    out.append(f"\n**{pid}** - {len(s.obligations)} obligations, {len(s.functions)} anchor functions\n")
    out.append("| rule | sites | what it states (distinct facts, first three) |")
    out.append("|---|---|---|")

    def rk(r):
        a, b = r.split(".")
        return (a, int(b) if b.isdigit() else 999)
    for r in sorted(s.sites, key=rk):
        facts = []
        for o in s.obligations:
            if o["rule"] == r and o["fact"] not in facts:
                facts.append(o["fact"])
        more = f" (+{len(facts) - 3} more)" if len(facts) > 3 else ""
        out.append(f"| {r} | {s.sites[r]} | " + "; ".join(f.replace("|", "/") for f in facts[:3]) + more + " |")
        tot_rules += 1
    tot_ob += len(s.obligations)
text = "\n".join(out) + f"\n\n{tot_rules} rules, {tot_ob} obligations evaluated on the current tree.\n"
p = os.path.join(HERE, "DESIGN.md")
d = open(p).read()
a, b = d.index("<!-- RULE-INVENTORY-BEGIN -->"), d.index("<!-- RULE-INVENTORY-END -->")
d = d[:a] + "<!-- RULE-INVENTORY-BEGIN -->\n" + text + d[b:]
open(p, "w").write(d)
print(f"{tot_rules} rules, {tot_ob} obligations")
