#!/venv/bin/python
"""tools/seed_table.py : markdown table of the archived seeded changes and the checks that catch them (from seeded/*/meta.json)."""
import glob
import json
import os

rows = []
for mp in sorted(glob.glob(os.path.join(os.path.dirname(__file__), "..", "seeded", "*", "meta.json"))):
    m = json.load(open(mp))
    own = m["caught_by"].get(m["property"], {})
    rules = sorted({r.split(" ")[0] for r in own.get("rules", [])})
    others = sorted(k for k, v in m["caught_by"].items() if k != m["property"] and v.get("exit") == 1)
    rows.append((m["id"], m["property"], ", ".join(m["files"]).replace("src/lerax/", ""), "superseded by a repair" if m.get("superseded") else ("yes" if m["caught"] else "NO"),
                 ", ".join(rules) or "-", ", ".join(others) or "-", m.get("history", "")))
print("| seeded change | property | files | caught by own check | rules that fire | other checks that fire | history |")
print("|---|---|---|---|---|---|---|")
for r in rows:
    print("| " + " | ".join(r) + " |")
print(f"\n{len(rows)} seeded changes, {sum(1 for r in rows if r[3] == 'yes')} caught by the property's own check, {sum(1 for r in rows if r[3].startswith('superseded'))} superseded by a repair of /repo, {sum(1 for r in rows if r[3] == 'NO')} missed.")
