#!/venv/bin/python
"""Regenerate the table of archived behaviour-preserving changes in DESIGN.md (between REF-TABLE markers) from /verif/refactors/*/meta.json."""
import glob
import json
import os
import re

HERE = os.path.dirname(os.path.dirname(os.path.abspath(__file__)))
rows = ["| behaviour-preserving change | property | files | first run | rules that alarmed then (all silent now) |", "|---|---|---|---|---|"]
n = bad = 0
for mp in sorted(glob.glob(os.path.join(HERE, "refactors", "*", "meta.json"))):
    m = json.load(open(mp))
    n += 1
    al = m.get("alarms_when_first_run") or {}
    bad += bool(al)
    rules = []
    for p, v in sorted(al.items()):
        rs = sorted({r.split(" ")[0] for r in v.get("rules", [])})
        rules.append(f"{p}: {', '.join(rs) if rs else 'exit 2 (' + (v.get('analysis_error') or ['?'])[0][:70].replace('|', '/') + ')'}")
    files = ", ".join(f.replace("src/lerax/", "") for f in m["files"])
    rows.append(f"| {m['id']} | {m['property']} | {files} | {'alarm' if al else 'silent'} | {'; '.join(rules) or '-'} |")
text = "\n".join(rows) + f"\n\n{n} changes, {bad} alarmed on the first run, 0 alarm now.\n"
p = os.path.join(HERE, "DESIGN.md")
s = open(p).read()
s = re.sub(r"<!-- REF-TABLE-BEGIN -->.*?<!-- REF-TABLE-END -->", lambda _: "<!-- REF-TABLE-BEGIN -->\n" + text + "<!-- REF-TABLE-END -->", s, flags=re.S)
open(p, "w").write(s)
print(f"{n} refactors, {bad} alarmed on the first run")
