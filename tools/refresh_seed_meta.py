#!/venv/bin/python
"""tools/refresh_seed_meta.py [seed-id ...] : re-evaluate archived seeded changes against the CURRENT checks (patch applied in memory to the
current sources, all 20 properties analysed) and rewrite `caught_by` / `caught` in their meta.json. Without arguments: every seed whose
meta says it is not caught by its own property's check. The first-run record stays in `history`."""
import glob
import json
import os
import sys

HERE = os.path.dirname(os.path.dirname(os.path.abspath(__file__)))
sys.path.insert(0, HERE)
from selftest import corpus  # noqa: E402
from lerax_sa.core import analyse, new_findings  # noqa: E402
from lerax_sa.model import SRC, Program  # noqa: E402

ids = sys.argv[1:]
for mp in sorted(glob.glob(os.path.join(HERE, "seeded", "*", "meta.json"))):
    m = json.load(open(mp))
    if m.get("superseded") or (ids and m["id"] not in ids) or (not ids and m.get("caught")):
        continue
    srcs, why = corpus.apply_patch(SRC, open(os.path.join(os.path.dirname(mp), "patch.diff")).read())
    if srcs is None:
        print(m["id"], "STALE", why)
        continue
    prog = Program(sources=srcs)
    fired = {}
    for i in range(1, 21):
        p = f"C{i:02d}"
        s, err = analyse(p, prog, "quick")
        hits = new_findings(s) if s is not None else []
        if hits or err:
            fired[p] = {"exit": 1 if hits else 2, "violations": len(hits),
                        "rules": sorted({f"{f['rule']} [{f['construct']}] {f['key']}" for f in hits})[:12], "analysis_error": [err] if err else []}
    m["caught_by"] = fired
    m["caught"] = m["property"] in fired and fired[m["property"]]["exit"] == 1
    m["caught_by_other_property"] = sorted(k for k, v in fired.items() if k != m["property"] and v["exit"] == 1)
    m["checks_run"] = "re-evaluated in memory against the current checks (tools/refresh_seed_meta.py); the first run is described in `history`"
    json.dump(m, open(mp, "w"), indent=1)
    print(m["id"], "caught" if m["caught"] else "MISSED", sorted(fired))
