#!/venv/bin/python
"""tools/archive_seed.py <worktree> <seedN> <seed-id> <property> : confirm a sub-agent's seeded change and archive it under /verif/seeded/<seed-id>/.
Runs demo.py on the clean worktree (must pass), with the patch (must fail), runs every check against the worktree with the patch applied (LERAX_REPO), reverts, and writes meta.json."""
import json
import os
import re
import shutil
import subprocess
import sys

wt, sd, sid, prop = sys.argv[1:5]
tests = sys.argv[5:]
VERIF = "/verif"
env = dict(os.environ, PYTHONPATH=f"{wt}/src", JAX_PLATFORMS="cpu")


def sh(cmd, **kw):
    return subprocess.run(cmd, shell=True, capture_output=True, text=True, **kw)


sh(f"git -C {wt} checkout -q -- src")
clean = subprocess.run(["/venv/bin/python", f"{sd}/demo.py"], cwd=wt, env=env, capture_output=True, text=True, timeout=900)
ap = sh(f"git -C {wt} apply {sd}/patch.diff")
if ap.returncode != 0:
    print("patch does not apply in the worktree:", ap.stderr[:200]); sys.exit(2)
imp = subprocess.run(["/venv/bin/python", "-c", "import lerax"], cwd=wt, env=env, capture_output=True, text=True)
patched = subprocess.run(["/venv/bin/python", f"{sd}/demo.py"], cwd=wt, env=env, capture_output=True, text=True, timeout=900)
test_res = "not re-run here (sub-agent's run reported in notes.md)"
if tests:
    t = subprocess.run(["/venv/bin/python", "-m", "pytest", "-q", "-x", "-p", "no:cacheprovider", "--timeout=900"] + tests, cwd=wt, env=env, capture_output=True, text=True, timeout=3000)
    test_res = f"rc={t.returncode}: " + (t.stdout.strip().splitlines()[-1] if t.stdout.strip() else "")
sh(f"git -C {wt} checkout -q -- src")
print(f"demo clean rc={clean.returncode}; import rc={imp.returncode}; demo patched rc={patched.returncode}; tests: {test_res}")
if clean.returncode != 0 or patched.returncode == 0 or imp.returncode != 0:
    print("NOT CONFIRMED"); sys.exit(1)
# run the checks against the worktree with the patch applied there (LERAX_REPO): /repo itself is never touched
patch = os.path.join(wt, sd, "patch.diff")
if sh(f"git -C {wt} apply {sd}/patch.diff").returncode != 0:
    print("patch does not apply in the worktree"); sys.exit(2)
fired = {}
cenv = dict(os.environ, LERAX_REPO=wt)
try:
    for i in range(1, 21):
        p = f"C{i:02d}"
        r = subprocess.run(f"cd {VERIF} && ./check {p} --no-evidence", shell=True, capture_output=True, text=True, env=cenv)
        if r.returncode != 0:
            rules = sorted(set(re.findall(r"rule (C\d+\.(?:\d+|L)) \[(.+?)\] ([\w.-]+): ", r.stdout)))
            fired[p] = {"exit": r.returncode, "violations": r.stdout.count("\nVIOLATION"), "rules": [f"{a} [{b}] {c}" for a, b, c in rules][:12],
                        "analysis_error": [l for l in r.stdout.splitlines() if l.startswith("ANALYSIS-ERROR")][:2]}
finally:
    sh(f"git -C {wt} checkout -q -- src")
dirty = ""
dst = os.path.join(VERIF, "seeded", sid)
os.makedirs(dst, exist_ok=True)
for f in ("patch.diff", "demo.py", "notes.md"):
    if os.path.exists(os.path.join(wt, sd, f)):
        shutil.copy(os.path.join(wt, sd, f), os.path.join(dst, f))
files = sorted(set(re.findall(r"^\+\+\+ b/(\S+)", open(patch).read(), re.M)))
notes = open(os.path.join(wt, sd, "notes.md")).read() if os.path.exists(os.path.join(wt, sd, "notes.md")) else ""
meta = {
    "id": sid, "property": prop, "files": files,
    "origin": "independent sub-agent given only the property text and its own worktree",
    "needs_to_manifest": "see notes.md",
    "confirmed": {"demo_on_unmodified_tree": f"exit {clean.returncode}", "demo_with_patch": f"exit {patched.returncode}", "imports_with_patch": imp.returncode == 0,
                  "existing_tests_with_patch": test_res},
    "checks_run": "all 20 quick checks against the sub-agent's worktree with the patch applied (LERAX_REPO=<worktree>), then git checkout -- src",
    "caught_by": fired, "caught": prop in fired and fired[prop]["exit"] == 1,
    "caught_by_other_property": sorted(k for k, v in fired.items() if k != prop and v["exit"] == 1),
}
json.dump(meta, open(os.path.join(dst, "meta.json"), "w"), indent=1)
print(f"archived {sid}: caught={meta['caught']} by {[(k, v['exit'], v['rules'][:3]) for k, v in fired.items()]}; repo dirty after revert: {bool(dirty)}")
