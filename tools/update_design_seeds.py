#!/venv/bin/python
"""Rewrite the seeded-change table of DESIGN.md (between the SEED-TABLE markers) from seeded/*/meta.json."""
import os
import subprocess
import sys

here = os.path.dirname(os.path.dirname(os.path.abspath(__file__)))
table = subprocess.run([sys.executable, os.path.join(here, "tools", "seed_table.py")], capture_output=True, text=True).stdout
p = os.path.join(here, "DESIGN.md")
s = open(p).read()
a, b = s.index("<!-- SEED-TABLE-BEGIN -->"), s.index("<!-- SEED-TABLE-END -->")
s = s[:a] + "<!-- SEED-TABLE-BEGIN -->\n" + table + s[b:]
open(p, "w").write(s)
print(table.strip().splitlines()[-1])
