#!/bin/sh
# tools/confirm_seed.sh <worktree> <seeddir-name> [pytest targets...] : confirm a seeded change in its scratch worktree
WT="$1"; SD="$2"; shift 2
cd "$WT" || exit 2
git checkout -q -- src 2>/dev/null
export PYTHONPATH="$WT/src" JAX_PLATFORMS=cpu
timeout 600 /venv/bin/python "$SD/demo.py" >/tmp/confirm_clean.log 2>&1; rc_clean=$?
git apply "$SD/patch.diff" || { echo "PATCH DOES NOT APPLY"; exit 2; }
/venv/bin/python -c "import lerax" 2>/tmp/confirm_import.log; rc_imp=$?
timeout 600 /venv/bin/python "$SD/demo.py" >/tmp/confirm_patched.log 2>&1; rc_patched=$?
rc_tests="skipped"
if [ $# -gt 0 ]; then
  timeout 2400 /venv/bin/python -m pytest -q -x -p no:cacheprovider --timeout=900 "$@" >/tmp/confirm_tests.log 2>&1; rc_tests=$?
fi
git checkout -q -- src
echo "demo clean rc=$rc_clean | import rc=$rc_imp | demo patched rc=$rc_patched | tests rc=$rc_tests ($(tail -1 /tmp/confirm_tests.log 2>/dev/null | cut -c1-80))"
tail -2 /tmp/confirm_patched.log | cut -c1-200
