#!/venv/bin/python
"""Write lerax_sa/known_names.txt: the qualified names of every function, method and property of the pinned tree.
A callee that is NOT in this list is a helper introduced by a later change; the builders inline it (bounded depth) instead of
treating it as an uninterpreted call, so that extracting or introducing a helper neither hides a violation nor raises a false alarm."""
import os
import sys

HERE = os.path.dirname(os.path.dirname(os.path.abspath(__file__)))
sys.path.insert(0, HERE)
from lerax_sa.model import Program  # noqa: E402

P = Program()
names = set()
for m in P.modules.values():
    for fn in m.functions:
        names.add(f"{m.name}.{fn}")
for ci in P.classes.values():
    for meth in ci.methods:
        names.add(f"{ci.qualname}.{meth}")
with open(os.path.join(HERE, "lerax_sa", "known_names.txt"), "w") as f:
    f.write("\n".join(sorted(names)) + "\n")
print(len(names), "names")
