#!/venv/bin/python
"""tools/archive_ref.py <worktree> <refN> <ref-id> <property> : confirm a sub-agent's BEHAVIOUR-PRESERVING change (demo output identical with
and without the patch), apply it to /repo, run every check (all must stay silent), revert, archive under /verif/refactors/<ref-id>/."""
import json
import os
import re
import shutil
import subprocess
import sys

wt, rd, rid, prop = sys.argv[1:5]
VERIF = "/verif"
env = dict(os.environ, PYTHONPATH=f"{wt}/src", JAX_PLATFORMS="cpu")


def sh(cmd, **kw):
    return subprocess.run(cmd, shell=True, capture_output=True, text=True, **kw)


def run_demo():
    r = subprocess.run(["/venv/bin/python", f"{rd}/demo.py"], cwd=wt, env=env, capture_output=True, text=True, timeout=1500)
    out = "\n".join(l for l in r.stdout.splitlines() if "WARNING" not in l)
    return r.returncode, out


sh(f"git -C {wt} checkout -q -- src")
rc0, out0 = run_demo()
ap = sh(f"git -C {wt} apply {rd}/patch.diff")
if ap.returncode != 0:
    print("patch does not apply in the worktree:", ap.stderr[:200]); sys.exit(2)
rc1, out1 = run_demo()
sh(f"git -C {wt} checkout -q -- src")
same = rc0 == 0 and rc1 == 0 and out0 == out1
print(f"demo clean rc={rc0}; patched rc={rc1}; identical output: {out0 == out1} ({len(out0.splitlines())} lines)")
if not same:
    print("NOT CONFIRMED as behaviour-preserving by its own demo"); sys.exit(1)
patch = os.path.join(wt, rd, "patch.diff")
# the checks are pointed at the worktree (LERAX_REPO) with the patch applied there: /repo itself is never touched, so several
# archive runs (one per worktree) and in-memory experiments on /repo can go on at the same time
if sh(f"git -C {wt} apply {rd}/patch.diff").returncode != 0:
    print("patch does not apply in the worktree"); sys.exit(2)
alarms = {}
cenv = dict(os.environ, LERAX_REPO=wt)
try:
    for i in range(1, 21):
        p = f"C{i:02d}"
        r = subprocess.run(f"cd {VERIF} && ./check {p} --no-evidence", shell=True, capture_output=True, text=True, env=cenv)
        if r.returncode != 0:
            rules = sorted(set(re.findall(r"rule (C\d+\.(?:\d+|L)) \[(.+?)\] ([\w.-]+): ", r.stdout)))
            alarms[p] = {"exit": r.returncode, "rules": [f"{a} [{b}] {c}" for a, b, c in rules][:12],
                         "analysis_error": [l for l in r.stdout.splitlines() if l.startswith("ANALYSIS-ERROR")][:2]}
finally:
    sh(f"git -C {wt} checkout -q -- src")
dst = os.path.join(VERIF, "refactors", rid)
os.makedirs(dst, exist_ok=True)
for f in ("patch.diff", "demo.py", "notes.md"):
    if os.path.exists(os.path.join(wt, rd, f)):
        shutil.copy(os.path.join(wt, rd, f), os.path.join(dst, f))
files = sorted(set(re.findall(r"^\+\+\+ b/(\S+)", open(patch).read(), re.M)))
meta = {"id": rid, "property": prop, "files": files, "origin": "independent sub-agent asked for a behaviour-preserving change of the code behind the property",
        "confirmed": {"demo_output_identical_with_and_without_patch": True, "demo_lines": len(out0.splitlines())},
        "checks_run": "all 20 quick checks against the sub-agent's worktree with the patch applied (LERAX_REPO=<worktree>), then git checkout -- src",
        "alarms_when_first_run": alarms, "silent_when_first_run": not alarms}
json.dump(meta, open(os.path.join(dst, "meta.json"), "w"), indent=1)
print(f"archived {rid}: silent={not alarms} alarms={[(k, v['exit'], v['rules'][:2], v['analysis_error'][:1]) for k, v in alarms.items()]}")
