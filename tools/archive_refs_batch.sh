#!/bin/sh
# tools/archive_refs_batch.sh <worktree-prefix> <first-index> C01 C02 ... : archive refN of <prefix><prop> as <prop>-ref<first-index+N-1>
# (skips ones already archived), e.g. `archive_refs_batch.sh /tmp/wq_ 4 C03 C04` archives /tmp/wq_C03/ref1 as C03-ref4
prefix=$1; first=$2; shift 2
for p in "$@"; do
  for n in 1 2 3; do
    d=$prefix$p/ref$n
    id=$p-ref$((first + n - 1))
    [ -f $d/patch.diff ] && [ -f $d/demo.py ] || continue
    [ -f /verif/refactors/$id/meta.json ] && continue
    /venv/bin/python /verif/tools/archive_ref.py $prefix$p ref$n $id $p 2>&1 | grep "archived\|NOT CONF\|patch does not" | cut -c1-400
  done
done
