#!/bin/sh
# tools/archive_refs_batch.sh C01 C02 ... : archive refN of /tmp/wr_<prop> as <prop>-refN (skips ones already archived)
for p in "$@"; do
  for n in 1 2 3; do
    d=/tmp/wr_$p/ref$n
    [ -f $d/patch.diff ] && [ -f $d/demo.py ] || continue
    [ -f /verif/refactors/$p-ref$n/meta.json ] && continue
    /venv/bin/python /verif/tools/archive_ref.py /tmp/wr_$p ref$n $p-ref$n $p 2>&1 | grep "archived\|NOT CONF\|patch does not" | cut -c1-400
  done
done
