#!/bin/sh
# tools/try_seed.sh <patch.diff> [props...] : apply a seeded change to /repo, run the checks, revert. Never commits.
set -u
PATCH="$1"; shift
PROPS="${*:-C01 C02 C03 C04 C05 C06 C07 C08 C09 C10 C11 C12 C13 C14 C15 C16 C17 C18 C19 C20}"
cd /repo || exit 2
if [ -n "$(git status --porcelain --untracked-files=no)" ]; then echo "repo not clean"; exit 2; fi
git apply "$PATCH" || { echo "patch does not apply"; exit 2; }
cd /verif
for p in $PROPS; do
  out=$(./check "$p" --no-evidence 2>&1); rc=$?
  n=$(printf '%s\n' "$out" | grep -c '^VIOLATION')
  if [ "$rc" -ne 0 ]; then echo "$p rc=$rc violations=$n"; printf '%s\n' "$out" | grep -B1 '^VIOLATION\|ANALYSIS-ERROR' | grep -v '^--' | cut -c1-260 | head -12; fi
done
git -C /repo checkout -- . 
echo "reverted: $(git -C /repo status --porcelain --untracked-files=no | wc -l) dirty files"
