#!/venv/bin/python
"""Regenerate MANIFEST.json from the rule modules that exist (claimed) and NOT_APPLICABLE below."""
import importlib
import json
import os
import sys

HERE = os.path.dirname(os.path.dirname(os.path.abspath(__file__)))
sys.path.insert(0, HERE)

ALL = [f"C{i:02d}" for i in range(1, 21)]
NOT_APPLICABLE = {
}
NOT_BUILT_REASON = "check not built yet in this session (static rules are designed in DESIGN.md section 4; nothing is claimed until the rule module exists)"

checks = []
na = []
for pid in ALL:
    path = os.path.join(HERE, "lerax_sa", "rules", f"{pid}.py")
    if pid in NOT_APPLICABLE:
        na.append({"property_id": pid, "reason": NOT_APPLICABLE[pid]})
        continue
    if not os.path.exists(path):
        na.append({"property_id": pid, "reason": NOT_BUILT_REASON})
        continue
    mod = importlib.import_module(f"lerax_sa.rules.{pid}")
    checks.append({
        "property_id": pid,
        "quick_cmd": f"./check {pid} --tier quick",
        "thorough_cmd": f"./check {pid} --tier thorough",
        "evidence_file": f"evidence/{pid}.json",
        "replay_cmd_template": f"./check {pid} --replay {{path}}",
        "engine": "lerax_sa",
        "level_claimed": {
            "category": "other",
            "text": getattr(mod, "LEVEL_TEXT", "Static decision of the structural clauses named in the evidence: " + mod.EXPLANATION),
            "design_ref": f"DESIGN.md section 4 ({pid})",
        },
        "level_note": getattr(mod, "LEVEL_NOTE", "Decides the named structural clauses only, not the run-time behaviour; trusted base: "
                              + "; ".join(mod.ASSUMPTIONS)),
        "technique": getattr(mod, "TECHNIQUE", "static analysis: value-graph dataflow + normal-form equality over the parsed AST (no execution)"),
    })

manifest = {
    "version": 1,
    "setup_cmd": "/venv/bin/python -c \"import ast, sys; sys.exit(0 if sys.version_info >= (3, 12) else 1)\"",
    "hooks": {
        "guard": "LERAX_VERIF",
        "enable": "none needed: the checks parse /repo's sources and never import or execute them; no hook commits exist",
        "baseline_off_cmd": "cd /repo && /venv/bin/python -m pytest -ra -q -p no:cacheprovider --timeout=900 --continue-on-collection-errors",
        "source_commits": [],
        "add_only": True,
    },
    "engines": [{
        "name": "lerax_sa", "path": "lerax_sa/", "serves_properties": [c["property_id"] for c in checks],
        "kind_free_text": "repository-specific static analyser: program model (imports, classes, MRO, Equinox abstractness), per-path "
                          "hash-consed value graphs with static case splits, polynomial/Boolean normaliser, rule framework with site floors",
    }],
    "checks": checks,
    "not_applicable": na,
    "notes": "All checks are static (ast only, /venv/bin/python 3.13). exit 0 = held (KNOWN-FINDING lines for listed findings), "
             "exit 1 = VIOLATION lines, exit 2 = ANALYSIS-ERROR (analysis could not be carried out; never a pass; findings established "
             "before an abort are still reported as violations, exit 1). Archived seeded changes with the checks that catch them: seeded/*/meta.json. "
             "Self-validation: /venv/bin/python selftest/run.py (mutants must be caught, variants silent).",
}
with open(os.path.join(HERE, "MANIFEST.json"), "w") as f:
    json.dump(manifest, f, indent=1)
print(f"{len(checks)} checks, {len(na)} not applicable")
