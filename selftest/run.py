"""Self-validation: mutants must be flagged by the named rule, behaviour-preserving variants must stay silent.

Mutants/variants are textual edits of the *current* sources applied in memory (Program(sources=...)); nothing is
executed and /repo is not touched.  An entry whose anchor text no longer occurs exactly once is reported as
`stale` (not a failure of the checks, a failure of the catalogue)."""
from __future__ import annotations

import argparse
import json
import os
import sys
import time
from multiprocessing import Pool

HERE = os.path.dirname(os.path.abspath(__file__))
sys.path.insert(0, os.path.dirname(HERE))

from lerax_sa.core import analyse, new_findings  # noqa: E402
from lerax_sa.model import SRC, Program  # noqa: E402
from selftest.catalogue import ENTRIES  # noqa: E402
from selftest import generic  # noqa: E402


ONLY: set = set()


def apply_edits(entry):
    srcs = {}
    if entry.get("base"):
        # the edits are made on top of an archived behaviour-preserving refactor (a broken twin of that refactor)
        from selftest import corpus
        with open(os.path.join(os.path.dirname(HERE), "refactors", entry["base"], "patch.diff")) as f:
            srcs, why = corpus.apply_patch(SRC, f.read())
        if srcs is None:
            return None, f"base refactor {entry['base']}: {why}"
    for rel, old, new in entry["edits"]:
        path = os.path.join(SRC, rel)
        cur = srcs.get(rel)
        if cur is None:
            with open(path) as f:
                cur = f.read()
        if cur.count(old) != 1:
            return None, f"anchor text occurs {cur.count(old)}x in {rel}"
        srcs[rel] = cur.replace(old, new)
    return srcs, None


def run_entry(entry):
    t0 = time.time()
    if entry.get("generic"):
        srcs, err = generic.build(entry)
    else:
        srcs, err = apply_edits(entry)
    if srcs is None:
        return {"id": entry["id"], "status": "stale", "why": err}
    try:
        prog = Program(sources=srcs)
    except Exception as e:  # noqa: BLE001
        return {"id": entry["id"], "status": "error", "why": f"program: {e}"}
    res = {"id": entry["id"], "kind": entry["kind"], "props": entry["props"]}
    rules_hit = []
    errors = []
    for prop in entry["props"]:
        if not os.path.exists(os.path.join(os.path.dirname(HERE), "lerax_sa", "rules", prop + ".py")):
            continue
        if ONLY and prop not in ONLY:
            continue
        s, err = analyse(prop, prog, entry.get("tier", "quick"))
        if err:
            errors.append(f"{prop}: {err}")
        for f in new_findings(s):
            rules_hit.append(f"{f['rule']}|{f['construct']}|{f['key']}")
    res["hits"] = rules_hit
    res["errors"] = errors
    if entry["kind"] == "mutant":
        exp = entry["expect"]
        exps = exp if isinstance(exp, list) else [exp]
        ok = any(h.split("|")[0].startswith(e) for h in rules_hit for e in exps)
        if not ok and errors and entry.get("error_ok"):
            ok = True
        res["status"] = "caught" if ok else "MISSED"
    else:
        res["status"] = "silent" if not rules_hit and not errors else "FALSE-ALARM"
    res["wall"] = round(time.time() - t0, 2)
    return res


def main():
    ap = argparse.ArgumentParser()
    ap.add_argument("--props", default="")
    ap.add_argument("--jobs", type=int, default=16)
    ap.add_argument("--json", default="")
    ap.add_argument("-v", action="store_true")
    a = ap.parse_args()
    entries = list(ENTRIES) + generic.entries()
    if a.props:
        want = set(a.props.split(","))
        ONLY.update(want)
        entries = [e for e in entries if want & set(e["props"])]
    with Pool(a.jobs) as pool:
        results = pool.map(run_entry, entries, chunksize=1)
    bad = [r for r in results if r["status"] in ("MISSED", "FALSE-ALARM", "error")]
    stale = [r for r in results if r["status"] == "stale"]
    tally = {}
    for r in results:
        tally[r["status"]] = tally.get(r["status"], 0) + 1
    for r in results:
        if a.v or r["status"] in ("MISSED", "FALSE-ALARM", "error", "stale"):
            print(r["id"], r["status"], r.get("hits", [])[:4], r.get("errors", [])[:2], r.get("why", ""))
    print("selftest tally:", tally)
    if a.json:
        with open(a.json, "w") as f:
            json.dump({"tally": tally, "results": results}, f, indent=1)
    return 1 if bad else 0


if __name__ == "__main__":
    sys.exit(main())
