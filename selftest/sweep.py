#!/venv/bin/python
"""Operator-level mutation sweep: one small, syntactically valid change at a time (comparison flipped, operator exchanged, constant
moved, arguments swapped, a paired name exchanged, a Boolean flag flipped), applied IN MEMORY to every function of the files the
properties are anchored in, analysed by every property's rules.  It measures where the rules are blind: a surviving mutant is either
an equivalent mutant, a change outside what the 20 statements talk about, or a gap.  The sweep never decides a property; its summary
is written to selftest/sweep_summary.json and quoted in DESIGN.md.

    /venv/bin/python selftest/sweep.py [--files lerax/space/box.py,...] [--jobs 16] [--props C14,C02] [--out FILE] [--limit N]
"""
from __future__ import annotations

import argparse
import ast
import copy
import json
import os
import sys
import time

HERE = os.path.dirname(os.path.abspath(__file__))
sys.path.insert(0, os.path.dirname(HERE))

from lerax_sa.model import SRC  # noqa: E402

ALL_PROPS = [f"C{i:02d}" for i in range(1, 21)]
# outside every statement: rendering, console / tensorboard / wandb back ends, ONNX export, package __init__ files
OUT_OF_SCOPE = ("lerax/render/", "lerax/export/", "lerax/callback/logging/console.py", "lerax/callback/logging/tensorboard.py",
                "lerax/callback/logging/wandb.py", "lerax/callback/logging/backend.py")
SKIP_FUNCS = {"__repr__", "render", "default_renderer", "render_states", "render_stacked", "__str__"}

CMP = {ast.Lt: ast.LtE, ast.LtE: ast.Lt, ast.Gt: ast.GtE, ast.GtE: ast.Gt, ast.Eq: ast.NotEq, ast.NotEq: ast.Eq,
       ast.Is: ast.IsNot, ast.IsNot: ast.Is, ast.In: ast.NotIn, ast.NotIn: ast.In}
BIN = {ast.Add: ast.Sub, ast.Sub: ast.Add, ast.Mult: ast.Div, ast.Div: ast.Mult, ast.BitAnd: ast.BitOr, ast.BitOr: ast.BitAnd,
       ast.FloorDiv: ast.Mod, ast.Mod: ast.FloorDiv, ast.Pow: ast.Mult}
PAIRS = [("low", "high"), ("minimum", "maximum"), ("argmax", "argmin"), ("qpos", "qvel"), ("terminal", "truncate"),
         ("termination", "truncation"), ("sin", "cos"), ("floor", "ceil"), ("sum", "mean"), ("min", "max"), ("logits", "probs"),
         ("observation", "next_observation"), ("observations", "next_observations"), ("state", "next_state"), ("states", "next_states"),
         ("ones", "zeros"), ("ones_like", "zeros_like"), ("all", "any"), ("exp", "log"), ("done", "timeout"), ("dones", "timeouts"),
         ("gamma", "gae_lambda"), ("returns", "advantages"), ("reward", "value"), ("rewards", "values"), ("keys", "values"),
         ("log_prob", "entropy"), ("mode", "mean"), ("qf1", "qf2"), ("qf1_target", "qf2_target"), ("env_state", "policy_state")]
SWAP = {}
for a_, b_ in PAIRS:
    SWAP.setdefault(a_, b_)
    SWAP.setdefault(b_, a_)


def _skip_subtrees(tree):
    """ids of nodes that must not be mutated: annotations, decorators, raise / assert statements, docstrings, class bases, type
    parameters, functions that only render or print"""
    skip = set()

    def mark(n):
        for x in ast.walk(n):
            skip.add(id(x))

    for n in ast.walk(tree):
        if isinstance(n, (ast.FunctionDef, ast.AsyncFunctionDef)):
            if n.name in SKIP_FUNCS or n.name.startswith("render"):
                mark(n)
                continue
            for d in n.decorator_list:
                mark(d)
            if n.returns is not None:
                mark(n.returns)
            for a in n.args.posonlyargs + n.args.args + n.args.kwonlyargs + [x for x in (n.args.vararg, n.args.kwarg) if x]:
                if a.annotation is not None:
                    mark(a.annotation)
            for tp in getattr(n, "type_params", []):
                mark(tp)
        elif isinstance(n, ast.ClassDef):
            for b in n.bases + n.decorator_list + [k.value for k in n.keywords]:
                mark(b)
            for tp in getattr(n, "type_params", []):
                mark(tp)
        elif isinstance(n, ast.AnnAssign):
            mark(n.annotation)
        elif isinstance(n, (ast.Raise, ast.Assert, ast.Import, ast.ImportFrom, ast.Global, ast.Nonlocal)):
            mark(n)
        elif isinstance(n, ast.Expr) and isinstance(n.value, ast.Constant) and isinstance(n.value.value, str):
            mark(n)
        elif isinstance(n, ast.Call) and isinstance(n.func, ast.Name) and n.func.id in ("print", "isinstance", "TypeVar", "cast"):
            mark(n)
        elif isinstance(n, ast.Subscript) and isinstance(n.value, ast.Name) and n.value.id in ("Float", "Int", "Bool", "Key", "Array", "Integer", "Literal"):
            mark(n)
    return skip


def sites(tree):
    """(node index in ast.walk order, operator id, description) for every applicable mutation"""
    skip = _skip_subtrees(tree)
    out = []
    in_function = set()
    for f in ast.walk(tree):
        if isinstance(f, (ast.FunctionDef, ast.AsyncFunctionDef, ast.Lambda)):
            for x in ast.walk(f):
                in_function.add(id(x))
    for i, n in enumerate(ast.walk(tree)):
        if id(n) in skip or id(n) not in in_function:
            continue
        ln = getattr(n, "lineno", 0)
        if isinstance(n, ast.Compare) and len(n.ops) == 1 and type(n.ops[0]) in CMP:
            out.append((i, "cmp", f"{ln}: {type(n.ops[0]).__name__}->{CMP[type(n.ops[0])].__name__}"))
        elif isinstance(n, ast.BinOp) and type(n.op) in BIN:
            if isinstance(n.op, ast.Mod) and isinstance(n.left, ast.Constant) and isinstance(n.left.value, str):
                continue
            out.append((i, "bin", f"{ln}: {type(n.op).__name__}->{BIN[type(n.op)].__name__}"))
            if isinstance(n.op, (ast.Sub, ast.Div, ast.FloorDiv, ast.Mod, ast.Pow)) and ast.dump(n.left) != ast.dump(n.right):
                out.append((i, "binswap", f"{ln}: operands of {type(n.op).__name__} exchanged"))
        elif isinstance(n, ast.BoolOp):
            out.append((i, "boolop", f"{ln}: {type(n.op).__name__} exchanged"))
        elif isinstance(n, ast.UnaryOp) and isinstance(n.op, (ast.Not, ast.Invert, ast.USub)):
            out.append((i, "unary", f"{ln}: {type(n.op).__name__} dropped"))
        elif isinstance(n, ast.Constant) and isinstance(n.value, bool):
            out.append((i, "boolconst", f"{ln}: {n.value}->{not n.value}"))
        elif isinstance(n, ast.Constant) and isinstance(n.value, (int, float)) and not isinstance(n.value, bool):
            out.append((i, "const", f"{ln}: {n.value!r} moved"))
        elif isinstance(n, ast.Call):
            pos = [a for a in n.args if not isinstance(a, ast.Starred)]
            if len(n.args) >= 2 and len(pos) == len(n.args) and ast.dump(n.args[0]) != ast.dump(n.args[1]):
                out.append((i, "argswap", f"{ln}: first two arguments of {ast.unparse(n.func)[:40]} exchanged"))
            kws = [k for k in n.keywords if k.arg is not None]
            for j in range(len(kws) - 1):
                if ast.dump(kws[j].value) != ast.dump(kws[j + 1].value):
                    out.append((i, f"kwswap{j}", f"{ln}: values of {kws[j].arg}= and {kws[j + 1].arg}= exchanged in {ast.unparse(n.func)[:40]}"))
        elif isinstance(n, ast.Attribute) and n.attr in SWAP and isinstance(n.ctx, ast.Load):
            out.append((i, "attr", f"{ln}: .{n.attr}->.{SWAP[n.attr]}"))
        elif isinstance(n, ast.Name) and n.id in SWAP and isinstance(n.ctx, ast.Load):
            out.append((i, "name", f"{ln}: {n.id}->{SWAP[n.id]}"))
        elif isinstance(n, ast.Return) and n.value is not None and isinstance(n.value, ast.Tuple) and len(n.value.elts) >= 2 \
                and ast.dump(n.value.elts[0]) != ast.dump(n.value.elts[1]):
            out.append((i, "retswap", f"{ln}: first two returned values exchanged"))
    return out


def apply(tree, idx, op):
    t = copy.deepcopy(tree)
    n = list(ast.walk(t))[idx]
    if op == "cmp":
        n.ops = [CMP[type(n.ops[0])]()]
    elif op == "bin":
        n.op = BIN[type(n.op)]()
    elif op == "binswap":
        n.left, n.right = n.right, n.left
    elif op == "boolop":
        n.op = ast.Or() if isinstance(n.op, ast.And) else ast.And()
    elif op == "unary":
        # replace the node's content by its operand
        o = n.operand
        n.__class__ = o.__class__
        n.__dict__.clear()
        n.__dict__.update(o.__dict__)
    elif op == "boolconst":
        n.value = not n.value
    elif op == "const":
        v = n.value
        n.value = (v + 1) if isinstance(v, int) else (v * 2.0 if v != 0 else 1.0)
    elif op == "argswap":
        n.args[0], n.args[1] = n.args[1], n.args[0]
    elif op.startswith("kwswap"):
        j = int(op[6:])
        kws = [k for k in n.keywords if k.arg is not None]
        kws[j].value, kws[j + 1].value = kws[j + 1].value, kws[j].value
    elif op == "attr":
        n.attr = SWAP[n.attr]
    elif op == "name":
        n.id = SWAP[n.id]
    elif op == "retswap":
        n.value.elts[0], n.value.elts[1] = n.value.elts[1], n.value.elts[0]
    return ast.unparse(ast.fix_missing_locations(t))


def in_scope_files():
    out = []
    for dp, dns, fns in os.walk(os.path.join(SRC, "lerax")):
        dns[:] = sorted(d for d in dns if d != "__pycache__")
        for fn in sorted(fns):
            rel = os.path.relpath(os.path.join(dp, fn), SRC)
            if not fn.endswith(".py") or fn == "__init__.py" and rel != "lerax/benchmark/__init__.py":
                continue
            if rel.startswith(OUT_OF_SCOPE):
                continue
            out.append(rel)
    return out


_TREES: dict = {}
PROPS = list(ALL_PROPS)
RELEVANT: dict = {}


def heavy(tree):
    """every applicable single-node mutation at once (no swaps of operands / arguments): the probe that tells which properties'
    rules look at a file at all"""
    t = copy.deepcopy(tree)
    nodes = list(ast.walk(t))
    for i, op, _ in sites(tree):
        if op in ("cmp", "bin", "boolop", "boolconst", "const", "attr", "name"):
            n = nodes[i]
            if op == "cmp":
                n.ops = [CMP[type(n.ops[0])]()]
            elif op == "bin":
                n.op = BIN[type(n.op)]()
            elif op == "boolop":
                n.op = ast.Or() if isinstance(n.op, ast.And) else ast.And()
            elif op == "boolconst":
                n.value = not n.value
            elif op == "const":
                n.value = (n.value + 1) if isinstance(n.value, int) else (n.value * 2.0 if n.value != 0 else 1.0)
            elif op == "attr":
                n.attr = SWAP[n.attr]
            elif op == "name":
                n.id = SWAP[n.id]
    return ast.unparse(ast.fix_missing_locations(t))


def probe(rel):
    """properties whose result changes when the file is mutated heavily"""
    from lerax_sa.core import analyse, new_findings
    from lerax_sa.model import Program

    with open(os.path.join(SRC, rel), encoding="utf-8") as f:
        tree = ast.parse(f.read())
    try:
        prog = Program(sources={rel: heavy(tree)})
    except Exception:  # noqa: BLE001
        return rel, list(ALL_PROPS)
    out = []
    for p in ALL_PROPS:
        s, err = analyse(p, prog, "quick")
        if err or (s is not None and new_findings(s)):
            out.append(p)
    return rel, out


def run_one(job):
    rel, idx, op, desc = job
    from lerax_sa.core import analyse, new_findings
    from lerax_sa.model import Program

    if rel not in _TREES:
        with open(os.path.join(SRC, rel), encoding="utf-8") as f:
            _TREES[rel] = ast.parse(f.read())
    t0 = time.time()
    try:
        src = apply(_TREES[rel], idx, op)
        ast.parse(src)
    except Exception as e:  # noqa: BLE001
        return {"file": rel, "op": op, "desc": desc, "status": "invalid", "why": str(e)[:100]}
    try:
        prog = Program(sources={rel: src})
    except Exception as e:  # noqa: BLE001
        return {"file": rel, "op": op, "desc": desc, "status": "caught", "by": [f"program model: {str(e)[:80]}"], "wall": 0}
    by = []
    errs = []
    for p in (RELEVANT.get(rel) or PROPS):
        s, err = analyse(p, prog, "quick")
        hits = sorted({f["rule"] for f in new_findings(s)}) if s is not None else []
        if hits:
            by.append(p + ":" + ",".join(hits[:3]))
        elif err:
            errs.append(p + ": " + err[:100])
    status = "caught" if by else ("abort" if errs else "survived")
    return {"file": rel, "op": op, "desc": desc, "status": status, "by": by[:6], "errors": errs[:2], "wall": round(time.time() - t0, 1)}


def run_for_property(prop, limit=40, jobs=16):
    """Thorough tier: the operator sweep restricted to one property - the files its rules react to (from the committed summary of the
    last full sweep), at most `limit` evenly spread mutants per file, analysed by that property's rules only. Returns the tally, the
    per-file tallies and the surviving mutants' descriptions."""
    from multiprocessing import Pool

    summ = os.path.join(HERE, "sweep_summary.json")
    rel = json.load(open(summ)).get("properties_reacting_to_file", {}) if os.path.exists(summ) else {}
    files = sorted(f for f, ps in rel.items() if prop in ps and os.path.exists(os.path.join(SRC, f)))
    jobs_ = []
    for rel_f in files:
        with open(os.path.join(SRC, rel_f), encoding="utf-8") as f:
            st = sites(ast.parse(f.read()))
        if limit and len(st) > limit:
            step = len(st) / limit
            st = [st[int(k * step)] for k in range(limit)]
        jobs_ += [(rel_f, i, op, d) for i, op, d in st]
    PROPS[:] = [prop]
    RELEVANT.clear()
    tally, by_file, survivors = {}, {}, []
    if jobs_:
        with Pool(min(jobs, len(jobs_))) as pool:
            for r in pool.imap_unordered(run_one, jobs_, chunksize=1):
                tally[r["status"]] = tally.get(r["status"], 0) + 1
                by_file.setdefault(r["file"], {}).setdefault(r["status"], 0)
                by_file[r["file"]][r["status"]] += 1
                if r["status"] == "survived":
                    survivors.append(f"{r['file']}:{r['desc']}")
    return {"files": files, "mutants": len(jobs_), "tally": tally, "by_file": by_file, "survivors": sorted(survivors)}


def summarise(jsonl, out):
    """per-file and per-operator tallies of a finished sweep (the survivors' descriptions are kept so that the reading can be redone)"""
    rows = [json.loads(l) for l in open(jsonl)]
    by_file, by_op = {}, {}
    for r in rows:
        by_file.setdefault(r["file"], {}).setdefault(r["status"], 0)
        by_file[r["file"]][r["status"]] += 1
        op = "kwswap" if r["op"].startswith("kwswap") else r["op"]
        by_op.setdefault(op, {}).setdefault(r["status"], 0)
        by_op[op][r["status"]] += 1
    total = {}
    for c in by_file.values():
        for k, v in c.items():
            total[k] = total.get(k, 0) + v
    rel = {}
    if os.path.exists(jsonl + ".relevant.json"):
        rel = json.load(open(jsonl + ".relevant.json"))
    with open(out, "w") as f:
        json.dump({"mutants": len(rows), "total": total, "by_file": dict(sorted(by_file.items())), "by_operator": dict(sorted(by_op.items())),
                   "properties_reacting_to_file": rel,
                   "survivors": sorted(f"{r['file']}:{r['desc']}" for r in rows if r["status"] == "survived"),
                   "note": "a survivor is an equivalent mutant, a change outside the 20 statements, a crash no test suite lets through, or a gap; see DESIGN.md 9.3"},
                  f, indent=1)
    print(f"{len(rows)} mutants: {total}")


def main():
    ap = argparse.ArgumentParser()
    ap.add_argument("--summarise", default="", help="write selftest/sweep_summary.json from a finished results file and exit")
    ap.add_argument("--files", default="")
    ap.add_argument("--props", default="")
    ap.add_argument("--jobs", type=int, default=16)
    ap.add_argument("--limit", type=int, default=0, help="at most N mutants per file (evenly spread)")
    ap.add_argument("--out", default=os.path.join(HERE, "sweep_results.jsonl"))
    a = ap.parse_args()
    if a.summarise:
        summarise(a.summarise, os.path.join(HERE, "sweep_summary.json"))
        return
    files = [f for f in a.files.split(",") if f] or in_scope_files()
    if a.props:
        PROPS[:] = a.props.split(",")
    jobs = []
    for rel in files:
        with open(os.path.join(SRC, rel), encoding="utf-8") as f:
            tree = ast.parse(f.read())
        st = sites(tree)
        if a.limit and len(st) > a.limit:
            step = len(st) / a.limit
            st = [st[int(k * step)] for k in range(a.limit)]
        jobs += [(rel, i, op, d) for i, op, d in st]
    print(f"{len(files)} files, {len(jobs)} mutants, properties {','.join(PROPS)}", flush=True)
    from multiprocessing import Pool

    t0 = time.time()
    if not a.props:
        # which properties look at which file: probed once with a heavy mutation of the whole file; a file no rule reacts to is
        # reported as such (all its mutants survive by construction and are not run)
        with Pool(a.jobs) as pool:
            for rel, ps in pool.imap_unordered(probe, files, chunksize=1):
                RELEVANT[rel] = ps
        print(f"probe {time.time() - t0:.0f}s: " + "; ".join(f"{r.replace('lerax/', '')}={','.join(p[1:] for p in ps) or '-'}" for r, ps in sorted(RELEVANT.items())), flush=True)
        with open(a.out + ".relevant.json", "w") as f:
            json.dump(RELEVANT, f, indent=1, sort_keys=True)
        unseen = [j for j in jobs if not RELEVANT.get(j[0])]
        jobs = [j for j in jobs if RELEVANT.get(j[0])]
        print(f"{len(unseen)} mutants in files no rule reacts to: {sorted({j[0] for j in unseen})}", flush=True)
    tally = {}
    with Pool(a.jobs) as pool, open(a.out, "w") as out:
        for k, r in enumerate(pool.imap_unordered(run_one, jobs, chunksize=1)):
            out.write(json.dumps(r) + "\n")
            tally[r["status"]] = tally.get(r["status"], 0) + 1
            if (k + 1) % 200 == 0:
                print(f"  {k + 1}/{len(jobs)} {tally} {time.time() - t0:.0f}s", flush=True)
    print(tally, f"{time.time() - t0:.0f}s")


if __name__ == "__main__":
    main()
