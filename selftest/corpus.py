"""Regression corpus for the checker: the archived seeded changes (/verif/seeded/*, must be reported by their property's check) and
the archived behaviour-preserving changes (/verif/refactors/*, must stay silent), applied IN MEMORY to the current sources
(unified diffs, exact context) and analysed with Program(sources=...). A patch that no longer applies to the current tree is
reported as `stale` (the tree moved on), never as a pass."""
from __future__ import annotations

import glob
import json
import os
import re

HERE = os.path.dirname(os.path.dirname(os.path.abspath(__file__)))


def parse_patch(text: str) -> dict[str, list]:
    """{relative path under src/: [(old_lines, new_lines), ...]} hunks of a git diff."""
    files: dict[str, list] = {}
    cur = None
    hunk_old: list[str] = []
    hunk_new: list[str] = []

    def flush():
        nonlocal hunk_old, hunk_new
        if cur is not None and (hunk_old or hunk_new):
            files[cur].append((hunk_old, hunk_new))
        hunk_old, hunk_new = [], []

    for line in text.splitlines():
        if line.startswith("diff --git"):
            flush()
            cur = None
        elif line.startswith("+++ "):
            p = line[4:].strip()
            p = p[2:] if p.startswith("b/") else p
            cur = p[len("src/"):] if p.startswith("src/") else p
            files.setdefault(cur, [])
        elif line.startswith("--- ") or line.startswith("index ") or line.startswith("new file") or line.startswith("deleted file") or line.startswith("similarity") or line.startswith("rename"):
            continue
        elif line.startswith("@@"):
            flush()
        elif cur is not None:
            if line.startswith("+"):
                hunk_new.append(line[1:])
            elif line.startswith("-"):
                hunk_old.append(line[1:])
            elif line.startswith("\\"):
                continue
            else:
                ctx = line[1:] if line.startswith(" ") else line
                hunk_old.append(ctx)
                hunk_new.append(ctx)
    flush()
    return files


def apply_patch(src_root: str, text: str):
    """Returns ({rel: new content}, None) or (None, reason)."""
    out = {}
    for rel, hunks in parse_patch(text).items():
        path = os.path.join(src_root, rel)
        if os.path.exists(path):
            with open(path, encoding="utf-8") as f:
                cur = f.read().split("\n")
        else:
            cur = []
        pos = 0
        for old, new in hunks:
            if not old:
                cur[pos:pos] = new
                pos += len(new)
                continue
            found = -1
            for i in range(pos, len(cur) - len(old) + 1):
                if cur[i:i + len(old)] == old:
                    found = i
                    break
            if found < 0:
                for i in range(0, len(cur) - len(old) + 1):
                    if cur[i:i + len(old)] == old:
                        found = i
                        break
            if found < 0:
                return None, f"hunk does not apply to {rel} (context changed)"
            cur[found:found + len(old)] = new
            pos = found + len(new)
        out[rel] = "\n".join(cur)
    return out, None


def entries(prop: str | None = None):
    out = []
    for mp in sorted(glob.glob(os.path.join(HERE, "seeded", "*", "meta.json"))):
        m = json.load(open(mp))
        if m.get("superseded") or m.get("not_claimed"):
            continue  # (a change recorded as outside static reach is kept in the archive and in DESIGN's table, not re-run as an expectation)
        if prop is None or m["property"] == prop:
            out.append({"id": "seed:" + m["id"], "kind": "seed", "prop": m["property"], "patch": os.path.join(os.path.dirname(mp), "patch.diff")})
    for mp in sorted(glob.glob(os.path.join(HERE, "refactors", "*", "meta.json"))):
        m = json.load(open(mp))
        # a refactor is re-checked under its own property and under every property whose check it once (wrongly) alarmed
        props = sorted({m["property"]} | set(m.get("alarms_when_first_run", {})) | set(m.get("alarms", {})))
        for p_ in props:
            if prop is None or p_ == prop:
                out.append({"id": "ref:" + m["id"] + ("" if p_ == m["property"] else "@" + p_), "kind": "refactor", "prop": p_, "patch": os.path.join(os.path.dirname(mp), "patch.diff")})
    return out


def run_entry(e):
    from lerax_sa.core import analyse, new_findings
    from lerax_sa.model import SRC, Program

    srcs, why = apply_patch(SRC, open(e["patch"], encoding="utf-8").read())
    if srcs is None:
        return {"id": e["id"], "kind": e["kind"], "status": "stale", "why": why}
    try:
        prog = Program(sources=srcs)
    except Exception as ex:  # noqa: BLE001
        return {"id": e["id"], "kind": e["kind"], "status": "error", "why": f"program: {ex}"}
    s, err = analyse(e["prop"], prog, "quick")
    hits = [f"{f['rule']}|{f['construct']}|{f['key']}" for f in new_findings(s)] if s is not None else []
    if e["kind"] == "seed":
        status = "caught" if hits else ("caught-by-abort" if err else "MISSED")
    else:
        status = "silent" if not hits and not err else "FALSE-ALARM"
    return {"id": e["id"], "kind": e["kind"], "status": status, "hits": hits[:3], "errors": [err] if err else []}
