"""Hand-written mutants (must be caught by the named rule) and variants (must stay silent).
Each edit is (file relative to src/, exact old text occurring once, new text)."""

def M(id, props, expect, *edits, **kw):
    d = {"id": id, "kind": "mutant", "props": props if isinstance(props, list) else [props], "expect": expect,
         "edits": [tuple(e) for e in edits]}
    d.update(kw)
    return d


def V(id, props, *edits):
    return {"id": id, "kind": "variant", "props": props if isinstance(props, list) else [props], "edits": [tuple(e) for e in edits]}


RB = "lerax/buffer/rollout.py"
PA = "lerax/policy/actor.py"
DMC = "lerax/distribution/multi_categorical.py"
RPB = "lerax/buffer/replay.py"
ONP = "lerax/algorithm/on_policy.py"
OFP = "lerax/algorithm/off_policy.py"
PPO = "lerax/algorithm/ppo.py"
A2C = "lerax/algorithm/a2c.py"
RF = "lerax/algorithm/reinforce.py"
DQN = "lerax/algorithm/dqn.py"
SAC = "lerax/algorithm/sac.py"

ENTRIES = [
    # ---------------------------------------------------------------- C03
    V("H-v-onpolicy-done-helper", ["C03", "C04", "C08", "C19", "C11", "C12"], (ONP, "        done = termination | truncation", "        done = self._episode_over(termination, truncation)"), ("lerax/algorithm/on_policy.py", "    gae_lambda: eqx.AbstractVar[float]\n\n    def step(", "    gae_lambda: eqx.AbstractVar[float]\n\n    def _episode_over(self, termination, truncation):\n        return termination | truncation\n\n    def step(")),
    M("H-onpolicy-done-helper-broken", ["C03", "C04"], ["C03.8", "C04.4"], (ONP, "        done = termination | truncation", "        done = self._episode_over(termination, truncation)"), ("lerax/algorithm/on_policy.py", "    gae_lambda: eqx.AbstractVar[float]\n\n    def step(", "    gae_lambda: eqx.AbstractVar[float]\n\n    def _episode_over(self, termination, truncation):\n        return termination\n\n    def step(")),
    V("H-v-offpolicy-timeout-helper", ["C05", "C07"], (OFP, "        timeout = truncation & ~termination", "        timeout = _pure_timeout(termination, truncation)"), (OFP, "class AbstractOffPolicyStepState", "def _pure_timeout(termination, truncation):\n    return truncation & ~termination\n\n\nclass AbstractOffPolicyStepState")),
    M("H-offpolicy-timeout-helper-broken", ["C05", "C07"], ["C05.1", "C07.6"], (OFP, "        timeout = truncation & ~termination", "        timeout = _pure_timeout(termination, truncation)"), (OFP, "class AbstractOffPolicyStepState", "def _pure_timeout(termination, truncation):\n    return truncation\n\n\nclass AbstractOffPolicyStepState")),
    V("H-v-gae-mask-helper", "C03", (RB, "        next_non_terminals = 1.0 - self.dones.astype(float)", "        next_non_terminals = self._continuing()"), (RB, "    def compute_returns_and_advantages(", "    def _continuing(self):\n        return 1.0 - self.dones.astype(float)\n\n    def compute_returns_and_advantages(")),
    M("H-gae-mask-helper-broken", "C03", "C03", (RB, "        next_non_terminals = 1.0 - self.dones.astype(float)", "        next_non_terminals = self._continuing()"), (RB, "    def compute_returns_and_advantages(", "    def _continuing(self):\n        return self.dones.astype(float)\n\n    def compute_returns_and_advantages(")),
    V("H-v-dqn-mask-helper", "C07", (DQN, "        not_terminal = (~batch.dones | batch.timeouts).astype(float)", "        not_terminal = _bootstrap_mask(batch)"), (DQN, "class DQNState[", "def _bootstrap_mask(batch):\n    return (~batch.dones | batch.timeouts).astype(float)\n\n\nclass DQNState[")),
    M("H-dqn-mask-helper-broken", "C07", "C07", (DQN, "        not_terminal = (~batch.dones | batch.timeouts).astype(float)", "        not_terminal = _bootstrap_mask(batch)"), (DQN, "class DQNState[", "def _bootstrap_mask(batch):\n    return (~batch.dones).astype(float)\n\n\nclass DQNState[")),
    V("S-v-gae-static-split-same", "C03", (RB, "        next_non_terminals = 1.0 - self.dones.astype(float)", "        if self.dones.ndim == 1:\n            next_non_terminals = 1.0 - self.dones.astype(float)\n        else:\n            next_non_terminals = 1.0 - self.dones.astype(float)")),
    M("S-gae-static-split-wrong-branch", "C03", "C03", (RB, "        next_non_terminals = 1.0 - self.dones.astype(float)", "        if self.dones.ndim == 1:\n            next_non_terminals = 1.0 - self.dones.astype(float)\n        else:\n            next_non_terminals = jnp.ones_like(self.dones, dtype=float)")),
    M("S-dqn-loss-static-split", "C07", "C07", (DQN, "        not_terminal = (~batch.dones | batch.timeouts).astype(float)", "        if gamma == 1.0:\n            not_terminal = jnp.ones_like(batch.rewards)\n        else:\n            not_terminal = (~batch.dones | batch.timeouts).astype(float)")),
    # ---------------------------------------------------------------- restylings met in the third behaviour-preserving round, and broken twins
    V("R3-v-replay-add-one-tree-at-over-dict", ["C05", "C06", "C07"], (RPB, "        result = self\n        for where_fn, replacement in zip(where_fns, replacements):\n            result = eqx.tree_at(where_fn, result, replacement)\n        return result", "        updates = dict(zip([\"position\", \"observations\", \"next_observations\", \"actions\", \"rewards\", \"dones\", \"timeouts\"], replacements[:7]))\n        names = (\"position\", \"observations\", \"next_observations\", \"actions\", \"rewards\", \"dones\", \"timeouts\") + ((\"states\", \"next_states\") if self.states is not None else ())\n        return eqx.tree_at(lambda rb: tuple(getattr(rb, n) for n in names), self, tuple(replacements))")),
    M("R3-replay-add-one-tree-at-values-shifted", ["C05", "C06", "C07"], ["C05.5", "C06", "C07.7"], (RPB, "        result = self\n        for where_fn, replacement in zip(where_fns, replacements):\n            result = eqx.tree_at(where_fn, result, replacement)\n        return result", "        names = (\"position\", \"observations\", \"next_observations\", \"actions\", \"rewards\", \"timeouts\", \"dones\") + ((\"states\", \"next_states\") if self.states is not None else ())\n        return eqx.tree_at(lambda rb: tuple(getattr(rb, n) for n in names), self, tuple(replacements))")),
    V("R3-v-box-sample-select", "C14", ("lerax/space/box.py", "        sample = jnp.empty(self.shape, dtype=self.low.dtype)\n\n        sample = jnp.where(\n            bounded,\n            jr.uniform(bounded_key, self.shape, minval=self.low, maxval=self.high),\n            sample,\n        )\n\n        sample = jnp.where(unbounded, jr.normal(unbounded_key, self.shape), sample)\n\n        sample = jnp.where(\n            upper_bounded,\n            self.high - jr.exponential(upper_bounded_key, self.shape),\n            sample,\n        )\n\n        sample = jnp.where(\n            lower_bounded,\n            self.low + jr.exponential(lower_bounded_key, self.shape),\n            sample,\n        )\n\n        return sample", "        return jnp.select([bounded, unbounded, upper_bounded, lower_bounded], [jr.uniform(bounded_key, self.shape, minval=self.low, maxval=self.high), jr.normal(unbounded_key, self.shape), self.high - jr.exponential(upper_bounded_key, self.shape), self.low + jr.exponential(lower_bounded_key, self.shape)], jnp.empty(self.shape, dtype=self.low.dtype))")),
    M("R3-box-sample-select-draws-crossed", "C14", "C14.6", ("lerax/space/box.py", "        sample = jnp.empty(self.shape, dtype=self.low.dtype)\n\n        sample = jnp.where(\n            bounded,\n            jr.uniform(bounded_key, self.shape, minval=self.low, maxval=self.high),\n            sample,\n        )\n\n        sample = jnp.where(unbounded, jr.normal(unbounded_key, self.shape), sample)\n\n        sample = jnp.where(\n            upper_bounded,\n            self.high - jr.exponential(upper_bounded_key, self.shape),\n            sample,\n        )\n\n        sample = jnp.where(\n            lower_bounded,\n            self.low + jr.exponential(lower_bounded_key, self.shape),\n            sample,\n        )\n\n        return sample", "        return jnp.select([bounded, unbounded, upper_bounded, lower_bounded], [jr.uniform(bounded_key, self.shape, minval=self.low, maxval=self.high), jr.normal(unbounded_key, self.shape), self.low + jr.exponential(lower_bounded_key, self.shape), self.high - jr.exponential(upper_bounded_key, self.shape)], jnp.empty(self.shape, dtype=self.low.dtype))")),
    V("R3-v-offpolicy-initial-keywords", "C05", (OFP, "        return cls(env_state, policy_state, callback_state, buffer)", "        return cls(env_state=env_state, policy_state=policy_state, callback_state=callback_state, buffer=buffer)")),
    M("R3-offpolicy-initial-keywords-buffer-lost", "C05", "C05.5", (OFP, "        return cls(env_state, policy_state, callback_state, buffer)", "        return cls(env_state=env_state, policy_state=policy_state, callback_state=callback_state, buffer=None)")),
    # ---------------------------------------------------------------- rules prompted by the sixth seeding round
    M("S6-gymnax-adapter-eq-by-name", ["C01", "C11"], ["C01.8", "C11.1"], ("lerax/compatibility/gymnax.py", "    def __init__(self, env: AbstractEnv[StateType, Array, Array, Any]):\n        self.env = env\n", "    def __init__(self, env: AbstractEnv[StateType, Array, Array, Any]):\n        self.env = env\n\n    def __eq__(self, other):\n        return isinstance(other, LeraxToGymnaxEnv) and self.env.name == other.env.name\n\n    def __hash__(self):\n        return hash(self.env.name)\n")),
    V("S6-v-gymnax-adapter-eq-by-env", ["C01", "C11"], ("lerax/compatibility/gymnax.py", "    def __init__(self, env: AbstractEnv[StateType, Array, Array, Any]):\n        self.env = env\n", "    def __init__(self, env: AbstractEnv[StateType, Array, Array, Any]):\n        self.env = env\n        self.state = None\n\n    def __eq__(self, other):\n        return isinstance(other, LeraxToGymnaxEnv) and self.env == other.env and self.state == other.state\n\n    def __hash__(self):\n        return hash(id(self.env))\n")),
    M("S6-dict-space-keeps-callers-ordereddict", "C14", "C14.10", ("lerax/space/dict.py", "        self.spaces = OrderedDict(spaces)", "        self.spaces = spaces if isinstance(spaces, OrderedDict) else OrderedDict(spaces)")),
    M("S6-deserialize-literal-is-file-guard", "C18", "C18.2", ("lerax/utils.py", "        return eqx.tree_deserialise_leaves(\n            path, eqx.filter_eval_shape(cls, *args, **kwargs)\n        )", "        if not Path(path).is_file():\n            raise FileNotFoundError(path)\n        return eqx.tree_deserialise_leaves(\n            path, eqx.filter_eval_shape(cls, *args, **kwargs)\n        )")),
    V("S6-v-deserialize-guard-on-completed-name", "C18", ("lerax/utils.py", "        return eqx.tree_deserialise_leaves(\n            path, eqx.filter_eval_shape(cls, *args, **kwargs)\n        )", "        return eqx.tree_deserialise_leaves(\n            Path(path), eqx.filter_eval_shape(cls, *args, **kwargs)\n        )")),
    M("S6-rescale-template-from-raw-bounds", ["C13", "C02"], ["C13.5", "C02.5"], ("lerax/wrapper/utils.py", "    min = jnp.broadcast_to(jnp.asarray(min, dtype=float), box.shape)\n    max = jnp.broadcast_to(jnp.asarray(max, dtype=float), box.shape)", "    min = jnp.broadcast_to(min, box.shape)\n    max = jnp.broadcast_to(max, box.shape)")),
    V("S6-v-rescale-template-dtype-float", ["C13", "C02"], ("lerax/wrapper/utils.py", "    gradient = jnp.ones_like(min)", "    gradient = jnp.ones_like(min, dtype=float)")),
    M("S6-evaluate-action-forgets-mask", ["C08", "C04"], ["C08.11", "C04.9"], ("lerax/policy/actor_critic/mlp.py", "        action_dist = self.action_head(features, action_mask=action_mask)\n        value = self.value_head(features)\n        log_prob = action_dist.log_prob(action)", "        action_dist = self.action_head(features)\n        value = self.value_head(features)\n        log_prob = action_dist.log_prob(action)")),
    M("S6-bernoulli-own-sample", ["C16", "C15"], ["C16.6", "C15.1"], ("lerax/distribution/bernoulli.py", "    def mask(self, mask: Bool[Array, \" dims\"]) -> Bernoulli:", "    def sample(self, key):\n        return (self.logits > 0)\n\n    def mask(self, mask: Bool[Array, \" dims\"]) -> Bernoulli:")),
    M("S6-dqn-learning-starts-rounded-up", ["C05", "C10"], ["C05.6", "C10.7"], (DQN, "        self.learning_starts = learning_starts", "        self.learning_starts = max(learning_starts, batch_size)")),
    # ---------------------------------------------------------------- structural restylings met in the second behaviour-preserving round, and broken twins
    V("R2-v-ppo-flatten-hoisted", "C09", (PPO, "    def train(\n", "    def _epoch_on_flat(self, policy, opt_state, flat_buffer, *, key):\n        indices = flat_buffer.batch_indices(self.batch_size, key=key)\n\n        def batch_scan(carry, batch_indices):\n            policy, opt_state = carry\n            batch = flat_buffer.gather(batch_indices)\n            policy, opt_state, stats = self.train_batch(policy, opt_state, batch)\n            return (policy, opt_state), stats\n\n        (policy, opt_state), stats = filter_scan(batch_scan, (policy, opt_state), indices)\n        stats = jax.tree.map(jnp.mean, stats)\n        return policy, opt_state, stats\n\n    def train(\n"), (PPO, "            policy, opt_state, stats = self.train_epoch(\n                policy, opt_state, buffer, key=key\n            )\n            return (policy, opt_state), stats\n\n        (policy, opt_state), stats = filter_scan(\n            epoch_scan, (policy, opt_state), jr.split(key, self.num_epochs)\n        )", "            policy, opt_state, stats = self._epoch_on_flat(\n                policy, opt_state, flat_buffer, key=key\n            )\n            return (policy, opt_state), stats\n\n        flat_buffer = buffer.flatten_axes()\n        outer_key = key\n        (policy, opt_state), stats = filter_scan(\n            epoch_scan, (policy, opt_state), jr.split(key, self.num_epochs)\n        )")),
    M("R2-ppo-flatten-hoisted-same-key-every-epoch", "C09", "C09.4", (PPO, "    def train(\n", "    def _epoch_on_flat(self, policy, opt_state, flat_buffer, *, key):\n        indices = flat_buffer.batch_indices(self.batch_size, key=key)\n\n        def batch_scan(carry, batch_indices):\n            policy, opt_state = carry\n            batch = flat_buffer.gather(batch_indices)\n            policy, opt_state, stats = self.train_batch(policy, opt_state, batch)\n            return (policy, opt_state), stats\n\n        (policy, opt_state), stats = filter_scan(batch_scan, (policy, opt_state), indices)\n        stats = jax.tree.map(jnp.mean, stats)\n        return policy, opt_state, stats\n\n    def train(\n"), (PPO, "            policy, opt_state, stats = self.train_epoch(\n                policy, opt_state, buffer, key=key\n            )\n            return (policy, opt_state), stats\n\n        (policy, opt_state), stats = filter_scan(\n            epoch_scan, (policy, opt_state), jr.split(key, self.num_epochs)\n        )", "            policy, opt_state, stats = self._epoch_on_flat(\n                policy, opt_state, flat_buffer, key=outer_key\n            )\n            return (policy, opt_state), stats\n\n        flat_buffer = buffer.flatten_axes()\n        outer_key = key\n        (policy, opt_state), stats = filter_scan(\n            epoch_scan, (policy, opt_state), jr.split(key, self.num_epochs)\n        )")),
    V("R2-v-batch-indices-shuffle-arange", "C09", ("lerax/buffer/base_buffer.py", "        indices = jnp.arange(total) if key is None else jr.permutation(key, total)", "        indices = jnp.arange(total)\n        if key is not None:\n            indices = jr.permutation(key, indices)")),
    M("R2-batch-indices-shuffle-twice", "C09", "C09.1", ("lerax/buffer/base_buffer.py", "        indices = jnp.arange(total) if key is None else jr.permutation(key, total)", "        indices = jnp.arange(total)\n        if key is not None:\n            indices = jr.permutation(key, jr.permutation(key, indices) % 2)")),
    M("R2-batch-indices-inverted-key-test", "C09", "C09.1", ("lerax/buffer/base_buffer.py", "        indices = jnp.arange(total) if key is None else jr.permutation(key, total)", "        indices = jnp.arange(total)\n        if key is None:\n            indices = jr.permutation(jr.key(0), indices)")),
    V("R2-v-dqn-row-index-from-best", "C07", (DQN, "        next_q_selected = target_next_q[jnp.arange(actions.shape[0]), best_actions]", "        next_q_selected = target_next_q[jnp.arange(best_actions.shape[0]), best_actions]")),
    M("R2-dqn-row-index-from-action-axis", "C07", "C07", (DQN, "        next_q_selected = target_next_q[jnp.arange(actions.shape[0]), best_actions]", "        next_q_selected = target_next_q[jnp.arange(target_next_q.shape[1]), best_actions]")),
    V("R2-v-resolve-axes-loop", ["C06", "C09"], ("lerax/buffer/base_buffer.py", "        axes = tuple(a + ndim if a < 0 else a for a in axes)", "        normalized = []\n        for a in axes:\n            normalized.append(a + ndim if a < 0 else a)\n        axes = tuple(normalized)")),
    M("R2-resolve-axes-loop-wrong-sign", ["C06", "C09"], ["C06", "C09"], ("lerax/buffer/base_buffer.py", "        axes = tuple(a + ndim if a < 0 else a for a in axes)", "        normalized = []\n        for a in axes:\n            normalized.append(a - ndim if a < 0 else a)\n        axes = tuple(normalized)")),
    M("R2-resolve-axes-loop-drops-append", ["C06", "C09"], ["C06", "C09"], ("lerax/buffer/base_buffer.py", "        axes = tuple(a + ndim if a < 0 else a for a in axes)", "        normalized = []\n        for a in axes:\n            normalized = [a + ndim if a < 0 else a]\n        axes = tuple(normalized)")),
    V("R2-v-resolve-axes-match", ["C06", "C09"], ("lerax/buffer/base_buffer.py", "        if batch_axes is None:\n            axes = tuple(range(ndim))\n        elif isinstance(batch_axes, int):\n            axes = (batch_axes,)\n        else:\n            axes = tuple(batch_axes)", "        match batch_axes:\n            case None:\n                axes = tuple(range(ndim))\n            case int():\n                axes = (batch_axes,)\n            case _:\n                axes = tuple(batch_axes)")),
    M("R2-resolve-axes-match-int-as-sequence", ["C06", "C09"], ["C06", "C09"], ("lerax/buffer/base_buffer.py", "        if batch_axes is None:\n            axes = tuple(range(ndim))\n        elif isinstance(batch_axes, int):\n            axes = (batch_axes,)\n        else:\n            axes = tuple(batch_axes)", "        match batch_axes:\n            case None:\n                axes = tuple(range(ndim))\n            case int():\n                axes = (batch_axes, batch_axes)\n            case _:\n                axes = tuple(batch_axes)"), error_ok=True),
    # ---------------------------------------------------------------- gaps found by the operator sweep (selftest/sweep.py)
    M("W-box-ctor-low-from-high", "C14", "C14.10", ("lerax/space/box.py", "        self.low = jnp.broadcast_to(low, shape)", "        self.low = jnp.broadcast_to(high, shape)")),
    M("W-box-ctor-bounds-crossed-at-conversion", "C14", "C14.10", ("lerax/space/box.py", "        low = jnp.asarray(low, dtype=float)\n        high = jnp.asarray(high, dtype=float)", "        low = jnp.asarray(high, dtype=float)\n        high = jnp.asarray(low, dtype=float)")),
    M("W-box-ctor-broadcast-crossed", "C14", "C14.10", ("lerax/space/box.py", "            low, high = jnp.broadcast_arrays(low, high)", "            high, low = jnp.broadcast_arrays(low, high)")),
    V("W-v-box-ctor-broadcast-reordered", "C14", ("lerax/space/box.py", "            low, high = jnp.broadcast_arrays(low, high)", "            high, low = jnp.broadcast_arrays(high, low)")),
    M("W-box-canonical-twice-the-sum", "C14", "C14.7", ("lerax/space/box.py", "(self.low + self.high) / 2", "(self.low + self.high) * 2")),
    M("W-box-canonical-third", "C14", "C14.7", ("lerax/space/box.py", "(self.low + self.high) / 2", "(self.low + self.high) / 3")),
    M("W-box-canonical-unbounded-inf", "C14", "C14.7", ("lerax/space/box.py", "jnp.where(bounded_above, self.high, 0.0)", "jnp.where(bounded_above, self.high, jnp.inf)")),
    V("W-v-box-canonical-halves", "C14", ("lerax/space/box.py", "(self.low + self.high) / 2", "0.5 * self.low + 0.5 * self.high")),
    V("W-v-box-canonical-unbounded-one", "C14", ("lerax/space/box.py", "jnp.where(bounded_above, self.high, 0.0)", "jnp.where(bounded_above, self.high, 1.0)")),
    M("W-box-eq-either-bound", "C14", "C14.4", ("lerax/space/box.py", "bool(jnp.array_equal(self.low, other.low)) and bool(", "bool(jnp.array_equal(self.low, other.low)) or bool(")),
    V("W-v-box-eq-early-return", "C14", ("lerax/space/box.py", "        return bool(jnp.array_equal(self.low, other.low)) and bool(\n            jnp.array_equal(self.high, other.high)\n        )", "        if not bool(jnp.array_equal(self.low, other.low)):\n            return False\n        return bool(jnp.array_equal(self.high, other.high))")),
    M("W-callbacklist-states-reversed", "C19", "C19.6", ("lerax/callback/list.py", "            eqx.tree_at(lambda c: c.state, ctx, state) for state in ctx.state.states", "            eqx.tree_at(lambda c: c.state, ctx, state) for state in reversed(ctx.state.states)")),
    M("W-callbacklist-on-step-shared-context", "C19", "C19.6", ("lerax/callback/list.py", "        new_states = [\n            callback.on_step(ctx, key=key)\n            for callback, ctx, key in zip(\n                self.callbacks, contexts, jr.split(key, len(self.callbacks))\n            )\n        ]\n        return CallbackListStepState(states=new_states)", "        new_states = [\n            callback.on_step(ctx, key=key)\n            for callback, key in zip(\n                self.callbacks, jr.split(key, len(self.callbacks))\n            )\n        ]\n        return CallbackListStepState(states=new_states)")),
    M("W-callbacklist-on-step-same-key", "C19", "C19.6", ("lerax/callback/list.py", "        new_states = [\n            callback.on_step(ctx, key=key)\n            for callback, ctx, key in zip(\n                self.callbacks, contexts, jr.split(key, len(self.callbacks))\n            )\n        ]\n        return CallbackListStepState(states=new_states)", "        new_states = [\n            callback.on_step(ctx, key=key)\n            for callback, ctx in zip(self.callbacks, contexts)\n        ]\n        return CallbackListStepState(states=new_states)")),
    V("W-v-callbacklist-on-step-fused", "C19", ("lerax/callback/list.py", "        new_states = [\n            callback.on_step(ctx, key=key)\n            for callback, ctx, key in zip(\n                self.callbacks, contexts, jr.split(key, len(self.callbacks))\n            )\n        ]\n        return CallbackListStepState(states=new_states)", "        new_states = [\n            callback.on_step(eqx.tree_at(lambda c: c.state, ctx, state), key=key)\n            for callback, state, key in zip(\n                self.callbacks, ctx.state.states, jr.split(key, len(self.callbacks))\n            )\n        ]\n        return CallbackListStepState(states=new_states)")),
    M("W-classic-step-backwards-in-time", "C17", "C17.17", ("lerax/env/classic_control/base_classic_control.py", "            t1=state.t + self.dt,", "            t1=state.t - self.dt,")),
    M("W-classic-step-from-clipped-state", "C17", "C17.17", ("lerax/env/classic_control/base_classic_control.py", "            y0=state.y,", "            y0=self.clip(state.y),")),
    M("W-classic-step-unclipped", "C17", "C17.17", ("lerax/env/classic_control/base_classic_control.py", "        y = self.clip(sol.ys[0])", "        y = sol.ys[0]")),
    M("W-classic-step-clock-frozen", "C17", "C17.17", ("lerax/env/classic_control/base_classic_control.py", "        t = state.t + self.dt\n", "        t = state.t\n")),
    M("W-classic-step-ignores-action", "C17", "C17.17", ("lerax/env/classic_control/base_classic_control.py", "            return self.dynamics(t, y, action)", "            return self.dynamics(t, y, args * 0)")),
    V("W-v-classic-step-shared-t1", "C17", ("lerax/env/classic_control/base_classic_control.py", "        saveat = diffrax.SaveAt(t1=True)", "        t_next = state.t + self.dt\n        saveat = diffrax.SaveAt(t1=True)"), ("lerax/env/classic_control/base_classic_control.py", "            t1=state.t + self.dt,", "            t1=t_next,"), ("lerax/env/classic_control/base_classic_control.py", "        t = state.t + self.dt\n", "        t = t_next\n")),
    M("W-cartpole-force-sign", "C17", "C17.6", ("lerax/env/classic_control/cartpole.py", "force = (action * 2 - 1) * self.force_mag", "force = (action * 2 + 1) * self.force_mag")),
    M("W-acrobot-theta1-dd-sign", "C17", "C17.6", ("lerax/env/classic_control/acrobot.py", "theta1_dd = -(d2 * theta2_dd + phi1) / d1", "theta1_dd = (d2 * theta2_dd + phi1) / d1")),
    M("W-box-eq-allclose", "C14", "C14.4", ("lerax/space/box.py", "bool(jnp.array_equal(self.low, other.low)) and bool(\n            jnp.array_equal(self.high, other.high)", "bool(jnp.allclose(self.low, other.low)) and bool(\n            jnp.allclose(self.high, other.high)")),
    M("W-ant-action-space-inverted", "C02", "C02.6", ("lerax/env/mujoco/ant.py", "self.action_space = Box(low=low, high=high)", "self.action_space = Box(low=high, high=low)")),
    M("W-swimmer-action-columns-crossed", "C02", "C02.6", ("lerax/env/mujoco/swimmer.py", "low, high = bounds[:, 0], bounds[:, 1]", "low, high = bounds[:, 1], bounds[:, 0]")),
    M("W-reacher-observation-space-inverted", "C02", "C02.6", ("lerax/env/mujoco/reacher.py", "self.observation_space = Box(low=-high_obs, high=high_obs)", "self.observation_space = Box(low=high_obs, high=-high_obs)")),
    M("W-g1-action-space-inverted", "C02", "C02.6", ("lerax/env/unitree/g1/base_g1.py", "self.action_space = Box(low=-1.0, high=1.0, shape=(NUM_ACTUATED_DOFS,))", "self.action_space = Box(low=1.0, high=-1.0, shape=(NUM_ACTUATED_DOFS,))")),
    V("W-v-hopper-observation-space-neg-first", "C02", ("lerax/env/mujoco/hopper.py", "        high_obs = jnp.full((obs_size,), jnp.inf, dtype=jnp.float32)\n        self.observation_space = Box(low=-high_obs, high=high_obs)", "        low_obs = jnp.full((obs_size,), -jnp.inf, dtype=jnp.float32)\n        self.observation_space = Box(low=low_obs, high=-low_obs)")),
    M("W-gymnax-reward-from-pre-state", "C13", "C13.9", ("lerax/compatibility/gymnax.py", "        return next_state.reward", "        return state.reward")),
    M("W-gymnax-box-bounds-crossed", "C13", "C13.9", ("lerax/compatibility/gymnax.py", "        return Box(low=space.low, high=space.high, shape=space.shape)", "        return Box(low=space.high, high=space.low, shape=space.shape)")),
    M("W-gymnax-time-counts-down", "C13", "C13.9", ("lerax/compatibility/gymnax.py", "                time=state.time + 1,", "                time=state.time - 1,")),
    M("W-gymnax-done-ignores-truncation", "C13", "C13.9", ("lerax/compatibility/gymnax.py", "        done = termination | truncation", "        done = termination")),
    M("W-gymnax-terminal-from-successor", "C13", "C13.9", ("lerax/compatibility/gymnax.py", "        return state.terminal", "        return jnp.array(False, dtype=bool)")),
    V("W-v-gymnax-step-unpacked-by-index", "C13", ("lerax/compatibility/gymnax.py", "        observation, env_state, reward, done, _ = self.env.step_env(\n            key, state.env_state, action, self.params\n        )", "        out = self.env.step_env(key, state.env_state, action, self.params)\n        observation, env_state, reward, done = out[0], out[1], out[2], out[3]")),
    M("W-hopper-dt-divided", "C17", "C17.18", ("lerax/env/mujoco/hopper.py", "self.dt = jnp.array(mj_model.opt.timestep * self.frame_skip)", "self.dt = jnp.array(mj_model.opt.timestep / self.frame_skip)")),
    M("W-hopper-init-qpos-from-qvel", "C17", "C17.18", ("lerax/env/mujoco/hopper.py", "self.init_qpos = jnp.asarray(mj_data.qpos).reshape(-1)", "self.init_qpos = jnp.asarray(mj_data.qvel).reshape(-1)")),
    V("W-v-hopper-init-qpos-ravel", "C17", ("lerax/env/mujoco/hopper.py", "self.init_qpos = jnp.asarray(mj_data.qpos).reshape(-1)", "self.init_qpos = jnp.ravel(jnp.asarray(mj_data.qpos))")),
    M("W-mc-logits-returns-probs", "C15", "C15.5", (DMC, "        return jnp.concatenate(tuple(d.logits for d in self.distribution), axis=-1)", "        return jnp.concatenate(tuple(d.probs for d in self.distribution), axis=-1)")),
    M("W-sac-policy-logprob-mean", "C07", "C07.8", ("lerax/policy/sac/mlp.py", "        return None, action, log_prob.sum().squeeze()", "        return None, action, log_prob.mean().squeeze()")),
    V("W-v-sac-policy-logprob-jnp-sum", "C07", ("lerax/policy/sac/mlp.py", "        return None, action, log_prob.sum().squeeze()", "        return None, action, jnp.squeeze(jnp.sum(log_prob))")),
    M("W-sac-policy-std-without-exp", "C15", "C15.3", ("lerax/policy/sac/mlp.py", "        std = jnp.exp(log_std)", "        std = log_std")),
    M("W-box-head-scale-without-exp", "C15", "C15.3", (PA, "                scale=jnp.exp(self.log_std),", "                scale=self.log_std,")),
    M("W-filter-scan-default-reverse", ["C03", "C05"], ["C03.L", "C05.L"], ("lerax/utils.py", "    reverse: bool = False,", "    reverse: bool = True,")),
    # ---------------------------------------------------------------- restylings met in the behaviour-preserving round, and their broken twins
    V("R-v-discrete-guards-merged", "C14", ("lerax/space/discrete.py", "        if x is None:\n            return jnp.array(False)\n\n        if x.ndim != 0:\n            return jnp.array(False)\n        x = x.squeeze()", "        if x is None or x.ndim != 0:\n            return jnp.array(False)\n        x = x.squeeze()")),
    M("R-discrete-guards-merged-and", "C14", "C14.3", ("lerax/space/discrete.py", "        if x is None:\n            return jnp.array(False)\n\n        if x.ndim != 0:\n            return jnp.array(False)\n        x = x.squeeze()", "        if x is None and x.ndim != 0:\n            return jnp.array(False)\n        x = x.squeeze()")),
    M("R-discrete-guards-merged-rank-flipped", "C14", "C14.3", ("lerax/space/discrete.py", "        if x is None:\n            return jnp.array(False)\n\n        if x.ndim != 0:\n            return jnp.array(False)\n        x = x.squeeze()", "        if x is None or x.ndim == 0:\n            return jnp.array(False)\n        x = x.squeeze()")),
    V("R-v-actionlayer-early-return", "C16", (PA, "        if action_mask is not None and isinstance(dist, AbstractMaskableDistribution):\n            return cast(AbstractMaskableDistribution[ActType, MaskType], dist).mask(\n                action_mask\n            )\n\n        return dist", "        if action_mask is None or not isinstance(dist, AbstractMaskableDistribution):\n            return dist\n        return dist.mask(action_mask)")),
    M("R-actionlayer-early-return-and", "C16", "C16.2", (PA, "        if action_mask is not None and isinstance(dist, AbstractMaskableDistribution):\n            return cast(AbstractMaskableDistribution[ActType, MaskType], dist).mask(\n                action_mask\n            )\n\n        return dist", "        if action_mask is None and not isinstance(dist, AbstractMaskableDistribution):\n            return dist\n        return dist.mask(action_mask)")),
    M("R-actionlayer-early-return-unmaskable-only", "C16", "C16.2", (PA, "        if action_mask is not None and isinstance(dist, AbstractMaskableDistribution):\n            return cast(AbstractMaskableDistribution[ActType, MaskType], dist).mask(\n                action_mask\n            )\n\n        return dist", "        if not isinstance(dist, AbstractMaskableDistribution):\n            return dist\n        if action_mask is None:\n            return dist\n        return dist")),
    V("R-v-serialize-keep-name", "C18", ("lerax/utils.py", "        if path.suffix != \".eqx\" and not no_suffix:\n            path = path.with_suffix(\".eqx\")", "        keep_name = path.suffix == \".eqx\" or no_suffix\n        path = path if keep_name else path.with_suffix(\".eqx\")")),
    M("R-serialize-keep-name-and", "C18", "C18.2", ("lerax/utils.py", "        if path.suffix != \".eqx\" and not no_suffix:\n            path = path.with_suffix(\".eqx\")", "        keep_name = path.suffix == \".eqx\" and no_suffix\n        path = path if keep_name else path.with_suffix(\".eqx\")")),
    V("R-v-serialize-keyword-args", "C18", ("lerax/utils.py", "        eqx.tree_serialise_leaves(path, self)", "        eqx.tree_serialise_leaves(pytree=self, path_or_file=path)")),
    M("R-serialize-keyword-args-filter", "C18", "C18.3", ("lerax/utils.py", "        eqx.tree_serialise_leaves(path, self)", "        eqx.tree_serialise_leaves(pytree=self, path_or_file=path, is_leaf=lambda x: x is None)")),
    V("R-v-gym-seed-inverted-branches", "C11", ("lerax/compatibility/gym.py", "        if \"seed\" in kwargs:\n            kwargs = dict(kwargs)\n            seed_value = kwargs.pop(\"seed\")\n            seed = jnp.asarray(seed_value, dtype=int)\n        else:\n            seed = jr.randint(key, (), 0, jnp.iinfo(jnp.int32).max)", "        if \"seed\" not in kwargs:\n            seed = jr.randint(key, (), 0, jnp.iinfo(jnp.int32).max)\n        else:\n            kwargs = dict(kwargs)\n            seed = jnp.asarray(kwargs.pop(\"seed\"), dtype=int)")),
    M("R-gym-seed-inverted-constant", "C11", "C11.5", ("lerax/compatibility/gym.py", "        if \"seed\" in kwargs:\n            kwargs = dict(kwargs)\n            seed_value = kwargs.pop(\"seed\")\n            seed = jnp.asarray(seed_value, dtype=int)\n        else:\n            seed = jr.randint(key, (), 0, jnp.iinfo(jnp.int32).max)", "        if \"seed\" not in kwargs:\n            seed = jnp.asarray(0, dtype=int)\n        else:\n            kwargs = dict(kwargs)\n            seed = jnp.asarray(kwargs.pop(\"seed\"), dtype=int)")),
    V("R-v-scalars-display", "C19", ("lerax/callback/logging/callback.py", "        scalars = {f\"train/{k}\": v for k, v in log.items()}\n        scalars[\"train/learning_rate\"] = learning_rate\n        scalars[\"episode/return\"] = step_state.average_return.mean()\n        scalars[\"episode/length\"] = step_state.average_length.mean()", "        scalars = {**{f\"train/{k}\": v for k, v in log.items()}, \"train/learning_rate\": learning_rate, \"episode/return\": step_state.average_return.mean(), \"episode/length\": step_state.average_length.mean()}")),
    M("R-scalars-display-swapped", "C19", "C19.4", ("lerax/callback/logging/callback.py", "        scalars = {f\"train/{k}\": v for k, v in log.items()}\n        scalars[\"train/learning_rate\"] = learning_rate\n        scalars[\"episode/return\"] = step_state.average_return.mean()\n        scalars[\"episode/length\"] = step_state.average_length.mean()", "        scalars = {**{f\"train/{k}\": v for k, v in log.items()}, \"train/learning_rate\": learning_rate, \"episode/return\": step_state.average_length.mean(), \"episode/length\": step_state.average_return.mean()}")),
    M("R-scalars-display-overwritten-by-log", "C19", "C19.4", ("lerax/callback/logging/callback.py", "        scalars = {f\"train/{k}\": v for k, v in log.items()}\n        scalars[\"train/learning_rate\"] = learning_rate\n        scalars[\"episode/return\"] = step_state.average_return.mean()\n        scalars[\"episode/length\"] = step_state.average_length.mean()", "        scalars = {\"train/learning_rate\": learning_rate, \"episode/return\": step_state.average_return.mean(), \"episode/length\": step_state.average_length.mean(), **log}")),
    V("R-v-sac-target-partial", ["C07", "C10", "C11"], (SAC, "        def compute_target(next_obs, reward, done, timeout, action_key):\n            _, next_action, next_log_prob = policy.action_and_log_prob(\n                None, next_obs, key=action_key\n            )\n            q1_next = qf1_target(next_obs, next_action)\n            q2_next = qf2_target(next_obs, next_action)\n            min_q_next = jnp.minimum(q1_next, q2_next) - alpha * next_log_prob\n            not_terminal = (~done | timeout).astype(float)\n            return reward + self.gamma * min_q_next * not_terminal\n", "        compute_target = partial(_soft_td_target, policy, qf1_target, qf2_target, alpha, self.gamma)\n"), (SAC, "def _soft_update_targets[", "def _soft_td_target(policy, qf1_target, qf2_target, alpha, gamma, next_obs, reward, done, timeout, action_key):\n    _, next_action, next_log_prob = policy.action_and_log_prob(None, next_obs, key=action_key)\n    q1_next = qf1_target(next_obs, next_action)\n    q2_next = qf2_target(next_obs, next_action)\n    min_q_next = jnp.minimum(q1_next, q2_next) - alpha * next_log_prob\n    not_terminal = (~done | timeout).astype(float)\n    return reward + gamma * min_q_next * not_terminal\n\n\ndef _soft_update_targets["), (SAC, "from __future__ import annotations\n", "from __future__ import annotations\n\nfrom functools import partial\n")),
    M("R-sac-target-partial-swapped", ["C07", "C10"], ["C07"], (SAC, "        def compute_target(next_obs, reward, done, timeout, action_key):\n            _, next_action, next_log_prob = policy.action_and_log_prob(\n                None, next_obs, key=action_key\n            )\n            q1_next = qf1_target(next_obs, next_action)\n            q2_next = qf2_target(next_obs, next_action)\n            min_q_next = jnp.minimum(q1_next, q2_next) - alpha * next_log_prob\n            not_terminal = (~done | timeout).astype(float)\n            return reward + self.gamma * min_q_next * not_terminal\n", "        compute_target = partial(_soft_td_target, policy, qf1_target, qf2_target, self.gamma, alpha)\n"), (SAC, "def _soft_update_targets[", "def _soft_td_target(policy, qf1_target, qf2_target, alpha, gamma, next_obs, reward, done, timeout, action_key):\n    _, next_action, next_log_prob = policy.action_and_log_prob(None, next_obs, key=action_key)\n    q1_next = qf1_target(next_obs, next_action)\n    q2_next = qf2_target(next_obs, next_action)\n    min_q_next = jnp.minimum(q1_next, q2_next) - alpha * next_log_prob\n    not_terminal = (~done | timeout).astype(float)\n    return reward + gamma * min_q_next * not_terminal\n\n\ndef _soft_update_targets["), (SAC, "from __future__ import annotations\n", "from __future__ import annotations\n\nfrom functools import partial\n")),
    M("R-polyak-filter-wrong-net", "C10", "C10.5", (SAC, "        target_arrays, _ = eqx.partition(target, eqx.is_inexact_array)", "        target_arrays = eqx.filter(online, eqx.is_inexact_array)")),
    V("R-v-polyak-filter", "C10", (SAC, "        target_arrays, _ = eqx.partition(target, eqx.is_inexact_array)", "        target_arrays = eqx.filter(target, eqx.is_inexact_array)")),
    M("R-box-flat-size-prod-tail", "C14", "C14.8", ("lerax/space/box.py", "        return reduce(operator.mul, self.shape, 1)", "        import math\n        return math.prod(self.shape[1:])")),
    V("R-v-box-flat-size-prod", "C14", ("lerax/space/box.py", "        return reduce(operator.mul, self.shape, 1)", "        import math\n        return math.prod(self.shape)")),
    M("N-replay-alloc-shape-reversed", ["C05", "C06"], ["C06"], (RPB, "(self.size,) + arr.shape)", "arr.shape + (self.size,))")),
    M("N-flatten-shape-reversed", "C06", "C06", ("lerax/buffer/base_buffer.py", "(leading,) + moved.shape[num_axes:])", "moved.shape[num_axes:] + (leading,))")),
    V("N-v-flatten-shape-star", "C06", ("lerax/buffer/base_buffer.py", "(leading,) + moved.shape[num_axes:])", "(leading, *moved.shape[num_axes:]))")),
    V("N-v-replay-alloc-shape-star", ["C05", "C06"], (RPB, "(self.size,) + arr.shape)", "(self.size, *arr.shape))")),
    M("C07-x-timeouts-raw-position", "C07", "C07.7", (RPB, "timeouts = self.timeouts.at[idx].set(timeout)", "timeouts = self.timeouts.at[self.position].set(timeout)")),
    M("C07-x-dones-other-slot", "C07", "C07.7", (RPB, "dones = self.dones.at[idx].set(done)", "dones = self.dones.at[idx - 1].set(done)")),
    M("C11-x-branch-on-callback-state", "C11", "C11.3", (OFP, "        callback_state = callback.reset(ResetContext(locals()), key=callback_key)\n\n        return AbstractOffPolicyState(", "        if jax.tree.leaves(step_state.callback_state):\n            step_state = eqx.tree_at(lambda s: s.env_state, step_state, step_state.env_state)\n            init_key = starts_key\n        callback_state = callback.reset(ResetContext(locals()), key=callback_key)\n        if jax.tree.leaves(callback_state):\n            policy = jax.tree.map(lambda x: x, policy)\n\n        return AbstractOffPolicyState(")),
    M("C11-x-learn-key-depends-on-callback", "C11", "C11.3", ("lerax/algorithm/base_algorithm.py", "        callback = self.consolidate_callbacks(callback)\n", "        callback = self.consolidate_callbacks(callback)\n        if isinstance(callback, CallbackList):\n            reset_key = learn_key\n")),
    V("C11-x-v-branch-on-callback-same-result", "C11", ("lerax/algorithm/base_algorithm.py", "        callback = self.consolidate_callbacks(callback)\n", "        callback = self.consolidate_callbacks(callback)\n        if isinstance(callback, CallbackList):\n            n_observers = len(callback.callbacks)\n        else:\n            n_observers = 1\n")),
    M("O-ppo-overrides-post-collect", ["C03", "C04"], "C03", (PPO, "    def per_step(", "    def post_collect(self, env, policy, step_state, buffer, *, key):\n        return buffer\n\n    def per_step("), error_ok=True),
    M("W-ppo-clip-coef-from-entropy", ["C08", "C10"], ["C08.9", "C10.7"], (PPO, "        self.clip_coefficient = clip_coefficient", "        self.clip_coefficient = entropy_loss_coefficient")),
    M("W-sac-tau-from-gamma", "C10", "C10.7", (SAC, "        self.tau = tau", "        self.tau = gamma")),
    M("W-hopper-ctrl-weight-from-forward", "C17", "C17.15", ("lerax/env/mujoco/hopper.py", "self.ctrl_cost_weight = jnp.array(ctrl_cost_weight)", "self.ctrl_cost_weight = jnp.array(forward_reward_weight)")),
    M("W-g1-standup-drops-armature", "C20", "C20.5", ("lerax/env/unitree/g1/standup.py", "            armature_scale_range=armature_scale_range,\n", "")),
    M("W-g1-common-mass-from-armature", "C20", "C20.5", ("lerax/env/unitree/g1/base_g1.py", "        self.mass_scale_range = mass_scale_range", "        self.mass_scale_range = armature_scale_range")),
    M("G-prng-impl-rbg", ["C12", "C11"], ["C12.5", "C11.6"], ("lerax/__init__.py", "", "import jax\n\njax.config.update(\"jax_default_prng_impl\", \"rbg\")\n")),
    M("G-x64-enabled-in-utils", ["C12", "C11"], ["C12.5", "C11.6"], ("lerax/utils.py", "from __future__ import annotations\n", "from __future__ import annotations\n\nimport jax as _jax\n\n_jax.config.update(\"jax_enable_x64\", True)\n")),
    M("G-gym-seed-only-first", "C11", "C11.5", ("lerax/compatibility/gym.py", "            seed_int = int(seed_arr)\n            obs, _ = self.env.reset(*args, seed=seed_int, **kwargs)", "            seed_int = int(seed_arr) if self.env.unwrapped._np_random is None else None\n            obs, _ = self.env.reset(*args, seed=seed_int, **kwargs)")),
    M("G-gym-seed-constant", "C11", "C11.5", ("lerax/compatibility/gym.py", "            seed = jr.randint(key, (), 0, jnp.iinfo(jnp.int32).max)", "            seed = jnp.asarray(0, dtype=int)")),
    V("G-v-gym-seed-inline", "C11", ("lerax/compatibility/gym.py", "            seed_int = int(seed_arr)\n            obs, _ = self.env.reset(*args, seed=seed_int, **kwargs)", "            obs, _ = self.env.reset(*args, seed=int(seed_arr), **kwargs)")),
    M("F-multidiscrete-head-field-name", "C16", "C16.3", (PA, "        self.mapping = eqx.nn.Linear(latent_dim, sum(action_space.nvec), key=key)", "        self.mappings = eqx.nn.Linear(latent_dim, sum(action_space.nvec), key=key)")),
    M("F-mc-split-traced-indices", ["C15", "C16"], ["C15.2", "C16.6"], (DMC, "        split_idx = [sum(action_dims[: i + 1]) for i in range(len(action_dims) - 1)]", "        split_idx = jnp.cumsum(jnp.asarray(action_dims[:-1]))")),
    V("F-v-mc-split-numpy", "C15", (DMC, "        split_idx = [sum(action_dims[: i + 1]) for i in range(len(action_dims) - 1)]", "        import numpy as np\n        split_idx = np.cumsum(action_dims[:-1])")),
    M("F-box-space-field-dropped", "C14", "C14.4", ("lerax/space/discrete.py", "        self.n = ", "        self.m = ")),
    M("P-timelimit-mutable-default-counter", ["C02", "C12"], ["C02.3", "C12.1"], ("lerax/wrapper/misc.py", "    def truncate(self, state: TimeLimitState[StateType]) -> Bool[Array, \"\"]:\n", "    def truncate(self, state: TimeLimitState[StateType], _seen=[]) -> Bool[Array, \"\"]:\n        _seen.append(1)\n")),
    M("P-walker-terminal-python-and", ["C02", "C12"], ["C02.3", "C12.1"], ("lerax/env/mujoco/hopper.py", "        if not self.terminate_when_unhealthy:\n            return jnp.array(False)\n", "        if not self.terminate_when_unhealthy and not self.is_healthy(state.sim_state):\n            return jnp.array(False)\n")),
    M("P-learn-hash-of-string-key", "C11", "C11.1", ("lerax/algorithm/base_algorithm.py", "        callback = self.consolidate_callbacks(callback)\n", "        callback = self.consolidate_callbacks(callback)\n        key = jr.fold_in(key, hash(type(self).__name__) % 1000)\n")),
    M("C03-disc-nomask", "C03", "C03.3", (RB, "discounts = gamma * gae_lambda * next_non_terminals", "discounts = gamma * gae_lambda")),
    M("C03-boot-nomask", "C03", "C03.3", (RB, "gamma * next_values * next_non_terminals - self.values", "gamma * next_values - self.values")),
    M("C03-forward", "C03", "C03.1", (RB, "(deltas, discounts), reverse=True", "(deltas, discounts), reverse=False")),
    M("C03-noreverse", "C03", "C03.1", (RB, "(deltas, discounts), reverse=True", "(deltas, discounts)")),
    M("C03-returns-eq-adv", "C03", "C03.4", (RB, "returns = advantages + self.values", "returns = advantages")),
    M("C03-swap-fields", "C03", "C03", (RB, "self, (returns, advantages)", "self, (advantages, returns)")),
    M("C03-x-dones-termination-only", "C03", "C03.8", (ONP, "                dones=done,", "                dones=termination,")),
    M("C03-x-dones-truncation-only", "C03", "C03.8", (ONP, "                dones=done,", "                dones=truncation,")),
    M("C03-x-values-second-call", "C03", "C03.8", (ONP, "                values=value,", "                values=policy.value(state.policy_state, observation)[1] * 0.5,")),
    V("C03-x-v-dones-flipped", "C03", (ONP, "        done = termination | truncation", "        done = truncation | termination")),
    M("C08-x-store-clipped", "C08", "C08.8", (ONP, "                actions=action,", "                actions=clipped_action,")),
    M("C08-x-logprob-second-call", "C08", "C08.8", (ONP, "                log_probs=log_prob,", "                log_probs=policy.action_and_value(state.policy_state, observation, key=transition_key, action_mask=action_mask)[3],")),
    M("C07-x-timeout-raw", "C07", "C07.6", (OFP, "        timeout = truncation & ~termination", "        timeout = truncation")),
    M("C07-x-done-term-only-timeout-any", "C07", "C07.6", (OFP, "        timeout = truncation & ~termination", "        timeout = truncation | termination")),
    V("C07-x-v-timeout-spelled", "C07", (OFP, "        timeout = truncation & ~termination", "        timeout = jnp.logical_and(truncation, jnp.logical_not(termination))")),
    V("C07-x-v-timeout-done-minus-term", "C07", (OFP, "        timeout = truncation & ~termination", "        timeout = done & ~termination")),
    M("C03-swap-gamma-lambda", "C03", "C03.6", (ONP, "next_value, self.gae_lambda, self.gamma", "next_value, self.gamma, self.gae_lambda")),
    M("C03-init-carry", "C03", "C03.1", (RB, "scan_fn, jnp.array(0.0), (deltas", "scan_fn, last_value, (deltas")),
    M("C03-lambda-in-delta", "C03", "C03", (RB, "deltas = self.rewards + gamma * next_values", "deltas = self.rewards + gamma * gae_lambda * next_values")),
    M("C03-shift-wrong", "C03", "C03.3", (RB, "[self.values[1:], last_value[None]]", "[self.values[:-1], last_value[None]]")),
    M("C03-boot-prestate", "C03", "C03.6", (ONP, "_, next_value = policy.value(step_state.policy_state, observation)\n        return buffer.compute",
                                               "_, next_value = policy.value(step_state.policy_state, buffer.observations)\n        return buffer.compute")),
    M("C03-estimator-outside-vmap", "C03", "C03.7",
      (ONP, "        policy, opt_state, log = self.train(\n            state.policy, state.opt_state, rollout_buffer, key=train_key\n        )",
            "        rollout_buffer = rollout_buffer.compute_returns_and_advantages(0.0, 0.95, self.gamma)\n        policy, opt_state, log = self.train(\n            state.policy, state.opt_state, rollout_buffer, key=train_key\n        )")),
    V("C03-v-commute", "C03", (RB, "advantage = delta + discount * carry", "advantage = carry * discount + delta")),
    V("C03-v-temp", "C03", (RB, "deltas = self.rewards + gamma * next_values * next_non_terminals - self.values",
                           "boot = next_non_terminals * next_values\n        deltas = -self.values + gamma * boot + self.rewards")),
    V("C03-v-xs-order", "C03", (RB, "delta, discount = x", "discount, delta = x"), (RB, "(deltas, discounts), reverse=True", "(discounts, deltas), reverse=True")),
    V("C03-v-kw", "C03", (ONP, "next_value, self.gae_lambda, self.gamma", "gamma=self.gamma, last_value=next_value, gae_lambda=self.gae_lambda")),
    # ---------------------------------------------------------------- C08
    M("C08-value-min", "C08", "C08.3", (PPO, "jnp.maximum(\n                        jnp.square(values - rollout_buffer.returns)", "jnp.minimum(\n                        jnp.square(values - rollout_buffer.returns)")),
    M("C08-onesided-clip", "C08", "C08.1", (PPO, "jnp.clip(ratios, 1 - clip_coefficient, 1 + clip_coefficient)", "jnp.clip(ratios, 1 - clip_coefficient, jnp.inf)")),
    M("C08-policy-max", "C08", "C08.1", (PPO, "policy_loss = -jnp.mean(\n            jnp.minimum(", "policy_loss = -jnp.mean(\n            jnp.maximum(")),
    M("C08-sign", "C08", "C08.1", (PPO, "policy_loss = -jnp.mean(\n            jnp.minimum(", "policy_loss = jnp.mean(\n            jnp.minimum(")),
    M("C08-coef-swap", "C08", "C08.4", (PPO, "+ value_loss * value_loss_coefficient\n            + entropy_loss * entropy_loss_coefficient", "+ value_loss * entropy_loss_coefficient\n            + entropy_loss * value_loss_coefficient")),
    M("C08-entropy-sign", "C08", "C08.4", (PPO, "entropy_loss = -jnp.mean(entropy)\n\n        loss = (", "entropy_loss = jnp.mean(entropy)\n\n        loss = (")),
    M("C08-chain-order", "C08", "C08.6", (PPO, "self.optimizer = optax.chain(clip, adam)", "self.optimizer = optax.chain(adam, clip)")),
    M("C08-noapply", "C08", "C08.6", (PPO, "        policy = eqx.apply_updates(policy, updates)\n\n        return policy, new_opt_state, stats", "        eqx.apply_updates(policy, updates)\n\n        return policy, new_opt_state, stats")),
    M("C08-kl-k1", "C08", "C08.1", (PPO, "approx_kl = jnp.mean(ratios - log_ratios) - 1", "approx_kl = jnp.mean(-log_ratios)")),
    M("C08-advnorm-nomean", "C08", "C08", (PPO, "advantages = (advantages - jnp.mean(advantages)) / (", "advantages = (advantages) / (")),
    M("C08-callsite-coef-swap", "C08", "C08.6", (PPO, "            self.value_loss_coefficient,\n            self.entropy_loss_coefficient,\n        )", "            self.entropy_loss_coefficient,\n            self.value_loss_coefficient,\n        )")),
    M("C08-a2c-noneg", "C08", "C08.5", (A2C, "policy_loss = -jnp.mean(log_probs * advantages)", "policy_loss = jnp.mean(log_probs * advantages)")),
    M("C08-reinforce-value-half", "C08", "C08.5", (RF, "value_loss = jnp.mean(jnp.square(values - rollout_buffer.returns)) / 2", "value_loss = jnp.mean(jnp.square(values - rollout_buffer.returns))")),
    M("C08-a2c-stale-values", "C08", "C08.5", (A2C, "value_loss = jnp.mean(jnp.square(values - rollout_buffer.returns)) / 2", "value_loss = jnp.mean(jnp.square(rollout_buffer.values - rollout_buffer.returns)) / 2")),
    M("C08-eval-nomask", "C08", "C08.7", (A2C, "            rollout_buffer.actions,\n            action_mask=rollout_buffer.action_masks,\n        )", "            rollout_buffer.actions,\n        )")),
    M("C08-a2c-grad-clip-const", "C08", "C08.6", (A2C, "clip = optax.clip_by_global_norm(self.max_grad_norm)", "clip = optax.clip_by_global_norm(1e9)")),
    M("C08-stats-swap", "C08", "C08", (PPO, "            policy_loss,\n            value_loss,\n            entropy_loss,\n        )", "            value_loss,\n            policy_loss,\n            entropy_loss,\n        )")),
    V("C08-v-commute", "C08", (PPO, "advantages * ratios,", "ratios * advantages,"),
      (PPO, "log_ratios = log_probs - rollout_buffer.log_probs", "old_lp = rollout_buffer.log_probs\n        log_ratios = -old_lp + log_probs")),
    V("C08-v-sq", "C08", (A2C, "jnp.mean(jnp.square(values - rollout_buffer.returns)) / 2", "0.5 * jnp.mean((rollout_buffer.returns - values) ** 2)")),
    V("C08-v-maxorder", "C08", (PPO, "jnp.maximum(\n                        jnp.square(values - rollout_buffer.returns),\n                        jnp.square(clipped_values - rollout_buffer.returns),",
                               "jnp.maximum(\n                        jnp.square(clipped_values - rollout_buffer.returns),\n                        jnp.square(values - rollout_buffer.returns),")),
    # ---------------------------------------------------------------- C07
    M("C07-dqn-notdone", ["C07"], "C07", (DQN, "not_terminal = (~batch.dones | batch.timeouts).astype(float)", "not_terminal = (~batch.dones).astype(float)")),
    M("C07-dqn-and", ["C07"], "C07.3", (DQN, "(~batch.dones | batch.timeouts)", "(~batch.dones & batch.timeouts)")),
    M("C07-dqn-argmax-target", "C07", "C07.1", (DQN, "best_actions = jnp.argmax(online_next_q, axis=-1)", "best_actions = jnp.argmax(target_next_q, axis=-1)"),
      (DQN, "        best_actions = jnp.argmax(target_next_q, axis=-1)\n\n        _, target_next_q = jax.vmap(target_policy.q_values)(\n            batch.next_states, batch.next_observations\n        )\n",
            "        _, target_next_q = jax.vmap(target_policy.q_values)(\n            batch.next_states, batch.next_observations\n        )\n        best_actions = jnp.argmax(target_next_q, axis=-1)\n")),
    M("C07-dqn-online-eval", "C07", "C07.1", (DQN, "_, target_next_q = jax.vmap(target_policy.q_values)(", "_, target_next_q = jax.vmap(policy.q_values)(")),
    M("C07-sac-max", "C07", "C07.2", (SAC, "min_q_next = jnp.minimum(q1_next, q2_next) - alpha * next_log_prob", "min_q_next = jnp.maximum(q1_next, q2_next) - alpha * next_log_prob")),
    M("C07-sac-plus-alpha", "C07", "C07.2", (SAC, "min_q_next = jnp.minimum(q1_next, q2_next) - alpha * next_log_prob", "min_q_next = jnp.minimum(q1_next, q2_next) + alpha * next_log_prob")),
    M("C07-sac-online-critics", "C07", "C07.2", (SAC, "q1_next = qf1_target(next_obs, next_action)", "q1_next = qf1(next_obs, next_action)")),
    M("C07-sac-notdone", "C07", "C07", (SAC, "not_terminal = (~done | timeout).astype(float)", "not_terminal = (~done).astype(float)")),
    M("C07-sac-timeout-only", "C07", "C07", (SAC, "not_terminal = (~done | timeout).astype(float)", "not_terminal = (~done & ~timeout).astype(float)")),
    M("C07-sac-same-key", "C07", "C07.2", (SAC, "            batch.timeouts,\n            next_action_keys,\n        )", "            batch.timeouts,\n            jr.split(sample_key, self.batch_size),\n        )")),
    M("C07-qloss-two-targets", "C07", "C07.5", (SAC, "qf2_loss = jnp.mean(jnp.square(qf2_values - target)) / 2", "qf2_loss = jnp.mean(jnp.square(qf2_values - qf1_values)) / 2")),
    M("C07-dqn-iter-online-target", "C07", "C07.4", (DQN, "            step_state.buffer,\n            state.target_policy,  # type: ignore[attr-defined]", "            step_state.buffer,\n            state.policy,")),
    M("C07-sac-reward-missing-gamma", "C07", "C07.2", (SAC, "return reward + self.gamma * min_q_next * not_terminal", "return reward + min_q_next * not_terminal")),
    V("C07-v-demorgan", "C07", (DQN, "(~batch.dones | batch.timeouts)", "(~(batch.dones & ~batch.timeouts))")),
    V("C07-v-sac-commute", "C07", (SAC, "return reward + self.gamma * min_q_next * not_terminal", "bootstrap = not_terminal * min_q_next\n            return self.gamma * bootstrap + reward")),
    V("C07-v-or-order", "C07", (SAC, "(~done | timeout)", "(timeout | ~done)")),
]

BB = "lerax/buffer/base_buffer.py"
MLP = "lerax/policy/actor_critic/mlp.py"
UT = "lerax/utils.py"

ENTRIES += [
    # ---------------------------------------------------------------- C04
    M("C04-store-clipped", "C04", "C04.2", (ONP, "                actions=action,", "                actions=clipped_action,")),
    M("C04-logprob-second-call", "C04", "C04.2", (ONP, "                log_probs=log_prob,", "                log_probs=policy.action_and_value(state.policy_state, observation, key=transition_key, action_mask=action_mask)[3],")),
    M("C04-reward-unclipped", "C04", "C04.3", (ONP, "state.env_state, clipped_action, next_env_state, key=reward_key", "state.env_state, action, next_env_state, key=reward_key")),
    M("C04-transition-unclipped", "C04", "C04.3", (ONP, "            state.env_state, clipped_action, key=transition_key", "            state.env_state, action, key=transition_key")),
    M("C04-done-term-only", "C04", "C04.4", (ONP, "        done = termination | truncation\n\n        # Bootstrap", "        done = termination\n\n        # Bootstrap")),
    M("C04-boot-on-trunc", "C04", "C04.5", (ONP, "            truncation & ~termination,", "            truncation,")),
    M("C04-boot-on-done", "C04", "C04.5", (ONP, "            truncation & ~termination,", "            done,")),
    M("C04-boot-prestate-obs", "C04", "C04.5", (ONP, "env.observation(next_env_state, key=bootstrap_key)", "env.observation(state.env_state, key=bootstrap_key)")),
    M("C04-boot-no-gamma", "C04", "C04.5", (ONP, "                + self.gamma\n                * policy.value(", "                + policy.value(")),
    M("C04-boot-swapped", "C04", "C04.5", (ONP, "                )[1]\n            ),\n            lambda: reward,\n        )", "                )[1]\n            ),\n            lambda: reward,\n        ) if False else lax.cond(truncation & ~termination, lambda: reward, lambda: reward + self.gamma * policy.value(next_policy_state, env.observation(next_env_state, key=bootstrap_key))[1])")),
    M("C04-policy-reset-trunc", "C04", "C04.6", (ONP, "            done, lambda: policy.reset(key=policy_reset_key), lambda: next_policy_state", "            truncation, lambda: policy.reset(key=policy_reset_key), lambda: next_policy_state")),
    M("C04-env-reset-swapped", "C04", "C04.6", (ONP, "            done, lambda: env.initial(key=env_reset_key), lambda: next_env_state", "            done, lambda: next_env_state, lambda: env.initial(key=env_reset_key)")),
    M("C04-mask-none", "C04", "C04.7", (ONP, "                action_masks=action_mask,", "                action_masks=None,")),
    M("C04-mask-not-applied", "C04", "C04.7", (ONP, "state.policy_state, observation, key=action_key, action_mask=action_mask", "state.policy_state, observation, key=action_key")),
    M("C04-obs-next", "C04", "C04.1", (ONP, "                observations=observation,", "                observations=env.observation(next_env_state, key=observation_key),")),
    M("C04-values-stale", "C04", "C04.2", (ONP, "                values=value,", "                values=policy.value(next_policy_state, observation)[1],")),
    M("C04-scan-len", "C04", "C04.8", (ONP, "scan_step, step_state, jr.split(key, self.num_steps)", "scan_step, step_state, jr.split(key, self.num_steps - 1)")),
    M("C04-mlp-evaluate-nomask", "C04", "C04.9", (MLP, "        action_dist = self.action_head(features, action_mask=action_mask)\n        value = self.value_head(features)\n        log_prob = action_dist.log_prob(action)", "        action_dist = self.action_head(features)\n        value = self.value_head(features)\n        log_prob = action_dist.log_prob(action)")),
    M("C04-mlp-logprob-mean", "C04", "C04.9", (MLP, "        return None, value, log_prob.sum().squeeze(), entropy", "        return None, value, log_prob.mean().squeeze(), entropy")),
    M("C04-filter-cond-swapped", "C04", "C04.10", (UT, "lax.cond(pred, lambda: result_arrays[0], lambda: result_arrays[1])", "lax.cond(pred, lambda: result_arrays[1], lambda: result_arrays[0])")),
    V("C04-v-done-order", "C04", (ONP, "        done = termination | truncation\n\n        # Bootstrap", "        done = truncation | termination\n\n        # Bootstrap")),
    V("C04-v-boot-demorgan", "C04", (ONP, "            truncation & ~termination,", "            ~(termination | ~truncation),")),
    V("C04-v-where", "C04", (ONP, "        bootstrapped_reward = lax.cond(\n            truncation & ~termination,\n            lambda: (", "        bootstrapped_reward = lax.cond(\n            ~termination & truncation,\n            lambda: (")),
    # ---------------------------------------------------------------- C05
    M("C05-reward-unclipped", "C05", "C05.2", (OFP, "            state.env_state, clipped_action, next_env_state, key=reward_key", "            state.env_state, action, next_env_state, key=reward_key")),
    M("C05-nextobs-after-reset", "C05", "C05.1", (OFP, "        next_observation = env.observation(next_env_state, key=next_observation_key)\n\n        next_env_state = lax.cond(\n            done, lambda: env.initial(key=env_reset_key), lambda: next_env_state\n        )\n",
       "        next_env_state = lax.cond(\n            done, lambda: env.initial(key=env_reset_key), lambda: next_env_state\n        )\n        next_observation = env.observation(next_env_state, key=next_observation_key)\n")),
    M("C05-timeout-trunc", "C05", "C05.1", (OFP, "        timeout = truncation & ~termination", "        timeout = truncation")),
    M("C05-done-timeout-swapped", "C05", "C05.1", (OFP, "            reward,\n            done,\n            timeout,\n            state.policy_state,", "            reward,\n            timeout,\n            done,\n            state.policy_state,")),
    M("C05-store-clipped-action", "C05", "C05.1", (OFP, "            next_observation,\n            action,\n            reward,", "            next_observation,\n            clipped_action,\n            reward,")),
    M("C05-obs-swapped", "C05", "C05.1", (OFP, "            observation,\n            next_observation,\n            action,", "            next_observation,\n            observation,\n            action,")),
    M("C05-next-state-reset", "C05", "C05.1", (OFP, "            state.policy_state,\n            policy_state,\n        )", "            state.policy_state,\n            next_policy_state,\n        )")),
    M("C05-warmup-len", "C05", "C05.4", (OFP, "scan_step, step_state, jr.split(key, self.learning_starts)", "scan_step, step_state, jr.split(key, self.learning_starts // self.num_envs)")),
    M("C05-buffer-not-divided", "C05", "C05.5", (OFP, "                self.buffer_size // self.num_envs,", "                self.buffer_size,")),
    M("C05-done-term", "C05", "C05.1", (OFP, "        done = termination | truncation\n        timeout", "        done = termination\n        timeout")),
    M("C05-env-reset-trunc-only", "C05", "C05.3", (OFP, "            done, lambda: env.initial(key=env_reset_key), lambda: next_env_state", "            truncation, lambda: env.initial(key=env_reset_key), lambda: next_env_state")),
    M("C05-no-warmup", "C05", "C05.4", (OFP, "            step_state = self.collect_learning_starts(\n                env, policy, step_state, callback, starts_key\n            )\n", "")),
    V("C05-v-timeout-order", "C05", (OFP, "        timeout = truncation & ~termination", "        timeout = ~termination & truncation")),
    V("C05-v-kwargs", "C05", (OFP, "            reward,\n            done,\n            timeout,\n            state.policy_state,\n            policy_state,\n        )", "            reward,\n            timeout=timeout,\n            done=done,\n            next_state=policy_state,\n            state=state.policy_state,\n        )")),
    # ---------------------------------------------------------------- C06
    M("C06-idx-size-1", "C06", "C06.1", (RPB, "idx = self.position % self.size", "idx = self.position % (self.size - 1)")),
    M("C06-pos-plus2", "C06", "C06.1", (RPB, "new_position = self.position + 1", "new_position = self.position + 2")),
    M("C06-swap-obs-repl", "C06", "C06", (RPB, "            new_position,\n            observations,\n            next_observations,", "            new_position,\n            next_observations,\n            observations,")),
    M("C06-swap-where", "C06", "C06", (RPB, "            lambda rb: rb.dones,\n            lambda rb: rb.timeouts,", "            lambda rb: rb.timeouts,\n            lambda rb: rb.dones,")),
    M("C06-mask-le", "C06", "C06.3", (RPB, "valid_mask = jnp.arange(self.size) < current_size\n", "valid_mask = jnp.arange(self.size) <= current_size\n")),
    M("C06-replace-true", "C06", "C06.3", (RPB, "            replace=False,\n            p=probs,", "            replace=True,\n            p=probs,")),
    M("C06-no-probs", "C06", "C06.3", (RPB, "            replace=False,\n            p=probs,", "            replace=False,")),
    M("C06-mask-from-size", "C06", "C06.3", (RPB, "        return jnp.minimum(self.position, self.size)", "        return jnp.minimum(self.size, self.size)")),
    M("C06-rewards-from-dones", "C06", "C06.2", (RPB, "rewards = self.rewards.at[idx].set(reward)", "rewards = self.dones.at[idx].set(reward)")),
    M("C06-next-states-state", "C06", "C06.2", (RPB, "jax.tree.map(set_at_idx, self.next_states, next_state)", "jax.tree.map(set_at_idx, self.next_states, state)")),
    M("C06-vector-mask-axis", "C06", "C06.4", (RPB, "current_size[..., None]).reshape(-1)", "current_size[None, ...]).reshape(-1)")),
    M("C06-other-idx", "C06", "C06.1", (RPB, "dones = self.dones.at[idx].set(done)", "dones = self.dones.at[idx - 1].set(done)")),
    M("C06-take-axis1", "C06", "C06.3", (RPB, "return jnp.take(x, batch_indices, axis=0)", "return jnp.take(x, batch_indices, axis=1)")),
    M("C06-flatten-target-axes", ["C06", "C09"], ["C06.4", "C09.3"], (BB, "moved = jnp.moveaxis(x, axes, target_axes)", "moved = jnp.moveaxis(x, target_axes, axes)")),
    M("C06-uniform-tile", "C06", "C06", (RPB, '        if current_size.ndim == 0:\n            valid_mask = jnp.arange(self.size) < current_size\n        else:\n            valid_mask = (jnp.arange(self.size) < current_size[..., None]).reshape(-1)\n', "        valid_mask = (jnp.arange(total) % self.size) < jnp.tile(jnp.reshape(current_size, (-1,)), self.size)\n")),
    V("C06-v-uniform-mask", "C06", (RPB, '        if current_size.ndim == 0:\n            valid_mask = jnp.arange(self.size) < current_size\n        else:\n            valid_mask = (jnp.arange(self.size) < current_size[..., None]).reshape(-1)\n', "        valid_mask = (jnp.arange(self.size) < current_size[..., None]).reshape(-1)\n")),
    V("C06-v-idx-temp", "C06", (RPB, "idx = self.position % self.size", "cap = self.size\n        idx = self.position % cap")),
    V("C06-v-mask-flip", "C06", (RPB, "valid_mask = jnp.arange(self.size) < current_size\n", "valid_mask = current_size > jnp.arange(self.size)\n")),
    # ---------------------------------------------------------------- C09
    M("C09-trim-plus", "C09", "C09.1", (BB, "total_trim = total - (total % batch_size)", "total_trim = total + (total % batch_size)")),
    M("C09-reshape-transposed", "C09", "C09.1", (BB, "return indices[:total_trim].reshape(-1, batch_size)", "return indices[:total_trim].reshape(batch_size, -1)")),
    M("C09-gather-axis1", "C09", "C09.2", (BB, "return jax.tree.map(lambda x: jnp.take(x, indices, axis=0), self)", "return jax.tree.map(lambda x: jnp.take(x, indices, axis=1), self)")),
    M("C09-gather-roll", "C09", "C09.2", (BB, "return jax.tree.map(lambda x: jnp.take(x, indices, axis=0), self)", "return jax.tree.map(lambda x: jnp.take(x, indices + x.ndim, axis=0), self)")),
    M("C09-outer-key", "C09", "C09.4", (PPO, "                policy, opt_state, buffer, key=key\n            )\n            return (policy, opt_state), stats", "                policy, opt_state, buffer, key=jr.key(0)\n            )\n            return (policy, opt_state), stats")),
    M("C09-gather-unflattened", "C09", "C09.4", (PPO, "batch = flat_buffer.gather(batch_indices)", "batch = rollout_buffer.gather(batch_indices)")),
    M("C09-batch-size", "C09", "C09.4", (PPO, "self.batch_size = (self.num_steps * self.num_envs) // num_batches", "self.batch_size = self.num_steps // num_batches")),
    M("C09-no-trim", "C09", "C09.1", (BB, "return indices[:total_trim].reshape(-1, batch_size)", "return indices[:batch_size * 2].reshape(-1, batch_size)")),
    M("C09-two-perms", "C09", "C09.1", (BB, "indices = jnp.arange(total) if key is None else jr.permutation(key, total)", "indices = jnp.arange(total) if key is None else jr.permutation(key, total)[jr.permutation(key, total)] % total")),
    M("C09-sample-replace", "C09", "C09.2", (RB, "indices = jr.choice(key, total, shape=(batch_size,), replace=False)", "indices = jr.choice(key, total, shape=(batch_size,), replace=True)")),
    V("C09-v-trim-floor", "C09", (BB, "total_trim = total - (total % batch_size)", "total_trim = (total // batch_size) * batch_size")),
]

LCB = "lerax/callback/logging/callback.py"
BEN = "lerax/benchmark/__init__.py"

ENTRIES += [
    # ---------------------------------------------------------------- C19
    M("C19-ret-noreset", "C19", "C19.1", (LCB, "            self.episode_return * (1.0 - self.episode_done.astype(float)) + reward", "            self.episode_return + reward")),
    M("C19-select-prevdone", "C19", "C19.1", (LCB, "        average_return = lax.select(\n            done,", "        average_return = lax.select(\n            self.episode_done,")),
    M("C19-alpha-swapped", "C19", "C19.1", (LCB, "            alpha * episode_return + (1.0 - alpha) * self.average_return,", "            (1.0 - alpha) * episode_return + alpha * self.average_return,")),
    M("C19-len-plus-reward", "C19", "C19.1", (LCB, "self.episode_length * (1 - self.episode_done.astype(int)) + 1", "self.episode_length * (1 - self.episode_done.astype(int)) + 2")),
    M("C19-avg-len-from-ret", "C19", "C19.1", (LCB, "            alpha * episode_length.astype(float) + (1.0 - alpha) * self.average_length,", "            alpha * episode_return + (1.0 - alpha) * self.average_length,")),
    M("C19-ctor-swap", "C19", "C19.1", (LCB, "            episode_return,\n            episode_length,\n            done,\n            average_return,\n            average_length,\n        )", "            episode_return,\n            episode_length,\n            done,\n            average_length,\n            average_return,\n        )")),
    M("C19-done-old", "C19", "C19.1", (LCB, "            episode_return,\n            episode_length,\n            done,\n            average_return,", "            episode_return,\n            episode_length,\n            self.episode_done,\n            average_return,")),
    M("C19-onstep-swap", "C19", "C19.2", (LCB, "return ctx.state.next(ctx.reward, ctx.done, self.alpha)", "return ctx.state.next(ctx.done, ctx.reward, self.alpha)")),
    M("C19-ctx-boot-reward", "C19", "C19.3", (ONP, "state.callback_state, env, policy, done, reward, locals()", "state.callback_state, env, policy, done, bootstrapped_reward, locals()")),
    M("C19-ctx-swap", "C19", "C19.3", (OFP, "StepContext(state.callback_state, env, policy, done, reward, locals())", "StepContext(state.callback_state, env, policy, reward, done, locals())")),
    M("C19-ctx-done-term", "C19", "C19.3", (OFP, "StepContext(state.callback_state, env, policy, done, reward, locals())", "StepContext(state.callback_state, env, policy, termination, reward, locals())")),
    M("C19-sum-returns", "C19", "C19.4", (LCB, 'scalars["episode/return"] = step_state.average_return.mean()', 'scalars["episode/return"] = step_state.average_return.sum()')),
    M("C19-step-mean", "C19", "C19.4", (LCB, "last_step = step_state.step.sum()", "last_step = step_state.step.max()")),
    M("C19-unordered", "C19", "C19.4", (LCB, "callback_with_numpy_wrapper(b.log_scalars, ordered=True)(scalars, last_step)", "callback_with_numpy_wrapper(b.log_scalars, ordered=False)(scalars, last_step)")),
    M("C19-wrapper-drops-ordered", "C19", "C19.4", (UT, "            _callback, *args, ordered=ordered, partitioned=partitioned, **kwargs", "            _callback, *args, ordered=False, partitioned=partitioned, **kwargs")),
    M("C19-scan-keeps-adding", "C19", "C19.5", (BEN, "            return (env_state, policy_state, jnp.array(True)), jnp.array(0.0)\n\n        return jax.lax.cond(done, done_step, next_step)", "            return next_step()\n\n        return jax.lax.cond(done, done_step, next_step)")),
    M("C19-scan-done-and", "C19", "C19.5", (BEN, "            done = env.terminal(next_env_state, key=terminal_key) | env.truncate(", "            done = env.terminal(next_env_state, key=terminal_key) & env.truncate(")),
    M("C19-scan-branches-swapped", "C19", "C19.5", (BEN, "return jax.lax.cond(done, done_step, next_step)", "return jax.lax.cond(done, next_step, done_step)")),
    M("C19-while-term-only", "C19", "C19.5", (BEN, "return ~(env.terminal(env_state, key=key) | env.truncate(env_state))", "return ~env.terminal(env_state, key=key)")),
    M("C19-avg-sum", "C19", "C19.5", (BEN, "    rewards = jax.vmap(episode_reward)(jr.split(key, num_episodes))\n    return jnp.mean(rewards)", "    rewards = jax.vmap(episode_reward)(jr.split(key, num_episodes))\n    return jnp.sum(rewards)")),
    M("C19-det-with-key", "C19", "C19.5", (BEN, "            if deterministic:\n                next_policy_state, action = policy(policy_state, obs)\n            else:\n                next_policy_state, action = policy(policy_state, obs, key=action_key)\n\n            next_env_state = env.transition(env_state, action, key=transition_key)\n            reward = env.reward(env_state, action, next_env_state, key=carry_key)\n            done",
       "            if not deterministic:\n                next_policy_state, action = policy(policy_state, obs)\n            else:\n                next_policy_state, action = policy(policy_state, obs, key=action_key)\n\n            next_env_state = env.transition(env_state, action, key=transition_key)\n            reward = env.reward(env_state, action, next_env_state, key=carry_key)\n            done")),
    M("C19-scan-discounted", "C19", "C19.5", (BEN, "    return jnp.sum(rewards)", "    return jnp.sum(rewards * 0.99 ** jnp.arange(max_steps))")),
    V("C19-v-where-ret", "C19", (LCB, "            self.episode_return * (1.0 - self.episode_done.astype(float)) + reward", "            jnp.where(self.episode_done, reward, self.episode_return + reward)")),
    V("C19-v-avg-mult", "C19", (LCB, "        average_return = lax.select(\n            done,\n            alpha * episode_return + (1.0 - alpha) * self.average_return,\n            self.average_return,\n        )",
       "        average_return = self.average_return + done.astype(float) * alpha * (episode_return - self.average_return)")),
    V("C19-v-scan-where", "C19", (BEN, "return ~(env.terminal(env_state, key=key) | env.truncate(env_state))", "return ~env.terminal(env_state, key=key) & ~env.truncate(env_state)")),
]

BA = "lerax/algorithm/base_algorithm.py"

ENTRIES += [
    # ---------------------------------------------------------------- C10
    M("C10-numiter-plus", "C10", "C10.1", (ONP, "        return total_timesteps // (self.num_envs * self.num_steps)", "        return total_timesteps // (self.num_envs + self.num_steps)")),
    M("C10-numiter-off", "C10", "C10.1", (OFP, "        return total_timesteps // (self.num_envs * self.num_steps)", "        return total_timesteps // self.num_steps")),
    M("C10-count-plus2", "C10", "C10", (BA, "(self.iteration_count + 1, step_state, policy, opt_state)", "(self.iteration_count + 2, step_state, policy, opt_state)")),
    M("C10-next-twice", "C10", "C10.2", (DQN, "        state = state.next(step_state, policy, opt_state)\n", "        state = state.next(step_state, policy, opt_state)\n        state = state.next(step_state, policy, opt_state)\n")),
    M("C10-skip-per-iteration", "C10", "C10.2", (DQN, "        return self.per_iteration(state)\n\n    def train(", "        return state\n\n    def train(")),
    M("C10-dqn-ne", "C10", "C10.4", (DQN, "should_update = state.iteration_count % self.target_update_interval == 0", "should_update = state.iteration_count % self.target_update_interval != 0")),
    M("C10-dqn-branches", "C10", "C10.4", (DQN, "            lambda: state.policy,\n            lambda: state.target_policy,  # type: ignore[attr-defined]", "            lambda: state.target_policy,  # type: ignore[attr-defined]\n            lambda: state.policy,")),
    M("C10-dqn-reset-target", "C10", "C10.4", (DQN, "            target_policy=policy,", "            target_policy=base_state.step_state.policy_state,")),
    M("C10-polyak-swapped", "C10", "C10.5", (SAC, "lambda o, t: tau * o + (1 - tau) * t,", "lambda o, t: (1 - tau) * o + tau * t,")),
    M("C10-polyak-crossed", "C10", "C10.5", (SAC, "new_qf2_target = polyak(state.qf2, state.qf2_target)", "new_qf2_target = polyak(state.qf1, state.qf2_target)")),
    M("C10-polyak-writeback-swapped", "C10", "C10.5", (SAC, "        (new_qf1_target, new_qf2_target),\n    )", "        (new_qf2_target, new_qf1_target),\n    )")),
    M("C10-actor-unconditional", "C10", "C10.6", (SAC, "policy, opt_state = filter_cond(should_update_actor, update_actor, skip_actor)", "policy, opt_state = update_actor()")),
    M("C10-alpha-outside-autotune", "C10", "C10.6", (SAC, "        if self.autotune:\n\n            def compute_log_probs", "        if True:\n\n            def compute_log_probs")),
    M("C10-gate-ne", "C10", "C10.6", (SAC, "should_update_actor = iteration_count % self.policy_frequency == 0", "should_update_actor = iteration_count % self.policy_frequency != 0")),
    M("C10-sac-writeback-swap", "C10", "C10.6", (SAC, "            (qf1, qf2, q_opt_state, log_alpha, alpha_opt_state),\n        )", "            (qf2, qf1, q_opt_state, log_alpha, alpha_opt_state),\n        )")),
    M("C10-sac-args-swap", "C10", "C10.6", (SAC, "            state.qf1_target,  # type: ignore[attr-defined]\n            state.qf2_target,  # type: ignore[attr-defined]", "            state.qf2_target,  # type: ignore[attr-defined]\n            state.qf1_target,  # type: ignore[attr-defined]")),
    M("C10-learn-scan-len", "C10", "C10.1", (BA, "jr.split(learn_key, self.num_iterations(total_timesteps)),", "jr.split(learn_key, self.num_iterations(total_timesteps) + 1),")),
    M("C10-train-stale-policy", "C10", "C10.2", (ONP, "        state = state.next(step_state, policy, opt_state)\n\n        state = state.with_callback_states(\n            callback.on_iteration(\n                IterationContext(", "        state = state.next(step_state, state.policy, opt_state)\n\n        state = state.with_callback_states(\n            callback.on_iteration(\n                IterationContext(")),
    V("C10-v-numiter-commute", "C10", (ONP, "        return total_timesteps // (self.num_envs * self.num_steps)", "        per = self.num_steps * self.num_envs\n        return total_timesteps // per")),
    V("C10-v-polyak", "C10", (SAC, "lambda o, t: tau * o + (1 - tau) * t,", "lambda o, t: t + tau * (o - t),")),
]

WTA = "lerax/wrapper/transform_action.py"
WTO = "lerax/wrapper/transform_observation.py"
WTR = "lerax/wrapper/transform_reward.py"
WM = "lerax/wrapper/misc.py"
WU = "lerax/wrapper/utils.py"
CG = "lerax/compatibility/gym.py"
CGX = "lerax/compatibility/gymnax.py"

ENTRIES += [
    # ---------------------------------------------------------------- C13
    M("C13-action-reward-nofunc", "C13", "C13.1", (WTA, "        return self.env.reward(\n            state.env_state, self.func(action), next_state.env_state, key=key\n        )", "        return self.env.reward(\n            state.env_state, action, next_state.env_state, key=key\n        )")),
    M("C13-action-info-nofunc", "C13", "C13.1", (WTA, "        return self.env.transition_info(\n            state.env_state, self.func(action), next_state.env_state\n        )", "        return self.env.transition_info(\n            state.env_state, action, next_state.env_state\n        )")),
    M("C13-timelimit-reward-swapped", "C13", "C13.1", (WM, "        return self.env.reward(state.env_state, action, next_state.env_state, key=key)\n\n    def terminal(\n        self, state: TimeLimitState", "        return self.env.reward(next_state.env_state, action, state.env_state, key=key)\n\n    def terminal(\n        self, state: TimeLimitState")),
    M("C13-obs-wrapper-reward", "C13", "C13.1", (WTO, "        return self.env.reward(state.env_state, action, next_state.env_state, key=key)", "        return self.func(self.env.reward(state.env_state, action, next_state.env_state, key=key))")),
    M("C13-reward-wrapper-nofunc", "C13", "C13.1", (WTR, "        return self.func(\n            self.env.reward(state.env_state, action, next_state.env_state, key=key)\n        )", "        return self.env.reward(state.env_state, action, next_state.env_state, key=key)")),
    M("C13-remove-space", "C13", ["C13.3", "C13.2"], (WTR, "    @property\n    def observation_space(self) -> AbstractSpace[ObsType, Any]:\n        return self.env.observation_space\n\n    def initial(self, *, key: Key[Array, \"\"]) -> PureTransformRewardState", "    def initial(self, *, key: Key[Array, \"\"]) -> PureTransformRewardState")),
    M("C13-space-wrong", "C13", "C13.2", (WTR, "    @property\n    def observation_space(self) -> AbstractSpace[ObsType, Any]:\n        return self.env.observation_space", "    @property\n    def observation_space(self) -> AbstractSpace[ObsType, Any]:\n        return self.env.action_space")),
    M("C13-timelimit-gt", "C13", "C13.4", (WM, "return env_truncate | (state.step_count >= self.max_episode_steps)", "return env_truncate | (state.step_count > self.max_episode_steps)")),
    M("C13-timelimit-plus2", "C13", "C13.4", (WM, "step_count=state.step_count + 1, env_state=env_next_state", "step_count=state.step_count + 2, env_state=env_next_state")),
    M("C13-timelimit-init1", "C13", "C13.4", (WM, "return TimeLimitState(step_count=0, env_state=env_state)", "return TimeLimitState(step_count=1, env_state=env_state)")),
    M("C13-timelimit-drops-inner", "C13", "C13.4", (WM, "return env_truncate | (state.step_count >= self.max_episode_steps)", "return state.step_count >= self.max_episode_steps")),
    M("C13-rescale-action-forward", "C13", "C13.5", (WTA, "action_space, _, rescale = rescale_box(env.action_space, min, max)", "action_space, rescale, _ = rescale_box(env.action_space, min, max)")),
    M("C13-rescale-obs-backward", "C13", "C13.5", (WTO, "new_box, forward, _ = rescale_box(env.observation_space, min, max)", "new_box, _, forward = rescale_box(env.observation_space, min, max)")),
    M("C13-intercept-plus", "C13", "C13.5", (WU, "min[min_finite] - box.low[min_finite] * gradient[min_finite]", "min[min_finite] + box.low[min_finite] * gradient[min_finite]")),
    M("C13-gradient-inverted", "C13", "C13.5", (WU, "(max[both_finite] - min[both_finite])\n        / (box.high[both_finite] - box.low[both_finite])", "(box.high[both_finite] - box.low[both_finite])\n        / (max[both_finite] - min[both_finite])")),
    M("C13-backward-wrong", "C13", "C13.5", (WU, "return (sample - intercept) / gradient", "return sample / gradient - intercept")),
    M("C13-clipaction-own-space", "C13", "C13.5", (WTA, "return jnp.clip(action, env.action_space.low, env.action_space.high)", "return jnp.clip(action, -1.0, 1.0)")),
    M("C13-gym-swap-term-trunc", "C13", "C13.7", (CG, "            terminal=terminated,\n            truncated=truncated,\n        )", "            terminal=truncated,\n            truncated=terminated,\n        )")),
    M("C13-gym-step-order", "C13", "C13.7", (CG, "            bool(jnp.asarray(term)),\n            bool(jnp.asarray(trunc)),", "            bool(jnp.asarray(trunc)),\n            bool(jnp.asarray(term)),")),
    M("C13-gymnax-done-and", "C13", "C13.7", (CGX, "        done = termination | truncation", "        done = termination & truncation")),
    M("C13-gymnax-order", "C13", "C13.7", (CGX, "        observation, env_state, reward, done, _ = self.env.step_env(", "        env_state, observation, reward, done, _ = self.env.step_env(")),
    M("C13-unwrapped-shallow", "C13", "C13.6", ("lerax/wrapper/base_wrapper.py", "        return self.env.unwrapped", "        return self.env")),
    M("C13-identity-obs-next", "C13", "C13.1", (WM, "    def observation(\n        self, state: IdentityState[StateType], *, key: Key[Array, \"\"]\n    ) -> ObsType:\n        return self.env.observation(state.env_state, key=key)", "    def observation(\n        self, state: IdentityState[StateType], *, key: Key[Array, \"\"]\n    ) -> ObsType:\n        return self.env.observation(state, key=key)")),
    M("C13-mask-func-dropped", "C13", "C13.1", (WTA, "            return self.mask_func(env_mask)", "            return env_mask")),
    V("C13-v-timelimit-or-order", "C13", (WM, "return env_truncate | (state.step_count >= self.max_episode_steps)", "return (self.max_episode_steps <= state.step_count) | env_truncate")),
    V("C13-v-forward-commute", "C13", (WU, "return gradient * sample + intercept", "return intercept + sample * gradient")),
]

SB = "lerax/space/box.py"
SD = "lerax/space/discrete.py"
SMB = "lerax/space/multi_binary.py"
SMD = "lerax/space/multi_discrete.py"
SDI = "lerax/space/dict.py"
STU = "lerax/space/tuple.py"

ENTRIES += [
    # ---------------------------------------------------------------- C14
    M("C14-dict-contains-positional", "C14", "C14.2", (SDI, "[space.contains(x[key]) for key, space in self.spaces.items()]", "[space.contains(x_i) for space, x_i in zip(self.spaces.values(), x.values())]")),
    M("C14-dict-flatten-positional", "C14", "C14.8", (SDI, "space.flatten_sample(sample[key]) for key, space in self.spaces.items()", "space.flatten_sample(v) for space, v in zip(self.spaces.values(), sample.values())")),
    M("C14-dict-flatten-sample-order", "C14", "C14.8", (SDI, "space.flatten_sample(sample[key]) for key, space in self.spaces.items()", "self.spaces[key].flatten_sample(v) for key, v in sample.items()")),
    M("C14-dict-sample-shifted-keys", "C14", "C14.6", (SDI, "                    self.spaces.keys(),\n                    self.spaces.values(),", "                    self.spaces.keys(),\n                    reversed(self.spaces.values()),")),
    M("C14-dict-canonical-plain-dict", "C14", "C14.7", (SDI, "        return OrderedDict(\n            {key: space.canonical() for key, space in self.spaces.items()}\n        )", "        return {key: space.canonical() for key, space in self.spaces.items()}")),
    M("C14-tuple-contains-reversed", "C14", "C14.2", (STU, "[space.contains(x_i) for space, x_i in zip(self.spaces, x)]", "[space.contains(x_i) for space, x_i in zip(self.spaces, reversed(x))]")),
    M("C14-tuple-canonical-list", "C14", "C14.7", (STU, "return tuple(space.canonical() for space in self.spaces)", "return [space.canonical() for space in self.spaces]")),
    M("C14-tuple-flat-size-skip-first", "C14", "C14.8", (STU, "return sum(space.flat_size for space in self.spaces)", "return sum(space.flat_size for space in self.spaces[1:])")),
    V("C14-v-dict-contains-by-key", "C14", (SDI, "[space.contains(x[key]) for key, space in self.spaces.items()]", "[self.spaces[key].contains(x[key]) for key in self.spaces]")),
    V("C14-v-dict-contains-by-x-key", "C14", (SDI, "[space.contains(x[key]) for key, space in self.spaces.items()]", "[self.spaces[key].contains(value) for key, value in x.items()]")),
    V("C14-v-tuple-contains-enumerate", "C14", (STU, "[space.contains(x_i) for space, x_i in zip(self.spaces, x)]", "[space.contains(x[i]) for i, space in enumerate(self.spaces)]")),
    V("C14-v-tuple-contains-range", "C14", (STU, "[space.contains(x_i) for space, x_i in zip(self.spaces, x)]", "[self.spaces[i].contains(x[i]) for i in range(len(self.spaces))]")),
    V("C14-v-dict-flat-size-items", "C14", (SDI, "return sum(space.flat_size for space in self.spaces.values())", "return sum(space.flat_size for _, space in self.spaces.items())")),
    M("C12-dict-plain-dict", "C12", "C12.4", (SDI, "        self.spaces = OrderedDict(spaces)", "        self.spaces = dict(spaces)")),
    M("C12-dict-literal-comprehension", "C12", "C12.4", (SDI, "        self.spaces = OrderedDict(spaces)", "        self.spaces = {k: v for k, v in spaces.items()}")),
    V("C12-v-dict-ordered-from-items", "C12", (SDI, "        self.spaces = OrderedDict(spaces)", "        self.spaces = OrderedDict((k, v) for k, v in spaces.items())")),
    M("C01-x-timelimit-drops-inner", "C01", "C01.9", ("lerax/wrapper/misc.py", "        return env_truncate | (state.step_count >= self.max_episode_steps)", "        return state.step_count >= self.max_episode_steps")),
    M("C01-x-reward-wrapper-terminal-const", "C01", "C01.9", ("lerax/wrapper/transform_reward.py", "        return self.env.terminal(state.env_state, key=key)", "        return jnp.array(False)")),
    M("C14-md-no-lower", "C14", "C14.2", (SMD, "return jnp.all((x >= 0) & (x < jnp.asarray(self.nvec)))", "return jnp.all(x < jnp.asarray(self.nvec))")),
    M("C14-mb-axis0", "C14", "C14.1", (SMB, "return jnp.all((x == 0) | (x == 1))", "return jnp.all((x == 0) | (x == 1), axis=0)")),
    M("C14-tuple-prefix", "C14", "C14.4", (STU, "return len(self.spaces) == len(other.spaces) and all(", "return all(")),
    M("C14-dict-ordereddict", "C14", "C14.4", (SDI, "        if not isinstance(other, Dict):\n            return False", "        if not isinstance(other, OrderedDict):\n            return False")),
    M("C14-dict-hash-items", "C14", "C14.5", (SDI, "return hash(frozenset(self.spaces.items()))", "return hash(self.spaces.items())")),
    M("C14-box-canonical-mid", "C14", "C14.7", (SB, "        return jnp.where(\n            bounded_above & bounded_below,\n            (self.low + self.high) / 2,", "        return (self.low + self.high) / 2 + 0 * jnp.where(\n            bounded_above & bounded_below,\n            (self.low + self.high) / 2,")),
    M("C14-box-exclusive", "C14", "C14.2", (SB, "return jnp.all(x >= self.low) & jnp.all(x <= self.high)", "return jnp.all(x > self.low) & jnp.all(x <= self.high)")),
    M("C14-box-noshape", "C14", "C14.3", (SB, "        if x.shape != self.shape:\n            return jnp.array(False)\n\n        return jnp.all(x >= self.low)", "        return jnp.all(x >= self.low)")),
    M("C14-discrete-nofloor", "C14", "C14.3", (SD, "        if ~jnp.array_equal(x, jnp.floor(x)):\n            return jnp.array(False)\n\n        return 0 <= x < self.n", "        return 0 <= x < self.n")),
    M("C14-discrete-le-n", "C14", "C14.2", (SD, "return 0 <= x < self.n", "return 0 <= x <= self.n")),
    M("C14-box-eq-ignores-high", "C14", "C14", (SB, "        return bool(jnp.array_equal(self.low, other.low)) and bool(\n            jnp.array_equal(self.high, other.high)\n        )", "        return bool(jnp.array_equal(self.low, other.low))")),
    M("C14-box-hash-high-only", "C14", "C14.5", (SB, "return hash((self.low.tobytes(), self.high.tobytes()))", "return hash((self.high.tobytes(),))")),
    M("C14-box-sample-plus", "C14", "C14.6", (SB, "self.high - jr.exponential(upper_bounded_key, self.shape),", "self.high + jr.exponential(upper_bounded_key, self.shape),")),
    M("C14-box-sample-masks-swapped", "C14", "C14.6", (SB, "        upper_bounded = ~bounded_below & bounded_above\n        lower_bounded = bounded_below & ~bounded_above", "        lower_bounded = ~bounded_below & bounded_above\n        upper_bounded = bounded_below & ~bounded_above")),
    M("C14-discrete-sample-nomask", "C14", "C14.6", (SD, "return jr.choice(key, self.n, p=mask / jnp.sum(mask))", "return jr.choice(key, self.n)")),
    M("C14-dict-flat-sorted", "C14", "C14.8", (SDI, "return sum(space.flat_size for space in self.spaces.values())", "return sum(space.flat_size for space in sorted(self.spaces.values(), key=repr))")),
    M("C14-dict-contains-nokeys", "C14", "C14.3", (SDI, "        if self.spaces.keys() != x.keys():\n            return jnp.array(False)\n", "")),
    M("C14-tuple-contains-nolen", "C14", "C14.3", (STU, "        if len(x) != len(self.spaces):\n            return jnp.array(False)\n", "")),
    M("C14-tuple-contains-any", "C14", "C14.2", (STU, "            [space.contains(x_i) for space, x_i in zip(self.spaces, x)]\n        ).all()", "            [space.contains(x_i) for space, x_i in zip(self.spaces, x)]\n        ).any()")),
    M("C14-gym-box-swapped", "C14", "C14.9", (CG, "return Box(low=space.low, high=space.high, shape=space.shape)", "return Box(low=space.low, high=space.low, shape=space.shape)")),
    M("C14-gym-multibinary-missing", "C14", "C14.9", (CG, "    elif isinstance(space, gym.spaces.MultiBinary):\n        return MultiBinary(n=space.n)\n", "")),
    M("C14-gym-kind-confusion", "C14", "C14.9", (CG, "    elif isinstance(space, MultiBinary):\n        return gym.spaces.MultiBinary(", "    elif isinstance(space, MultiBinary):\n        return gym.spaces.MultiDiscrete(")),
    M("C14-tuple-sample-samekey", "C14", "C14.6", (STU, "            space.sample(key=key)\n            for space, key in zip(self.spaces, jr.split(key, len(self.spaces)))", "            space.sample(key=key)\n            for space, _k in zip(self.spaces, jr.split(key, len(self.spaces)))")),
    V("C14-v-box-single-all", "C14", (SB, "return jnp.all(x >= self.low) & jnp.all(x <= self.high)", "return jnp.all((self.low <= x) & (x <= self.high))")),
    V("C14-v-md-two-alls", "C14", (SMD, "return jnp.all((x >= 0) & (x < jnp.asarray(self.nvec)))", "return jnp.all(x < jnp.asarray(self.nvec)) & jnp.all(0 <= x)")),
]

DB = "lerax/distribution/base_distribution.py"
DC = "lerax/distribution/categorical.py"
DBE = "lerax/distribution/bernoulli.py"
DSN = "lerax/distribution/squashed_normal.py"
DSM = "lerax/distribution/squashed_multivariate_normal.py"
PQ = "lerax/policy/q/base_q.py"
PS = "lerax/policy/sac/mlp.py"

ENTRIES += [
    # ---------------------------------------------------------------- C15
    M("C15-normal-swap", "C15", "C15.5", ("lerax/distribution/normal.py", "distributions.Normal(loc=loc, scale=scale)", "distributions.Normal(loc=scale, scale=loc)")),
    M("C15-normal-scale-squared", "C15", "C15.5", ("lerax/distribution/normal.py", "distributions.Normal(loc=loc, scale=scale)", "distributions.Normal(loc=loc, scale=scale**2)")),
    M("C15-mvn-scale-from-loc", "C15", "C15.5", ("lerax/distribution/multivariate_normal.py", "            loc=loc, scale_diag=scale_diag\n", "            loc=loc, scale_diag=loc\n")),
    M("C15-cat-logits-probs", "C15", "C15.5", (DC, "distributions.Categorical(logits=logits, probs=probs)", "distributions.Categorical(logits=probs, probs=logits)")),
    M("C15-bern-probs-dropped", "C15", "C15.5", (DBE, "distributions.Bernoulli(logits=logits, probs=probs)", "distributions.Bernoulli(logits=logits, probs=None)")),
    M("C15-sn-loc-scale-swapped", "C15", "C15.5", (DSN, "normal = distributions.Normal(loc=loc, scale=scale)", "normal = distributions.Normal(loc=scale, scale=loc)")),
    M("C15-sn-accessor-scale", "C15", "C15.5", (DSN, "        return self.distribution.distribution.scale", "        return self.distribution.distribution.loc")),
    M("C15-mc-logits-from-probs", "C15", "C15.5", (DMC, "distributions.Categorical(logits=piece) for piece in pieces", "distributions.Categorical(probs=piece) for piece in pieces")),
    V("C15-v-normal-positional-kw", "C15", ("lerax/distribution/normal.py", "distributions.Normal(loc=loc, scale=scale)", "distributions.Normal(scale=scale, loc=loc)")),
    M("C15-prob-logprob", "C15", "C15.1", (DB, "        return self.distribution.prob(value)", "        return self.distribution.log_prob(value)")),
    M("C15-mode-mean", "C15", "C15.1", (DB, "    def mode(self) -> SampleType:\n        return self.distribution.mode()\n\n    def sample_and_log_prob(", "    def mode(self) -> SampleType:\n        return self.distribution.mean()\n\n    def sample_and_log_prob(")),
    M("C15-mc-mean-components", "C15", "C15.2", (DMC, "        return jnp.sum(jnp.stack(logps, axis=-1), axis=-1)", "        return jnp.mean(jnp.stack(logps, axis=-1), axis=-1)")),
    M("C15-mc-value0", "C15", "C15.2", (DMC, "d.log_prob(value_arr[..., i]) for i, d in enumerate(self.distribution)", "d.log_prob(value_arr[..., 0]) for i, d in enumerate(self.distribution)")),
    M("C15-mc-entropy-first", "C15", "C15.2", (DMC, "        return jnp.sum(jnp.stack(ents, axis=-1), axis=-1)", "        return jnp.stack(ents, axis=-1)[..., 0]")),
    M("C15-mc-salp-scores-other-draws", "C15", "C15.2", (DMC, "        logps = tuple(d.log_prob(x) for d, x in zip(self.distribution, draws))", "        logps = tuple(d.log_prob(x) for d, x in zip(self.distribution, reversed(draws)))")),
    V("C15-v-mc-salp-fused-component-calls", ["C15", "C16", "C04"], (DMC, "        draws = tuple(categorical_sample(d, k) for d, k in zip(self.distribution, keys))\n        samples = jnp.stack(draws, axis=-1)\n        logps = tuple(d.log_prob(x) for d, x in zip(self.distribution, draws))\n        return samples, jnp.sum(jnp.stack(logps, axis=-1), axis=-1)",
      "        draws = [categorical_sample(d, k) for d, k in zip(self.distribution, keys)]\n        logps = [d.log_prob(x) for d, x in zip(self.distribution, draws)]\n        return jnp.stack(draws, axis=-1), jnp.sum(jnp.stack(logps, axis=-1), axis=-1)")),
    M("C15-categorical-mode-through-library", ["C15", "C16"], ["C15.7", "C16.8"], ("lerax/distribution/categorical.py", "        return categorical_mode(self.distribution)", "        return self.distribution.mode()")),
    M("C15-mc-sample-through-library", ["C15", "C16"], ["C15.7", "C16.8"], (DMC, "        samples = tuple(\n            categorical_sample(d, k) for d, k in zip(self.distribution, keys)\n        )", "        samples = tuple(d.sample(k) for d, k in zip(self.distribution, keys))")),
    M("C15-categorical-sample-other-law", ["C15", "C16", "C04"], ["C15.1", "C16.6", "C04.12"], ("lerax/distribution/categorical.py", "    draws = jr.categorical(key, distribution.logits, axis=-1)", "    draws = jr.categorical(key, distribution.probs, axis=-1)")),
    M("C15-mc-split-full", "C15", "C15.2", (DMC, "split_idx = [sum(action_dims[: i + 1]) for i in range(len(action_dims) - 1)]", "split_idx = [sum(action_dims[: i + 1]) for i in range(len(action_dims))]")),
    M("C15-mc-split-axis0", "C15", "C15.2", (DMC, "pieces = tuple(jnp.split(arr, split_idx, axis=-1))", "pieces = tuple(jnp.split(arr, split_idx, axis=0))")),
    M("C15-scale-sign", "C15", "C15.3", (DSN, "affine = bijectors.ScalarAffine(scale=(high - low), shift=low)", "affine = bijectors.ScalarAffine(scale=(low - high), shift=low)")),
    M("C15-chain-order", "C15", "C15.3", (DSN, "bijector = bijectors.Chain((affine, sigmoid))", "bijector = bijectors.Chain((sigmoid, affine))")),
    M("C15-block-ndims0", "C15", "C15.3", (DSM, "bijector = bijectors.Block(chain, ndims=1)", "bijector = bijectors.Block(chain, ndims=0)")),
    M("C15-shift-high", "C15", "C15.3", (DSM, "affine = bijectors.ScalarAffine(scale=(high - low), shift=low)", "affine = bijectors.ScalarAffine(scale=(high - low), shift=high)")),
    M("C15-mode-fallback-nobijector", "C15", "C15.4", (DB, "            return self.distribution.bijector.forward(\n                self.distribution.distribution.mode()\n            )", "            return self.distribution.distribution.mode()")),
    V("C15-v-mc-sum-method", "C15", (DMC, "        return jnp.sum(jnp.stack(ents, axis=-1), axis=-1)", "        return jnp.stack(ents, axis=-1).sum(axis=-1)")),
    # ---------------------------------------------------------------- C16
    M("C16-mask-inverted", "C16", "C16.1", (DC, "masked_logits = jnp.where(mask, self.logits, -jnp.inf)", "masked_logits = jnp.where(mask, -jnp.inf, self.logits)")),
    M("C16-mask-plus-inf", "C16", "C16.1", (DBE, "masked_logits = jnp.where(mask, self.logits, -jnp.inf)", "masked_logits = jnp.where(mask, self.logits, jnp.inf)")),
    M("C16-mask-zero", "C16", "C16.1", (DC, "masked_logits = jnp.where(mask, self.logits, -jnp.inf)", "masked_logits = jnp.where(mask, self.logits, 0.0)")),
    M("C16-mc-mask-big-negative", "C16", "C16.1", (DMC, "jnp.where(m, d.logits, -jnp.inf)", "jnp.where(m, d.logits, -1e3)")),
    M("C16-mc-mask-dims", "C16", "C16.1", (DMC, "return MultiCategorical(logits=masked_logits, action_dims=self.action_dims)", "return MultiCategorical(logits=masked_logits, action_dims=self.action_dims[::-1])")),
    M("C16-layer-ignores-mask", "C16", "C16.2", (PA, "            return cast(AbstractMaskableDistribution[ActType, MaskType], dist).mask(\n                action_mask\n            )", "            return cast(AbstractMaskableDistribution[ActType, MaskType], dist)")),
    M("C16-evaluate-nomask", ["C16", "C04"], ["C16.2", "C04.9"], (MLP, "        action_dist = self.action_head(features, action_mask=action_mask)\n        value = self.value_head(features)\n        log_prob = action_dist.log_prob(action)", "        action_dist = self.action_head(features)\n        value = self.value_head(features)\n        log_prob = action_dist.log_prob(action)")),
    M("C16-call-mode-sample-swapped", "C16", "C16.4", (MLP, "        if key is None:\n            action = action_dist.mode()\n        else:\n            action = action_dist.sample(key)", "        if key is not None:\n            action = action_dist.mode()\n        else:\n            action = action_dist.sample(key)")),
    M("C16-sac-mode-mean", "C16", "C16.4", (PS, "        if key is None:\n            action = dist.mode()", "        if key is None:\n            action = dist.mean()")),
    M("C16-eps-gt", "C16", "C16.5", (PQ, "jr.uniform(epsilon_key, shape=()) < self.epsilon,", "jr.uniform(epsilon_key, shape=()) > self.epsilon,")),
    M("C16-eps-mask-after-mode", "C16", "C16.5", (PQ, "                lambda: dist.sample(action_key),", "                lambda: Categorical(logits=q_vals).sample(action_key),")),
    M("C16-eps-branches-swapped", "C16", "C16.5", (PQ, "                lambda: dist.sample(action_key),\n                lambda: dist.mode(),", "                lambda: dist.mode(),\n                lambda: dist.sample(action_key),")),
    M("C16-greedy-ignores-mask", "C16", "C16.5", (PQ, "        if key is None or self.epsilon <= 0.0:\n            return state, dist.mode()", "        if key is None or self.epsilon <= 0.0:\n            return state, Categorical(logits=q_vals).mode()")),
    M("C16-registry-nonmaskable", "C16", "C16.3", (PA, "        return Categorical(logits=self.mapping(inputs))", "        return Normal(loc=self.mapping(inputs), scale=jnp.ones(()))")),
    V("C16-v-eps-flip", "C16", (PQ, "jr.uniform(epsilon_key, shape=()) < self.epsilon,", "self.epsilon > jr.uniform(epsilon_key, shape=()),")),
    V("C16-v-select", "C16", (DC, "masked_logits = jnp.where(mask, self.logits, -jnp.inf)", "masked_logits = jnp.where(~mask, -jnp.inf, self.logits)")),
]

BE = "lerax/env/base_env.py"

ENTRIES += [
    # ---------------------------------------------------------------- C01
    M("C01-reward-post-reset", "C01", "C01.1", (BE, "        reward = self.reward(state, action, next_state, key=reward_key)\n        terminal = self.terminal(next_state, key=terminal_key)\n        truncate = self.truncate(next_state)\n        info = self.transition_info(state, action, next_state)\n\n        state = lax.cond(\n            terminal | truncate, lambda: self.initial(key=reset_key), lambda: next_state\n        )\n",
       "        terminal = self.terminal(next_state, key=terminal_key)\n        truncate = self.truncate(next_state)\n        info = self.transition_info(state, action, next_state)\n\n        new_state = lax.cond(\n            terminal | truncate, lambda: self.initial(key=reset_key), lambda: next_state\n        )\n        reward = self.reward(state, action, new_state, key=reward_key)\n        state = new_state\n")),
    M("C01-truncate-prestate", "C01", "C01.2", (BE, "        truncate = self.truncate(next_state)\n        info", "        truncate = self.truncate(state)\n        info")),
    M("C01-reset-terminal-only", "C01", "C01.3", (BE, "            terminal | truncate, lambda: self.initial(key=reset_key), lambda: next_state", "            terminal, lambda: self.initial(key=reset_key), lambda: next_state")),
    M("C01-branches-swapped", "C01", "C01.3", (BE, "            terminal | truncate, lambda: self.initial(key=reset_key), lambda: next_state", "            terminal | truncate, lambda: next_state, lambda: self.initial(key=reset_key)")),
    M("C01-obs-of-successor", "C01", "C01.4", (BE, "        observation = self.observation(state, key=key)\n\n        return state, observation, reward, terminal, truncate, info", "        observation = self.observation(next_state, key=key)\n\n        return state, observation, reward, terminal, truncate, info")),
    M("C01-reset-obs-other-state", "C01", "C01.5", (BE, "        observation = self.observation(state, key=observation_key)\n        info = self.state_info(state)", "        observation = self.observation(self.initial(key=observation_key), key=observation_key)\n        info = self.state_info(state)")),
    M("C01-timelimit-init-nonzero", ["C01", "C13"], ["C01.7", "C13.4"], (WM, "return TimeLimitState(step_count=0, env_state=env_state)", "return TimeLimitState(step_count=1, env_state=env_state)")),
    M("C01-reset-same-key", "C01", "C01.3", (BE, "            terminal | truncate, lambda: self.initial(key=reset_key), lambda: next_state", "            terminal | truncate, lambda: self.initial(key=transition_key), lambda: next_state")),
    M("C01-override-step", "C01", "C01.6", (WM, "    def state_info(self, state: IdentityState[StateType]) -> dict:", "    def step(self, state, action, *, key):\n        return super().step(state, action, key=key)[::-1]\n\n    def state_info(self, state: IdentityState[StateType]) -> dict:")),
    M("C01-gym-adapter-stale-state", ["C01", "C13"], ["C01.8", "C13.7"], (CG, "        self.state, obs, rew, term, trunc, info = self.env.step(", "        _, obs, rew, term, trunc, info = self.env.step(")),
    V("C01-v-or-order", "C01", (BE, "            terminal | truncate, lambda: self.initial(key=reset_key), lambda: next_state", "            truncate | terminal, lambda: self.initial(key=reset_key), lambda: next_state")),
]

ENTRIES += [
    # ---------------------------------------------------------------- C18
    M("C18-mkdir-after-write", "C18", "C18.1", (UT, "        if not path.parent.exists():\n            path.parent.mkdir(parents=True, exist_ok=True)\n        if path.suffix != \".eqx\" and not no_suffix:\n            path = path.with_suffix(\".eqx\")\n\n        eqx.tree_serialise_leaves(path, self)",
       "        if path.suffix != \".eqx\" and not no_suffix:\n            path = path.with_suffix(\".eqx\")\n\n        eqx.tree_serialise_leaves(path, self)\n        if not path.parent.exists():\n            path.parent.mkdir(parents=True, exist_ok=True)")),
    M("C18-mkdir-noparents", "C18", "C18.1", (UT, "path.parent.mkdir(parents=True, exist_ok=True)", "path.parent.mkdir(exist_ok=True)")),
    M("C18-writer-suffix-dropped", "C18", "C18.2", (UT, "            path = path.with_suffix(\".eqx\")\n", "            path = path.with_suffix(\".npz\")\n")),
    M("C18-writer-suffix-inverted", "C18", "C18.2", (UT, "        if path.suffix != \".eqx\" and not no_suffix:", "        if path.suffix == \".eqx\" and not no_suffix:")),
    M("C18-skeleton-other-class", "C18", "C18.3", (UT, "path, eqx.filter_eval_shape(cls, *args, **kwargs)", "path, eqx.filter_eval_shape(Serializable, *args, **kwargs)")),
    M("C18-skeleton-drops-kwargs", "C18", "C18.3", (UT, "path, eqx.filter_eval_shape(cls, *args, **kwargs)", "path, eqx.filter_eval_shape(cls, *args)")),
    M("C18-writer-filter-spec", "C18", "C18.3", (UT, "        eqx.tree_serialise_leaves(path, self)", "        eqx.tree_serialise_leaves(path, self, is_leaf=lambda x: False)")),
    M("C18-reader-suffix", "C18", "C18.2", (UT, "        return eqx.tree_deserialise_leaves(\n            path, eqx.filter_eval_shape", "        return eqx.tree_deserialise_leaves(\n            str(path) + \".eqx\", eqx.filter_eval_shape")),
    M("C18-reader-normalises-foreign-suffix", "C18", "C18.2", (UT, "        return eqx.tree_deserialise_leaves(\n            path, eqx.filter_eval_shape(cls, *args, **kwargs)\n        )", "        path = Path(path)\n        if path.suffix != \".eqx\":\n            path = path.with_suffix(\".eqx\")\n        return eqx.tree_deserialise_leaves(\n            path, eqx.filter_eval_shape(cls, *args, **kwargs)\n        )")),
    M("C18-reader-other-suffix", "C18", "C18.2", (UT, "        return eqx.tree_deserialise_leaves(\n            path, eqx.filter_eval_shape(cls, *args, **kwargs)\n        )", "        path = Path(path)\n        if path.suffix == \"\":\n            path = path.with_suffix(\".ckpt\")\n        return eqx.tree_deserialise_leaves(\n            path, eqx.filter_eval_shape(cls, *args, **kwargs)\n        )")),
    V("C18-v-reader-adds-eqx-to-bare", "C18", (UT, "        return eqx.tree_deserialise_leaves(\n            path, eqx.filter_eval_shape(cls, *args, **kwargs)\n        )", "        path = Path(path)\n        if path.suffix == \"\":\n            path = path.with_suffix(\".eqx\")\n        return eqx.tree_deserialise_leaves(\n            path, eqx.filter_eval_shape(cls, *args, **kwargs)\n        )")),
    V("C18-v-reader-wraps-path", "C18", (UT, "        return eqx.tree_deserialise_leaves(\n            path, eqx.filter_eval_shape(cls, *args, **kwargs)\n        )", "        path = Path(path)\n        return eqx.tree_deserialise_leaves(\n            path, eqx.filter_eval_shape(cls, *args, **kwargs)\n        )")),
    M("C18-sac-ctor-isfinite-guard", "C18", "C18.5", ("lerax/policy/sac/mlp.py", "        assert isinstance(env.action_space, Box), \"SAC requires a Box action space\"\n", "        assert isinstance(env.action_space, Box), \"SAC requires a Box action space\"\n        if not jnp.all(jnp.isfinite(env.action_space.low)):\n            raise ValueError(\"unbounded\")\n")),
    M("C18-mkdir-after-suffix-no-parents", "C18", "C18.1", (UT, "        if not path.parent.exists():\n            path.parent.mkdir(parents=True, exist_ok=True)\n", "        path.parent.mkdir(exist_ok=True)\n")),
    M("C18-mkdir-unguarded-no-exist-ok", "C18", "C18.1", (UT, "        if not path.parent.exists():\n            path.parent.mkdir(parents=True, exist_ok=True)\n", "        path.parent.mkdir(parents=True)\n")),
    V("C18-v-mkdir-unguarded", "C18", (UT, "        if not path.parent.exists():\n            path.parent.mkdir(parents=True, exist_ok=True)\n", "        path.parent.mkdir(parents=True, exist_ok=True)\n")),
    V("C18-v-sac-ctor-static-guard", "C18", ("lerax/policy/sac/mlp.py", "        assert isinstance(env.action_space, Box), \"SAC requires a Box action space\"\n", "        assert isinstance(env.action_space, Box), \"SAC requires a Box action space\"\n        if jnp.ndim(env.action_space.low) > 1:\n            raise ValueError(\"flat boxes only\")\n")),
    M("C18-policy-not-serializable", "C18", "C18.4", ("lerax/policy/base_policy.py", "    Serializable\n):", "    eqx.Module\n):")),
]

GR = "lerax/env/unitree/g1/randomize.py"
GG = "lerax/env/unitree/g1/gait.py"
GB = "lerax/env/unitree/g1/base_g1.py"
GL = "lerax/env/unitree/g1/locomotion.py"
GS = "lerax/env/unitree/g1/standing.py"
GU = "lerax/env/unitree/g1/standup.py"

ENTRIES += [
    # ---------------------------------------------------------------- C20
    M("C20-kw-misaligned", "C20", "C20.2", (GU, "            friction_loss_scale_range=self.friction_loss_scale_range,", "            friction_loss_scale_range=self.armature_scale_range,")),
    M("C20-two-fields", "C20", "C20.1", (GR, "    return model.tree_replace({\"dof_armature\": dof_armature})", "    return model.tree_replace({\"dof_armature\": dof_armature, \"dof_damping\": dof_armature})")),
    M("C20-minval-swapped", "C20", "C20.1", (GR, "    friction = jr.uniform(key, minval=friction_range[0], maxval=friction_range[1])", "    friction = jr.uniform(key, minval=friction_range[1], maxval=friction_range[1])")),
    M("C20-nominal-plus", "C20", "C20.1", (GR, "    armature = nominal_armature * scales", "    armature = nominal_armature + scales")),
    M("C20-model-forward-swapped", "C20", "C20.1", (GR, "        scale_range=armature_scale_range,\n    )", "        scale_range=friction_loss_scale_range,\n    )")),
    M("C20-same-key", "C20", "C20.1", (GR, "    model = randomize_armature(\n        model,\n        key=armature_key,", "    model = randomize_armature(\n        model,\n        key=floss_key,")),
    M("C20-mass-offset-wrong-body", "C20", "C20.1", (GR, "    body_mass = body_mass.at[torso_body_id].set(body_mass[torso_body_id] + torso_offset)", "    body_mass = body_mass.at[0].set(body_mass[torso_body_id] + torso_offset)")),
    M("C20-no-forward-after-snap", "C20", "C20.2", (GB, "        data = data.replace(qpos=qpos)\n        return mjx.forward(model, data)", "        data = data.replace(qpos=qpos)\n        return data")),
    M("C20-no-forward-before-snap", "C20", "C20.2", (GS, "        data = mjx.forward(model, data)\n        data = self._snap_to_ground(model, data)", "        data = self._snap_to_ground(model, data)")),
    M("C20-standing-nonzero-command", "C20", "C20.2", (GS, "            command=jnp.zeros(3),\n            step_count=jnp.array(0.0),", "            command=jnp.ones(3),\n            step_count=jnp.array(0.0),")),
    M("C20-base-model-kept", "C20", "C20.2", (GU, "            t=jnp.array(0.0),\n            model=model,", "            t=jnp.array(0.0),\n            model=self.base_model,")),
    M("C20-cmd-range-swapped", "C20", "C20.2", (GL, "vy_key, minval=self.lin_vel_y_range[0], maxval=self.lin_vel_y_range[1]", "vy_key, minval=self.lin_vel_x_range[0], maxval=self.lin_vel_x_range[1]")),
    M("C20-freq-from-cmd-range", "C20", "C20.2", (GL, "            minval=self.gait_frequency_range[0],\n            maxval=self.gait_frequency_range[1],", "            minval=self.gait_frequency_range[0],\n            maxval=self.lin_vel_x_range[1],")),
    M("C20-phase-no-dt", "C20", "C20.3", (GG, "    phase_increment = 2 * jnp.pi * frequency * dt", "    phase_increment = 2 * jnp.pi * frequency")),
    M("C20-phase-twice", "C20", "C20.3", (GB, "            gait_phase=new_phase,", "            gait_phase=advance_gait_phase(new_phase, state.gait_frequency, self.dt),")),
    M("C20-phase-per-foot", "C20", "C20.3", (GG, "    next_phase = phase + phase_increment", "    next_phase = phase + phase_increment * jnp.array([1.0, 2.0])")),
    M("C20-phase-nowrap-shift", "C20", "C20.3", (GG, "    return jnp.fmod(next_phase + jnp.pi, 2 * jnp.pi) - jnp.pi", "    return jnp.fmod(next_phase, 2 * jnp.pi) - jnp.pi")),
    M("C20-initial-phase-same", "C20", "C20.3", (GG, "    return jnp.array([0.0, jnp.pi])", "    return jnp.array([0.0, 0.0])")),
    M("C20-bezier-wrong", "C20", "C20.4", (GG, "        bezier = x**3 + 3 * (x**2 * (1 - x))", "        bezier = x**3 + 3 * (x * (1 - x))")),
    M("C20-frequency-drift", "C20", "C20.3", (GB, "            gait_frequency=state.gait_frequency,", "            gait_frequency=state.gait_frequency * 1.01,")),
    M("C20-step-base-model", "C20", "C20.3", (GB, "        model = state.model\n", "        model = self.base_model\n")),
    M("C20-stance-swing-swapped", "C20", "C20.4", (GG, "    return jnp.where(x <= 0.5, stance, swing)", "    return jnp.where(x <= 0.5, swing, stance)")),
    V("C20-v-phase-commute", "C20", (GG, "    phase_increment = 2 * jnp.pi * frequency * dt", "    phase_increment = dt * frequency * jnp.pi * 2")),
]

MC = "lerax/env/classic_control/mountain_car.py"
CMC = "lerax/env/classic_control/continuous_mountain_car.py"
ACR = "lerax/env/classic_control/acrobot.py"
PEN = "lerax/env/classic_control/pendulum.py"
CP = "lerax/env/classic_control/cartpole.py"
ANT = "lerax/env/mujoco/ant.py"
HOP = "lerax/env/mujoco/hopper.py"
HUM = "lerax/env/mujoco/humanoid.py"

ENTRIES += [
    # ---------------------------------------------------------------- C02
    M("C02-mc-noclip", "C02", "C02.1", (MC, "        v = jnp.clip(v, -self.max_speed, self.max_speed)\n        x = jnp.clip(x, self.min_position, self.max_position)\n        v = v * (", "        x = jnp.clip(x, self.min_position, self.max_position)\n        v = v * (")),
    M("C02-mc-space-half", "C02", "C02.1", (MC, "        self.high = jnp.array([self.max_position, self.max_speed])", "        self.high = jnp.array([self.max_position, self.max_speed / 2])")),
    M("C02-acrobot-noclip-vel", "C02", "C02.1", (ACR, "        joint_vel_2 = jnp.clip(joint_vel_2, -self.max_vel_2, self.max_vel_2)", "        joint_vel_2 = jnp.clip(joint_vel_2, -self.max_vel_1, self.max_vel_1)")),
    M("C02-pendulum-nowrap", "C02", "C02.1", (PEN, "        theta_dot = jnp.clip(theta_dot, -self.max_speed, self.max_speed)\n        return jnp.array([theta, theta_dot])", "        return jnp.array([theta, theta_dot])")),
    M("C02-cartpole-threshold-misaligned", "C02", "C02.1", (CP, "                self.x_threshold * 2,\n                jnp.inf,\n                self.theta_threshold_radians * 2,", "                self.theta_threshold_radians * 2,\n                jnp.inf,\n                self.x_threshold * 2,")),
    M("C02-acrobot-reward-bool", "C02", "C02.2", (ACR, "        return done_angle.astype(float) - 1.0", "        return done_angle")),
    M("C02-mc-reward-int", "C02", "C02.2", (MC, "        return jnp.array(-1.0)", "        return jnp.array(-1)")),
    M("C02-terminal-float", "C02", "C02.2", (PEN, "    def terminal(self, state: PendulumState, *, key: Key[Array, \"\"]) -> Bool[Array, \"\"]:\n        return jnp.array(False)", "    def terminal(self, state: PendulumState, *, key: Key[Array, \"\"]) -> Bool[Array, \"\"]:\n        return jnp.array(0.0)")),
    M("C02-module-counter", "C02", "C02.3", (MC, "class MountainCarState(", "_STEPS = []\n\n\nclass MountainCarState("), (MC, "        x, x_d = y\n        u = (action - 1) * self.force", "        _STEPS.append(1)\n        x, x_d = y\n        u = (action - 1) * self.force")),
    M("C02-time-in-reward", "C02", "C02.3", (PEN, "        theta, theta_dot = next_state.y\n        u = jnp.clip", "        import time\n        theta, theta_dot = next_state.y + 0 * time.time()\n        u = jnp.clip")),
    M("C02-attr-cache", "C02", "C02.3", (CP, "        x, theta = state.y[0], state.y[2]\n        within_x", "        x, theta = state.y[0], state.y[2]\n        object.__setattr__(self, \"_last\", x)\n        within_x")),
    M("C02-dynamic-branch", ["C02"], "C02.3", (MC, "        x, v = state.y\n        return (x >= self.goal_position) & (v >= self.goal_velocity)", "        x, v = state.y\n        if x < self.min_position:\n            return jnp.array(False)\n        return (x >= self.goal_position) & (v >= self.goal_velocity)")),
    M("C02-obs-size-no-exclude", "C02", "C02.4", (ANT, "        obs_size -= 2 if self.exclude_current_positions_from_observation else 0\n", "")),
    M("C02-obs-size-flag-swapped", "C02", "C02.4", (HUM, "        obs_size += cvel_size if self.include_cvel_in_observation else 0", "        obs_size += cvel_size if self.include_cinert_in_observation else 0")),
    M("C02-hopper-skip-2", "C02", "C02.4", (HOP, "            position = position[1:]", "            position = position[2:]")),
    V("C02-v-clip-order", "C02", (MC, "        v = jnp.clip(v, -self.max_speed, self.max_speed)\n        x = jnp.clip(x, self.min_position, self.max_position)", "        x = jnp.clip(x, self.min_position, self.max_position)\n        v = jnp.clip(v, -self.max_speed, self.max_speed)")),
]

ENTRIES += [
    # ---------------------------------------------------------------- C11
    M("C11-time-key", "C11", ["C11.1", "C11.2"], (ONP, "        step_key, callback_key = jr.split(key, 2)\n\n        if self.num_envs == 1:\n            step_state = AbstractOnPolicyStepState.initial(", "        import time\n        step_key, callback_key = jr.split(jr.key(int(time.time())), 2)\n\n        if self.num_envs == 1:\n            step_state = AbstractOnPolicyStepState.initial(")),
    M("C11-constant-key-step", "C11", ["C11.1", "C11.2"], (ONP, "        next_env_state = env.transition(\n            state.env_state, clipped_action, key=transition_key\n        )", "        next_env_state = env.transition(\n            state.env_state, clipped_action, key=jr.key(0)\n        )")),
    M("C11-callback-into-env-state", "C11", "C11.3", (ONP, "            AbstractOnPolicyStepState(\n                next_env_state, next_policy_state, callback_state\n            ),", "            AbstractOnPolicyStepState(\n                jax.tree.map(lambda x: x + 0 * callback_state.step, next_env_state), next_policy_state, callback_state\n            ),"), (ONP, "import equinox as eqx\n", "import equinox as eqx\nimport jax\n")),
    M("C11-callback-gates-reward", "C11", "C11.3", (OFP, "        replay_buffer = state.buffer.add(\n            observation,\n            next_observation,\n            action,\n            reward,", "        replay_buffer = state.buffer.add(\n            observation,\n            next_observation,\n            action,\n            reward + 0.0 * callback.on_step(StepContext(state.callback_state, env, policy, done, reward, locals()), key=callback_key).step,")),
    M("C11-split-depends-on-callback", "C11", "C11.3", (BA, "        callback_start_key, reset_key, learn_key, callback_end_key = jr.split(key, 4)\n\n        callback = self.consolidate_callbacks(callback)", "        callback = self.consolidate_callbacks(callback)\n        callback_start_key, reset_key, learn_key, callback_end_key = jr.split(key, 4 + len(callback.callbacks))[:4]\n")),
    M("C11-policy-dict-mutation", "C11", "C11.4", (BA, "        callback = self.consolidate_callbacks(callback)\n        state = self.reset(", "        callback = self.consolidate_callbacks(callback)\n        policy.__dict__[\"trained\"] = True\n        state = self.reset(")),
    M("C11-policy-setattr", "C11", ["C11.4", "C11.1"], (DQN, "        batch = buffer.sample(self.batch_size, key=key)\n\n        loss, grads = self.dqn_loss_grad(", "        object.__setattr__(target_policy, \"epsilon\", 0.0)\n        batch = buffer.sample(self.batch_size, key=key)\n\n        loss, grads = self.dqn_loss_grad(")),
    M("C11-numpy-random-buffer", "C11", "C11.1", (RPB, "        batch_indices = jr.choice(\n            key,\n            total,", "        import numpy as np\n        batch_indices = jr.choice(\n            jr.key(np.random.randint(0, 2**31)),\n            total,")),
    M("C11-learn-returns-input", "C11", ["C11.4", "C11.3"], (BA, "        return state.policy\n", "        return policy\n")),
    M("C11-iteration-callback-policy", "C11", "C11.3", (ONP, "        state = state.next(step_state, policy, opt_state)\n\n        state = state.with_callback_states(\n            callback.on_iteration(", "        state = state.next(step_state, policy, opt_state)\n        state = eqx.tree_at(lambda s: s.iteration_count, state, state.iteration_count + 0 * callback.continue_training(None, key=callback_key))\n\n        state = state.with_callback_states(\n            callback.on_iteration(")),
    # ---------------------------------------------------------------- C12
    M("C12-dynamic-branch", ["C12"], "C12.1", (MC, "        x, v = y\n        v = jnp.clip(v, -self.max_speed, self.max_speed)", "        x, v = y\n        if v > self.max_speed:\n            v = self.max_speed\n        v = jnp.clip(v, -self.max_speed, self.max_speed)")),
    M("C12-state-broadcast", "C12", "C12.2", (ONP, "                self.collect_rollout, in_axes=(None, None, eqx.if_array(0), None, 0)", "                self.collect_rollout, in_axes=(None, None, None, None, 0)")),
    M("C12-one-key-for-all", "C12", "C12.2", (OFP, "                self.collect_rollout, in_axes=(None, None, eqx.if_array(0), None, 0)\n            )(\n                state.env,\n                state.policy,\n                state.step_state,\n                callback,\n                jr.split(rollout_key, self.num_envs),", "                self.collect_rollout, in_axes=(None, None, eqx.if_array(0), None, None)\n            )(\n                state.env,\n                state.policy,\n                state.step_state,\n                callback,\n                rollout_key,")),
    M("C12-keys-wrong-count", "C12", "C12.2", (DQN, "                jr.split(rollout_key, self.num_envs),", "                jr.split(rollout_key, self.num_steps),")),
    M("C12-pmean-advantages", "C12", "C12.3", (RB, "        returns = advantages + self.values\n", "        advantages = advantages - lax.pmean(advantages, axis_name=\"env\")\n        returns = advantages + self.values\n")),
    M("C12-warmup-state-broadcast", "C12", "C12.2", (OFP, "                self.collect_learning_starts, in_axes=(None, None, 0, None, 0)", "                self.collect_learning_starts, in_axes=(None, None, None, None, 0)")),
]

HUS = "lerax/env/mujoco/humanoid_standup.py"
IDP = "lerax/env/mujoco/inverted_double_pendulum.py"
PUS = "lerax/env/mujoco/pusher.py"
REA = "lerax/env/mujoco/reacher.py"
WAL = "lerax/env/mujoco/walker2d.py"
HCH = "lerax/env/mujoco/half_cheetah.py"
SWI = "lerax/env/mujoco/swimmer.py"

ENTRIES += [
    # ---------------------------------------------------------------- C17
    M("C17-asset-hopper-timestep", "C17", "C17.14", ("lerax/env/mujoco/assets/hopper.xml", '<option integrator="RK4" timestep="0.002"/>', '<option integrator="RK4" timestep="0.004"/>')),
    M("C17-asset-hopper-gear", "C17", "C17.14", ("lerax/env/mujoco/assets/hopper.xml", 'gear="200.0" joint="leg_joint"', 'gear="150.0" joint="leg_joint"')),
    M("C17-asset-humanoid-gear", "C17", "C17.14", ("lerax/env/mujoco/assets/humanoid.xml", '<motor gear="100" joint="abdomen_z" name="abdomen_z"/>', '<motor gear="40" joint="abdomen_z" name="abdomen_z"/>')),
    M("C17-asset-ip-ctrlrange", "C17", "C17.14", ("lerax/env/mujoco/assets/inverted_pendulum.xml", 'ctrlrange="-3 3" gear="100" joint="slider"', 'ctrlrange="-1 1" gear="100" joint="slider"')),
    M("C02-idp-size-literal", "C02", "C02.4", ("lerax/env/mujoco/inverted_double_pendulum.py", "        obs_size = 9\n", "        obs_size = 11\n")),
    M("C02-reacher-size-literal", "C02", "C02.4", ("lerax/env/mujoco/reacher.py", "        obs_size = 10\n", "        obs_size = 11\n")),
    V("C17-v-asset-solver", "C17", ("lerax/env/mujoco/assets/humanoid.xml", 'solver="Newton"', 'solver="CG"')),
    V("C17-v-asset-number-format", "C17", ("lerax/env/mujoco/assets/hopper.xml", '<option integrator="RK4" timestep="0.002"/>', '<!-- integration -->\n  <option timestep="2e-3" integrator="RK4" />')),
    M("C17-default-ctrl-cost", "C17", "C17.7", (ANT, "        ctrl_cost_weight: float = 0.5,", "        ctrl_cost_weight: float = 0.05,")),
    M("C17-default-healthy-z", "C17", "C17.7", (WAL, "healthy_z_range: tuple[float, float] = (0.8, 2.0)", "healthy_z_range: tuple[float, float] = (0.7, 2.0)")),
    M("C17-cmc-goal", "C17", "C17.1", (CMC, "        goal_position: Float[ArrayLike, \"\"] = 0.45,", "        goal_position: Float[ArrayLike, \"\"] = 0.5,")),
    M("C17-cartpole-gravity", "C17", "C17.1", (CP, "        gravity: Float[ArrayLike, \"\"] = 9.8,", "        gravity: Float[ArrayLike, \"\"] = 9.81,")),
    M("C17-mc-terminal-strict", "C17", "C17.2", (MC, "        return (x >= self.goal_position) & (v >= self.goal_velocity)", "        return (x > self.goal_position) & (v >= self.goal_velocity)")),
    M("C17-cartpole-terminal-one-sided", "C17", "C17.2", (CP, "        within_x = (x >= -self.x_threshold) & (x <= self.x_threshold)", "        within_x = x <= self.x_threshold")),
    M("C17-acrobot-terminal-threshold", "C17", ["C17.2", "C17.3"], (ACR, "            -jnp.cos(joint_angle_1) - jnp.cos(joint_angle_1 + joint_angle_2) > 1.0\n        )\n        return done_angle\n", "            -jnp.cos(joint_angle_1) - jnp.cos(joint_angle_1 + joint_angle_2) > 0.9\n        )\n        return done_angle\n")),
    M("C17-cmc-reward-prestate", "C17", "C17.3", (CMC, "            100.0 * self.terminal(next_state, key=key).astype(float)", "            100.0 * self.terminal(state, key=key).astype(float)")),
    M("C17-cmc-reward-scale", "C17", "C17.3", (CMC, "            100.0 * self.terminal(next_state, key=key).astype(float)", "            10.0 * self.terminal(next_state, key=key).astype(float)")),
    M("C17-acrobot-reward-prestate", "C17", "C17.3", (ACR, "        joint_angle_1, joint_angle_2 = next_state.y[0], next_state.y[1]", "        joint_angle_1, joint_angle_2 = state.y[0], state.y[1]")),
    M("C17-cmc-no-wall", "C17", "C17.4", (CMC, "        v = v * ((x != self.min_position) | (v > 0.0))\n", "")),
    M("C17-mc-wall-wrong-side", "C17", "C17.4", (MC, "(x != self.min_position) | (v > 0.0)", "(x != self.max_position) | (v > 0.0)")),
    M("C17-mc-initial-range", "C17", "C17.5", (MC, "jr.uniform(key, minval=-0.6, maxval=-0.4)", "jr.uniform(key, minval=-0.6, maxval=-0.5)")),
    M("C17-hopper-qvel-normal", "C17", "C17.8", (HOP, "        qvel = self.init_qvel + jr.uniform(\n            qvel_key, shape=self.init_qvel.shape, minval=noise_low, maxval=noise_high\n        )", "        qvel = self.init_qvel + self.reset_noise_scale * jr.normal(\n            qvel_key, shape=self.init_qvel.shape\n        )")),
    M("C17-no-forward", "C17", "C17.9", (ANT, "        data = mjx.forward(self.model, data)\n", "")),
    M("C17-forward-before-replace", "C17", "C17.9", (REA, "        data = data.replace(qpos=qpos, qvel=qvel)\n        data = mjx.forward(self.model, data)\n", "        data = mjx.forward(self.model, data)\n        data = data.replace(qpos=qpos, qvel=qvel)\n")),
    M("C17-walker-obs-noclip", "C17", "C17.10", (WAL, "        velocity = jnp.clip(data.qvel.reshape(-1), -10.0, 10.0)", "        velocity = data.qvel.reshape(-1)")),
    M("C17-hopper-obs-skip2", ["C17", "C02"], ["C17.10", "C02.4"], (HOP, "            position = position[1:]", "            position = position[2:]")),
    M("C17-humanoid-obs-order", "C17", "C17.10", (HUM, "                com_inertia,\n                com_velocity,\n                actuator_forces,", "                com_velocity,\n                com_inertia,\n                actuator_forces,")),
    M("C17-ant-plus-ctrl", "C17", ["C17.11", "C17.13"], (ANT, "        return forward_reward + healthy_reward - ctrl_cost - contact_cost\n", "        return forward_reward + healthy_reward + ctrl_cost - contact_cost\n")),
    M("C17-ant-info-ctrl-sign", "C17", ["C17.11", "C17.13"], (ANT, "            \"reward_ctrl\": -ctrl_cost,", "            \"reward_ctrl\": ctrl_cost,")),
    M("C17-humanoid-clip-before-weight", "C17", "C17.11", (HUM, "        return jnp.clip(self.contact_cost_weight * raw_cost, min_cost, max_cost)", "        return self.contact_cost_weight * jnp.clip(raw_cost, min_cost, max_cost)")),
    M("C17-standup-dt", "C17", "C17.11", (HUS, "    ) -> dict:\n        data = next_state.sim_state\n\n        uph_cost = self.uph_cost_weight * (data.qpos[2] / self.model.opt.timestep)", "    ) -> dict:\n        data = next_state.sim_state\n\n        uph_cost = self.uph_cost_weight * (data.qpos[2] / self.dt)")),
    M("C17-halfcheetah-velocity-nodt", "C17", "C17.11", (HCH, "    ) -> dict:\n        x_before = state.sim_state.qpos[0]\n        x_after = next_state.sim_state.qpos[0]\n        x_velocity = (x_after - x_before) / self.dt", "    ) -> dict:\n        x_before = state.sim_state.qpos[0]\n        x_after = next_state.sim_state.qpos[0]\n        x_velocity = (x_after - x_before)")),
    M("C17-pusher-xipos", "C17", "C17.12", (PUS, "        tips_arm = data.xpos[self.tips_arm_body_id]\n        obj = data.xpos[self.object_body_id]\n        goal = data.xpos[self.goal_body_id]\n\n        return jnp.concatenate(", "        tips_arm = data.xipos[self.tips_arm_body_id]\n        obj = data.xpos[self.object_body_id]\n        goal = data.xpos[self.goal_body_id]\n\n        return jnp.concatenate(")),
    M("C17-idp-info-keys", "C17", "C17.13", (IDP, "            \"reward_survive\": (y > 1).astype(float) * self.healthy_reward,", "            \"alive_bonus\": (y > 1).astype(float) * self.healthy_reward,")),
    M("C17-reward-info-disagree", "C17", ["C17.13", "C17.11"], (SWI, "        forward_reward = self.forward_reward_weight * x_velocity\n        ctrl_cost = self.ctrl_cost_weight * jnp.sum(jnp.square(action))\n\n        return forward_reward - ctrl_cost", "        forward_reward = 2 * self.forward_reward_weight * x_velocity\n        ctrl_cost = self.ctrl_cost_weight * jnp.sum(jnp.square(action))\n\n        return forward_reward - ctrl_cost"), stale_ok=True),
    M("C17-walker-healthy-nonstrict", "C17", "C17.11", (WAL, "        healthy_z = (z > min_z) & (z < max_z)", "        healthy_z = (z >= min_z) & (z < max_z)"), stale_ok=True),
    V("C17-v-mc-terminal-order", "C17", (MC, "        return (x >= self.goal_position) & (v >= self.goal_velocity)", "        return (self.goal_velocity <= v) & (self.goal_position <= x)")),
    V("C17-v-cmc-wall-where", "C17", (CMC, "        v = v * ((x != self.min_position) | (v > 0.0))\n", "        v = jnp.where((x == self.min_position) & (v < 0.0), 0.0, v)\n")),
]

ENTRIES += [
    # ---------------------------------------------------------------- C17.6 (thorough tier)
    M("C17-cartpole-theta-denominator", "C17", "C17.6", (CP, "            * (4.0 / 3.0 - self.pole_mass * (jnp.cos(theta) ** 2) / self.total_mass)", "            * (4.0 / 3.0 - self.pole_mass * jnp.cos(theta) / self.total_mass)"), tier="thorough", stale_ok=True),
    M("C17-cartpole-force-sign", "C17", "C17.6", (CP, "        force = (action * 2 - 1) * self.force_mag", "        force = (1 - action * 2) * self.force_mag"), tier="thorough"),
    M("C17-mc-gravity-sign", "C17", "C17.6", (MC, "        x_dd = u - self.gravity * jnp.cos(3.0 * x)", "        x_dd = u + self.gravity * jnp.cos(3.0 * x)"), tier="thorough"),
    M("C17-cmc-hill-frequency", "C17", "C17.6", (CMC, "        x_dd = self.power * a - 0.0025 * jnp.cos(3.0 * x)", "        x_dd = self.power * a - 0.0025 * jnp.cos(2.0 * x)"), tier="thorough"),
    M("C17-acrobot-nips", "C17", "C17.6", (ACR, "            + d2 / d1 * phi1\n            - self.link_mass_2\n            * self.link_length_1\n            * self.link_com_pos_2\n            * theta1_d**2\n            * jnp.sin(theta2)\n            - phi2", "            + d2 / d1 * phi1\n            - phi2"), tier="thorough", stale_ok=True),
]

GX = "lerax/compatibility/gymnax.py"
GY = "lerax/compatibility/gym.py"
ACT = "lerax/policy/actor.py"
DSP = "lerax/space/dict.py"
MBS = "lerax/space/multi_binary.py"
QML = "lerax/policy/q/mlp.py"
ENTRIES += [
    # ---------------------------------------------------------------- rules prompted by the seventh seeding round, with passing twins
    M("S7-gymnax-done-truncation-only", ["C01", "C07", "C13"], ["C01.8", "C07.9", "C13.9"], (GX, "        done = termination | truncation\n        return (\n            observation,", "        done = truncation\n        return (\n            observation,")),
    V("S7-v-gymnax-done-logical-or", ["C01", "C07", "C13"], (GX, "        done = termination | truncation\n        return (\n            observation,", "        done = jnp.logical_or(truncation, termination)\n        return (\n            observation,")),
    M("S7-gym-adapter-term-absorbs-trunc", ["C07", "C13"], ["C07.9", "C13.7"], (GY, "                jnp.asarray(terminated, dtype=bool),\n                jnp.asarray(truncated, dtype=bool),\n            )\n\n        observation, reward, terminated, truncated = io_callback(", "                jnp.asarray(terminated or truncated, dtype=bool),\n                jnp.asarray(truncated, dtype=bool),\n            )\n\n        observation, reward, terminated, truncated = io_callback(")),
    M("S7-box-head-int-of-array-param", "C18", "C18.5", (ACT, "        if action_space.shape:\n            self.scalar = False", "        if int(log_std_init) > 0:\n            raise ValueError(\"log_std_init too large\")\n        if action_space.shape:\n            self.scalar = False")),
    V("S7-v-box-head-reads-param-metadata", "C18", (ACT, "        if action_space.shape:\n            self.scalar = False", "        if jnp.ndim(log_std_init) > 1 or not isinstance(log_std_init, (int, float, jnp.ndarray)):\n            raise ValueError(\"log_std_init must be a scalar\")\n        if action_space.shape:\n            self.scalar = False")),
    M("S7-multibinary-flat-size-forces-array", "C18", "C18.5", (MBS, "        return reduce(operator.mul, self.n, 1)", "        return int(jnp.prod(jnp.asarray(self.n)))")),
    V("S7-v-multibinary-flat-size-math-prod", ["C18", "C14"], (MBS, "        return reduce(operator.mul, self.n, 1)", "        return math.prod(self.n)"), (MBS, "import operator\n", "import math\nimport operator\n")),
    M("S7-dict-flatten-over-key-set", ["C11", "C14"], ["C11.1", "C14.8"], (DSP, "        parts = [\n            space.flatten_sample(sample[key]) for key, space in self.spaces.items()\n        ]", "        shared = self.spaces.keys() & sample.keys()\n        parts = [self.spaces[key].flatten_sample(sample[key]) for key in shared]")),
    M("S7-dict-flatten-materialised-set", "C11", "C11.1", (DSP, "        parts = [\n            space.flatten_sample(sample[key]) for key, space in self.spaces.items()\n        ]", "        names = list(set(self.spaces))\n        parts = [self.spaces[key].flatten_sample(sample[key]) for key in names]")),
    V("S7-v-dict-flatten-checks-key-set", ["C11", "C14"], (DSP, "        parts = [\n            space.flatten_sample(sample[key]) for key, space in self.spaces.items()\n        ]", "        missing = self.spaces.keys() - sample.keys()\n        if missing:\n            raise KeyError(sorted(missing))\n        parts = [\n            space.flatten_sample(sample[key]) for key, space in self.spaces.items()\n        ]")),
    M("S7-qpolicy-epsilon-or-default", "C16", "C16.7", (QML, "        self.epsilon = epsilon", "        self.epsilon = epsilon or 0.1")),
]

ENTRIES += [
    # ---------------------------------------------------------------- C02.7 the reset state's observation lies inside the declared space (default configuration)
    M("C02-pendulum-initial-speed-beyond-bound", "C02", "C02.7", (PEN, "        high = jnp.array([jnp.pi, 1.0])\n        state = jr.uniform(", "        high = jnp.array([jnp.pi, 10.0])\n        state = jr.uniform(")),
    V("C02-v-pendulum-initial-speed-within-bound", "C02", (PEN, "        high = jnp.array([jnp.pi, 1.0])\n        state = jr.uniform(", "        high = jnp.array([jnp.pi, 2.0])\n        state = jr.uniform(")),
    M("C02-mountain-car-initial-left-of-track", "C02", "C02.7", (MC, "minval=-0.6, maxval=-0.4", "minval=-1.6, maxval=-0.4")),
    M("C02-acrobot-initial-velocity-range", "C02", "C02.7", (ACR, "minval=-0.1, maxval=0.1", "minval=-0.1, maxval=50.0")),
    V("C02-v-acrobot-initial-positional-shape", "C02", (ACR, "y=jr.uniform(key, shape=(4,), minval=-0.1, maxval=0.1)", "y=jr.uniform(key, (4,), minval=-0.1, maxval=0.1)")),
]

ENTRIES += [
    # ---------------------------------------------------------------- broken twins of the fourth behaviour-preserving round: each is an archived
    # refactor (silent) plus one slip in the restyled code (must be caught)
    M("R4-gae-attrgetter-targets-crossed", "C03", "C03", (RB, 'attrgetter("returns", "advantages"), self, (returns, advantages)', 'attrgetter("advantages", "returns"), self, (returns, advantages)'), base="C03-ref11"),
    M("R4-replay-add-attrgetter-values-shifted", ["C05", "C06", "C07"], ["C05", "C06", "C07"], (RPB, '            "actions",\n            "rewards",\n            "dones",\n            "timeouts",\n        ]', '            "actions",\n            "dones",\n            "rewards",\n            "timeouts",\n        ]'), base="C11-ref12"),
    M("R4-action-layer-table-unmaskable-head", "C16", "C16.3", (PA, "        MultiDiscrete: MultiDiscreteAction,\n", "        MultiDiscrete: partial(BoxAction, log_std_init=log_std_init),\n"), base="C16-ref12"),
    M("R4-action-layer-table-entry-missing", "C16", "C16.3", (PA, "        MultiBinary: MultiBinaryAction,\n", ""), base="C16-ref12"),
    M("R4-dict-flatten-helper-sample-order", "C14", "C14.8", ("lerax/space/dict.py", "in_space_order = (sample[key] for key in self.spaces)", "in_space_order = (sample[key] for key in sample)"), base="C18-ref12"),
    M("R4-array-space-flat-size-rank", "C14", "C14.8", ("lerax/space/base_space.py", "math.prod(self.shape)", "len(self.shape)"), base="C14-ref10"),
    M("R4-gym-callback-record-flags-crossed", ["C07", "C13"], ["C07.9", "C13.7"], ("lerax/compatibility/gym.py", "                terminal=jnp.asarray(terminated, dtype=bool),\n                truncated=jnp.asarray(truncated, dtype=bool),", "                terminal=jnp.asarray(truncated, dtype=bool),\n                truncated=jnp.asarray(terminated, dtype=bool),"), base="C01-ref12"),
    M("R4-flat-batch-indices-one-axis", "C09", "C09", ("lerax/buffer/base_buffer.py", "        flat_self = self.flatten_axes(batch_axes)\n        return flat_self, flat_self.batch_indices(batch_size, key=key)", "        flat_self = self.flatten_axes(0)\n        return flat_self, flat_self.batch_indices(batch_size, key=key)"), base="C09-ref10"),
    M("R4-train-carry-fields-crossed", "C09", "C09.4", (PPO, "        policy, opt_state, stats = self.train_batch(*carry, batch)\n        return TrainCarry(policy, opt_state), stats", "        policy, opt_state, stats = self.train_batch(*carry, batch)\n        return TrainCarry(opt_state, policy), stats"), base="C09-ref12"),
    M("R4-polyak-map-arguments-crossed", "C10", "C10.5", (SAC, "tuple(map(partial(_polyak_average, tau), online, targets))", "tuple(map(partial(_polyak_average, tau), targets, online))"), base="C10-ref12"),
    M("R4-sac-result-fields-declared-in-other-order", "C10", "C10.6", (SAC, "    qf1: SoftQNetwork\n    qf2: SoftQNetwork\n    q_opt_state: optax.OptState\n    log_alpha: Float[Array, \"\"]\n    alpha_opt_state: optax.OptState", "    qf1: SoftQNetwork\n    qf2: SoftQNetwork\n    q_opt_state: optax.OptState\n    alpha_opt_state: optax.OptState\n    log_alpha: Float[Array, \"\"]"), base="C10-ref11"),
    M("R4-humanoid-size-table-block-dropped", "C02", "C02.4", ("lerax/env/mujoco/humanoid.py", "            (self.include_cvel_in_observation, cvel_size),\n", ""), base="C17-ref12"),
    M("R4-while-carry-returns-key", "C19", "C19.5", ("lerax/benchmark/__init__.py", "    return carry.cumulative_reward", "    return carry.key"), base="C19-ref12"),
    M("R4-command-axes-ranges-crossed", "C20", "C20.2", ("lerax/env/unitree/g1/locomotion.py", "            self.lin_vel_y_range,\n            self.ang_vel_yaw_range,\n        )", "            self.ang_vel_yaw_range,\n            self.lin_vel_y_range,\n        )"), base="C20-ref12"),
]

BM = "lerax/benchmark/__init__.py"
BCC = "lerax/env/classic_control/base_classic_control.py"
WTR = "lerax/wrapper/transform_reward.py"
BB = "lerax/buffer/base_buffer.py"
ENTRIES += [
    # ---------------------------------------------------------------- rules prompted by the eighth seeding round, with passing twins
    M("S8-eval-cap-truthiness", ["C19", "C12"], ["C19.5", "C12.2"], (BM, "        if max_steps is None:\n            return rollout_while(", "        if not max_steps:\n            return rollout_while(")),
    V("S8-v-eval-cap-branches-swapped", ["C19", "C12"], (BM, "        if max_steps is None:\n            return rollout_while(env, policy, key=key, deterministic=deterministic)\n        else:\n            return rollout_scan(\n                env, policy, key=key, deterministic=deterministic, max_steps=max_steps\n            )",
      "        if max_steps is not None:\n            return rollout_scan(\n                env, policy, key=key, deterministic=deterministic, max_steps=max_steps\n            )\n        return rollout_while(env, policy, key=key, deterministic=deterministic)")),
    M("S8-iteration-context-count-before-increment", "C19", "C19.8", (ONP, "                    state.iteration_count,\n                    state.opt_state,\n                    log,", "                    state.iteration_count - 1,\n                    state.opt_state,\n                    log,")),
    M("S8-reinforce-post-collect-zero-bootstrap", "C03", "C03.6", (RF, "    def per_step(", "    def post_collect(self, env, policy, step_state, buffer, *, key):\n        return buffer.compute_returns_and_advantages(0.0, self.gae_lambda, self.gamma)\n\n    def per_step(")),
    V("S8-v-reinforce-post-collect-own-copy", "C03", (RF, "    def per_step(", "    def post_collect(self, env, policy, step_state, buffer, *, key):\n        last_obs = env.observation(step_state.env_state, key=key)\n        bootstrap = policy.value(step_state.policy_state, last_obs)[1]\n        return buffer.compute_returns_and_advantages(bootstrap, self.gae_lambda, self.gamma)\n\n    def per_step(")),
    M("S8-estimator-rebuild-forgets-masks", ["C03", "C04"], ["C03.4", "C04.13"], (RB, "        return eqx.tree_at(\n            lambda x: (x.returns, x.advantages), self, (returns, advantages)\n        )", "        return type(self)(\n            observations=self.observations,\n            actions=self.actions,\n            rewards=self.rewards,\n            dones=self.dones,\n            log_probs=self.log_probs,\n            values=self.values,\n            states=self.states,\n            returns=returns,\n            advantages=advantages,\n        )")),
    V("S8-v-estimator-rebuild-complete", ["C03", "C04", "C08", "C09"], (RB, "        return eqx.tree_at(\n            lambda x: (x.returns, x.advantages), self, (returns, advantages)\n        )", "        return type(self)(\n            observations=self.observations,\n            actions=self.actions,\n            rewards=self.rewards,\n            dones=self.dones,\n            log_probs=self.log_probs,\n            values=self.values,\n            states=self.states,\n            returns=returns,\n            advantages=advantages,\n            action_masks=self.action_masks,\n        )")),
    M("S8-dqn-iteration-through-train-hook", "C07", "C07.4", (DQN, "        policy, opt_state, log = self.dqn_train(\n            state.policy,\n            state.opt_state,\n            step_state.buffer,\n            state.target_policy,  # type: ignore[attr-defined]\n            key=train_key,\n        )", "        policy, opt_state, log = self.train(\n            state.policy, state.opt_state, step_state.buffer, key=train_key\n        )")),
    M("S8-clip-reward-falsy-bounds", ["C01", "C13", "C02"], ["C01.9", "C13.5", "C02.5"], (WTR, "        self.min = jnp.asarray(min)\n        self.max = jnp.asarray(max)", "        self.min = jnp.asarray(min or -jnp.inf)\n        self.max = jnp.asarray(max or jnp.inf)")),
    V("S8-v-clip-reward-float-bounds", ["C01", "C13", "C02"], (WTR, "        self.min = jnp.asarray(min)\n        self.max = jnp.asarray(max)", "        self.min = jnp.asarray(min, dtype=float)\n        self.max = jnp.asarray(max, dtype=float)")),
    M("S8-gym-reset-seed-truthiness", ["C12", "C13", "C07"], ["C12.7", "C13.7", "C07.9"], (GY, "        if seed is not None:\n            self.key = jr.key(int(seed))", "        if seed:\n            self.key = jr.key(int(seed))")),
    M("S8-solver-step-limit", ["C02", "C17"], ["C02.8", "C17.17"], (BCC, "            saveat=saveat,\n            stepsize_controller=self.stepsize_controller,\n        )", "            saveat=saveat,\n            stepsize_controller=self.stepsize_controller,\n            max_steps=16,\n        )")),
    M("S8-flatten-skips-by-dtype", ["C09", "C06", "C12"], ["C09.3", "C06.4", "C12.6"], (BB, "            if not isinstance(x, jnp.ndarray):\n                return x\n\n            if x.ndim <= max_axis:", "            if not isinstance(x, jnp.ndarray) or x.dtype == jnp.uint8:\n                return x\n\n            if x.ndim <= max_axis:")),
    V("S8-v-flatten-guards-merged", ["C09", "C06", "C12"], (BB, "            if not isinstance(x, jnp.ndarray):\n                return x\n\n            if x.ndim <= max_axis:\n                return x", "            if not isinstance(x, jnp.ndarray) or x.ndim <= max_axis:\n                return x")),
    M("S8-offpolicy-restart-second-terminal-draw", "C05", "C05.3", (OFP, "        next_env_state = lax.cond(\n            done, lambda: env.initial(key=env_reset_key), lambda: next_env_state\n        )", "        next_env_state = lax.cond(\n            env.terminal(next_env_state, key=env_reset_key) | truncation,\n            lambda: env.initial(key=env_reset_key),\n            lambda: next_env_state,\n        )")),
]

ENTRIES += [
    # ---------------------------------------------------------------- C14.11 foreign inputs are rejected, not raised on
    M("C14-try-cast-typeerror-only", "C14", "C14.11", ("lerax/space/utils.py", "    except (TypeError, ValueError, OverflowError):", "    except TypeError:")),
    V("C14-v-try-cast-catches-exception", "C14", ("lerax/space/utils.py", "    except (TypeError, ValueError, OverflowError):", "    except Exception:")),
    M("R6-dict-contains-merged-guard-loses-type-test", "C14", "C14.3", ("lerax/space/dict.py", "        if not isinstance(x, OrderedDict) or self.spaces.keys() != x.keys():", "        if self.spaces.keys() != getattr(x, \"keys\", dict)():"), base="C14-ref14"),
    M("C14-try-cast-numbers-only", "C14", "C14.11", ("lerax/space/utils.py", "    try:\n        return jnp.asarray(x)\n", "    try:\n        x = jnp.asarray(x)\n        if not jnp.issubdtype(x.dtype, jnp.number):\n            return None\n        return x\n")),
    M("C14-discrete-contains-looks-before-cast", "C14", "C14.11", ("lerax/space/discrete.py", "        x = try_cast(x)\n        if x is None:\n            return jnp.array(False)\n\n        if x.ndim != 0:", "        if getattr(x, \"ndim\", 0) != 0:\n            return jnp.array(False)\n        x = try_cast(x)\n        if x is None:\n            return jnp.array(False)\n\n        if x.ndim != 0:")),
]

ENTRIES += [
    # ---------------------------------------------------------------- fifth behaviour-preserving round: broken twins of its three generalisations,
    # and mutants / twins of the rules prompted by the ninth seeding round
    M("R5-mask-map-components-reversed", ["C15", "C16"], ["C15.6", "C16.1"], (DMC, "map(categorical_mask_logits, self.distribution, mask_pieces)", "map(categorical_mask_logits, reversed(self.distribution), mask_pieces)"), base="C04-ref14"),
    M("R5-executed-action-bounds-crossed", ["C04", "C05"], ["C04", "C05"], ("lerax/algorithm/base_algorithm.py", "        case Box(low=low, high=high):\n            return jnp.clip(action, low, high)", "        case Box(low=high, high=low):\n            return jnp.clip(action, low, high)"), base="C05-ref14"),
    M("R5-env-buffer-size-by-steps", "C05", "C05.5", (OFP, "        return self.buffer_size // self.num_envs", "        return self.buffer_size // self.num_steps"), base="C05-ref15"),
    M("S9-sample-leaf-guard-by-shape", ["C06", "C12"], ["C06.3", "C12.6"], (RPB, "            if not isinstance(x, jnp.ndarray) or x.ndim == 0:\n                return x\n            return jnp.take(x, batch_indices, axis=0)", "            if not isinstance(x, jnp.ndarray) or x.shape == self.position.shape:\n                return x\n            return jnp.take(x, batch_indices, axis=0)")),
    V("S9-v-sample-leaf-guard-rank-below-one", ["C06", "C12"], (RPB, "            if not isinstance(x, jnp.ndarray) or x.ndim == 0:\n                return x\n            return jnp.take(x, batch_indices, axis=0)", "            if not isinstance(x, jnp.ndarray) or x.ndim < 1:\n                return x\n            return jnp.take(x, batch_indices, axis=0)")),
    M("S9-gym-adapter-step-key-not-stored", ["C13", "C01", "C12"], ["C13.7", "C01.8", "C12.7"], (GY, "        self.key, step_key = jr.split(self.key)\n", "        _, step_key = jr.split(self.key)\n")),
]

WUT = "lerax/wrapper/utils.py"
ENTRIES += [
    # ---------------------------------------------------------------- defect 27 (infinite bounds in rescale_box) and the rules prompted by the tenth seeding round
    M("D27-rescale-infinite-guard-removed", ["C13", "C02"], ["C13.5", "C02.5"], (WUT, "    assert jnp.all((min == box.low)[jnp.isinf(min) | jnp.isinf(box.low)])\n", "")),
    V("D27-v-rescale-infinite-guard-where-form", ["C13", "C02"], (WUT, "    assert jnp.all((max == box.high)[jnp.isinf(max) | jnp.isinf(box.high)])\n", "    assert jnp.all(jnp.where(jnp.isinf(max) | jnp.isinf(box.high), max == box.high, True))\n")),
    M("S10-gae-gamma-pinned-float32", "C03", "C03.10", (RB, "        gamma = jnp.asarray(gamma)\n", "        gamma = jnp.asarray(gamma, dtype=jnp.float32)\n")),
    M("S10-ppo-single-batch-shortcut", "C09", "C09.4", (PPO, "        def batch_scan(", "        if indices.shape[0] == 1:\n            return self.train_batch(policy, opt_state, flat_buffer)\n\n        def batch_scan(")),
    V("S10-v-categorical-mask-inverted-select", ["C16", "C15"], ("lerax/distribution/categorical.py", "        masked_logits = jnp.where(mask, self.logits, -jnp.inf)", "        masked_logits = jnp.where(~jnp.asarray(mask), -jnp.inf, self.logits)")),
    M("S10-offpolicy-reward-after-reset", ["C19", "C05"], ["C19.3", "C05"], (OFP, "        next_env_state = lax.cond(\n            done, lambda: env.initial(key=env_reset_key), lambda: next_env_state\n        )", "        next_env_state = lax.cond(\n            done, lambda: env.initial(key=env_reset_key), lambda: next_env_state\n        )\n        reward = env.reward(state.env_state, clipped_action, next_env_state, key=reward_key)")),
]

ENTRIES += [
    # ---------------------------------------------------------------- rules prompted by the twelfth seeding round
    M("S12-eval-while-stale-policy-state", "C19", "C19.5", ("lerax/benchmark/__init__.py", "            next_env_state,\n            next_policy_state,\n            carry_key,\n            cumulative_reward + reward,", "            next_env_state,\n            policy_state,\n            carry_key,\n            cumulative_reward + reward,")),
    M("S12-rollout-row-post-step-policy-state", ["C09", "C04", "C08"], ["C09.5", "C04.7", "C08.8"], (ONP, "                states=state.policy_state,", "                states=next_policy_state,")),
    M("S12-action-layer-mask-categorical-only", ["C04", "C16"], ["C04.14", "C16.2"], (PA, "        if action_mask is not None and isinstance(dist, AbstractMaskableDistribution):", "        if action_mask is not None and isinstance(dist, Categorical):"), error_ok=True),
]

ENTRIES += [
    # ---------------------------------------------------------------- later additions
    M("C15-sac-bounds-swapped", "C15", "C15.3", (PS, "                high=self.action_space.high,\n                low=self.action_space.low,\n            )\n        else:", "                high=self.action_space.low,\n                low=self.action_space.high,\n            )\n        else:")),
    M("C13-flatten-wrong-size", "C13", "C13.5", (WTO, "shape=(int(jnp.asarray(self.env.observation_space.flat_size)),)", "shape=(int(jnp.asarray(self.env.action_space.flat_size)),)")),
    M("C13-transform-obs-ctor-swap", "C13", "C13.5", (WTO, "        self.env = env\n        self.func = func\n        self.observation_space = observation_space", "        self.env = env\n        self.func = observation_space\n        self.observation_space = func")),
    M("C06-init-position-one", "C06", "C06.1", (RPB, "        self.position = jnp.array(0, dtype=int)", "        self.position = jnp.array(1, dtype=int)")),
    M("C06-init-actions-from-obs", "C06", "C06.2", (RPB, "        self.actions = jax.tree.map(init_leaf, action_space.canonical())", "        self.actions = jax.tree.map(init_leaf, observation_space.canonical())")),
    M("C10-train-on-stale-buffer", "C10", "C10.2", (OFP, "            state.policy, state.opt_state, step_state.buffer, key=train_key", "            state.policy, state.opt_state, state.step_state.buffer, key=train_key")),
    M("C08-a2c-loss-unflattened", "C08", "C08.6", (A2C, "            policy,\n            flat_buffer,\n            self.normalize_advantages,", "            policy,\n            buffer,\n            self.normalize_advantages,")),
]

ENTRIES += [
    V("C04-v-boot-additive", "C04", (ONP, "        bootstrapped_reward = lax.cond(\n            truncation & ~termination,\n            lambda: (\n                reward\n                + self.gamma\n                * policy.value(\n                    next_policy_state,\n                    env.observation(next_env_state, key=bootstrap_key),\n                )[1]\n            ),\n            lambda: reward,\n        )",
       "        timeout_only = truncation & ~termination\n        next_value = policy.value(\n            next_policy_state,\n            env.observation(next_env_state, key=bootstrap_key),\n        )[1]\n        bootstrapped_reward = reward + jnp.where(timeout_only, self.gamma * next_value, 0.0)")),
]

ENTRIES += [
    V("C07-v-mask-one-minus", "C07", (DQN, "        not_terminal = (~batch.dones | batch.timeouts).astype(float)", "        not_terminal = 1.0 - (batch.dones & ~batch.timeouts).astype(float)")),
    V("C07-v-sac-mask-where", "C07", (SAC, "            not_terminal = (~done | timeout).astype(float)\n            return reward + self.gamma * min_q_next * not_terminal", "            return reward + jnp.where(done & ~timeout, 0.0, self.gamma * min_q_next)")),
]

ENTRIES += [
    V("C13-v-rename-nested", "C13", (WU, "    def forward(sample: Float[ArrayLike, \" ...\"]) -> Float[Array, \" ...\"]:", "    def to_new(sample: Float[ArrayLike, \" ...\"]) -> Float[Array, \" ...\"]:"),
      (WU, "    def backward(sample: Float[ArrayLike, \" ...\"]) -> Float[Array, \" ...\"]:", "    def to_old(sample: Float[ArrayLike, \" ...\"]) -> Float[Array, \" ...\"]:"),
      (WU, "    return RescaleResult(new_box, forward, backward)", "    return RescaleResult(new_box, to_new, to_old)")),
]

ENTRIES += [
    M("C04-filter-scan-drops-reverse", "C04", "C04.10", (UT, "        reverse=reverse,\n        unroll=unroll,", "        reverse=False,\n        unroll=unroll,")),
    M("C04-filter-scan-stale-carry", "C04", "C04.10", (UT, "        return new_carry_arr, y", "        return carry_arr, y")),
    M("C02-lru-cache-observation", ["C02", "C12"], ["C02.3", "C12.1"], (PEN, "    def observation(\n        self, state: PendulumState", "    @functools.lru_cache(maxsize=None)\n    def observation(\n        self, state: PendulumState"), (PEN, "from typing import ClassVar", "import functools\nfrom typing import ClassVar"), stale_ok=True),
    M("C11-io-callback-in-step", "C11", "C11.1", (OFP, "        timeout = truncation & ~termination", "        timeout = truncation & ~termination & jax.experimental.io_callback(lambda: True, jnp.array(True))")),
]

ENTRIES += [
    # ---------------------------------------------------------------- thirteenth seeding round
    M("S13-sac-reset-target2-is-critic1", ["C07", "C10"], ["C07.10", "C10.6"], (SAC, "        qf2_target = qf2\n", "        qf2_target = qf1\n")),
    M("S13-sac-reset-critics-share-key", ["C07", "C10"], ["C07.10", "C10.6"], (SAC, "            key=qf2_key,\n        )\n\n        qf1_target", "            key=qf1_key,\n        )\n\n        qf1_target")),
    V("S13-v-sac-reset-targets-rebuilt-from-own-keys", ["C07", "C10"], (SAC, "        qf1_target = qf1\n        qf2_target = qf2\n", "        qf1_target = SoftQNetwork(observation_size, action_size, width_size=self.q_width_size, depth=self.q_depth, key=qf1_key)\n        qf2_target = SoftQNetwork(observation_size, action_size, width_size=self.q_width_size, depth=self.q_depth, key=qf2_key)\n")),
    M("S13-qpolicy-epsilon-python-clamp", "C18", "C18.5", (QML, "        self.epsilon = epsilon\n", "        self.epsilon = min(max(epsilon, 0.0), 1.0)\n")),
    M("S13-qpolicy-epsilon-range-check", "C18", "C18.5", (QML, "        self.epsilon = epsilon\n", "        if epsilon < 0.0:\n            raise ValueError(\"epsilon must be non-negative\")\n        self.epsilon = epsilon\n")),
    V("S13-v-qpolicy-epsilon-jnp-clip", "C18", (QML, "import equinox as eqx\n", "import equinox as eqx\nimport jax.numpy as jnp\n"), (QML, "        self.epsilon = epsilon\n", "        self.epsilon = jnp.clip(epsilon, 0.0, 1.0)\n")),
    M("S13-learn-donates-arguments", "C11", "C11.11", (BA, "    @eqx.filter_jit\n    def learn(", "    @eqx.filter_jit(donate=\"all-except-first\")\n    def learn(")),
    V("S13-v-learn-jit-donate-none", "C11", (BA, "    @eqx.filter_jit\n    def learn(", "    @eqx.filter_jit(donate=\"none\")\n    def learn(")),
]

ENTRIES += [
    # ---------------------------------------------------------------- fourteenth (micro) seeding round
    M("S14-classic-transition-pinned-float32", "C02", "C02.9", ("lerax/env/classic_control/base_classic_control.py", "        y = self.clip(sol.ys[0])\n", "        y = self.clip(sol.ys[0]).astype(jnp.float32)\n")),
    M("S14-classic-transition-time-pinned", "C02", "C02.9", ("lerax/env/classic_control/base_classic_control.py", "        t = state.t + self.dt\n", "        t = jnp.asarray(state.t + self.dt, dtype=jnp.float32)\n")),
    V("S14-v-classic-transition-default-width-spelled", "C02", ("lerax/env/classic_control/base_classic_control.py", "        assert sol.ys is not None\n", "        assert sol.ys is not None\n        assert jnp.issubdtype(state.y.dtype, jnp.floating), \"classic-control states are floating point (float32, or float64 under 64-bit mode)\"\n")),
]

ENTRIES += [
    M("S14-step-autoreset-through-filter-cond", ["C12", "C01"], ["C12.8", "C01.3"], ("lerax/env/base_env.py", "        state = lax.cond(\n            terminal | truncate, lambda: self.initial(key=reset_key), lambda: next_state\n        )", "        state = filter_cond(\n            terminal | truncate, lambda: self.initial(key=reset_key), lambda: next_state\n        )"), ("lerax/env/base_env.py", "from jax import lax\n", "from jax import lax\nfrom lerax.utils import filter_cond\n")),
]
