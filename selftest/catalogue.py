"""Hand-written mutants (must be caught by the named rule) and variants (must stay silent).
Each edit is (file relative to src/, exact old text occurring once, new text)."""

def M(id, props, expect, *edits, **kw):
    d = {"id": id, "kind": "mutant", "props": props if isinstance(props, list) else [props], "expect": expect,
         "edits": [tuple(e) for e in edits]}
    d.update(kw)
    return d


def V(id, props, *edits):
    return {"id": id, "kind": "variant", "props": props if isinstance(props, list) else [props], "edits": [tuple(e) for e in edits]}


RB = "lerax/buffer/rollout.py"
ONP = "lerax/algorithm/on_policy.py"
PPO = "lerax/algorithm/ppo.py"
A2C = "lerax/algorithm/a2c.py"
RF = "lerax/algorithm/reinforce.py"
DQN = "lerax/algorithm/dqn.py"
SAC = "lerax/algorithm/sac.py"

ENTRIES = [
    # ---------------------------------------------------------------- C03
    M("C03-disc-nomask", "C03", "C03.3", (RB, "discounts = gamma * gae_lambda * next_non_terminals", "discounts = gamma * gae_lambda")),
    M("C03-boot-nomask", "C03", "C03.3", (RB, "gamma * next_values * next_non_terminals - self.values", "gamma * next_values - self.values")),
    M("C03-forward", "C03", "C03.1", (RB, "(deltas, discounts), reverse=True", "(deltas, discounts), reverse=False")),
    M("C03-noreverse", "C03", "C03.1", (RB, "(deltas, discounts), reverse=True", "(deltas, discounts)")),
    M("C03-returns-eq-adv", "C03", "C03.4", (RB, "returns = advantages + self.values", "returns = advantages")),
    M("C03-swap-fields", "C03", "C03", (RB, "self, (returns, advantages)", "self, (advantages, returns)")),
    M("C03-swap-gamma-lambda", "C03", "C03.6", (ONP, "next_value, self.gae_lambda, self.gamma", "next_value, self.gamma, self.gae_lambda")),
    M("C03-init-carry", "C03", "C03.1", (RB, "scan_fn, jnp.array(0.0), (deltas", "scan_fn, last_value, (deltas")),
    M("C03-lambda-in-delta", "C03", "C03", (RB, "deltas = self.rewards + gamma * next_values", "deltas = self.rewards + gamma * gae_lambda * next_values")),
    M("C03-shift-wrong", "C03", "C03.3", (RB, "[self.values[1:], last_value[None]]", "[self.values[:-1], last_value[None]]")),
    M("C03-boot-prestate", "C03", "C03.6", (ONP, "_, next_value = policy.value(step_state.policy_state, observation)\n        return buffer.compute",
                                               "_, next_value = policy.value(step_state.policy_state, buffer.observations)\n        return buffer.compute")),
    M("C03-estimator-outside-vmap", "C03", "C03.7",
      (ONP, "        policy, opt_state, log = self.train(\n            state.policy, state.opt_state, rollout_buffer, key=train_key\n        )",
            "        rollout_buffer = rollout_buffer.compute_returns_and_advantages(0.0, 0.95, self.gamma)\n        policy, opt_state, log = self.train(\n            state.policy, state.opt_state, rollout_buffer, key=train_key\n        )")),
    V("C03-v-commute", "C03", (RB, "advantage = delta + discount * carry", "advantage = carry * discount + delta")),
    V("C03-v-temp", "C03", (RB, "deltas = self.rewards + gamma * next_values * next_non_terminals - self.values",
                           "boot = next_non_terminals * next_values\n        deltas = -self.values + gamma * boot + self.rewards")),
    V("C03-v-xs-order", "C03", (RB, "delta, discount = x", "discount, delta = x"), (RB, "(deltas, discounts), reverse=True", "(discounts, deltas), reverse=True")),
    V("C03-v-kw", "C03", (ONP, "next_value, self.gae_lambda, self.gamma", "gamma=self.gamma, last_value=next_value, gae_lambda=self.gae_lambda")),
    # ---------------------------------------------------------------- C08
    M("C08-value-min", "C08", "C08.3", (PPO, "jnp.maximum(\n                        jnp.square(values - rollout_buffer.returns)", "jnp.minimum(\n                        jnp.square(values - rollout_buffer.returns)")),
    M("C08-onesided-clip", "C08", "C08.1", (PPO, "jnp.clip(ratios, 1 - clip_coefficient, 1 + clip_coefficient)", "jnp.clip(ratios, 1 - clip_coefficient, jnp.inf)")),
    M("C08-policy-max", "C08", "C08.1", (PPO, "policy_loss = -jnp.mean(\n            jnp.minimum(", "policy_loss = -jnp.mean(\n            jnp.maximum(")),
    M("C08-sign", "C08", "C08.1", (PPO, "policy_loss = -jnp.mean(\n            jnp.minimum(", "policy_loss = jnp.mean(\n            jnp.minimum(")),
    M("C08-coef-swap", "C08", "C08.4", (PPO, "+ value_loss * value_loss_coefficient\n            + entropy_loss * entropy_loss_coefficient", "+ value_loss * entropy_loss_coefficient\n            + entropy_loss * value_loss_coefficient")),
    M("C08-entropy-sign", "C08", "C08.4", (PPO, "entropy_loss = -jnp.mean(entropy)\n\n        loss = (", "entropy_loss = jnp.mean(entropy)\n\n        loss = (")),
    M("C08-chain-order", "C08", "C08.6", (PPO, "self.optimizer = optax.chain(clip, adam)", "self.optimizer = optax.chain(adam, clip)")),
    M("C08-noapply", "C08", "C08.6", (PPO, "        policy = eqx.apply_updates(policy, updates)\n\n        return policy, new_opt_state, stats", "        eqx.apply_updates(policy, updates)\n\n        return policy, new_opt_state, stats")),
    M("C08-kl-k1", "C08", "C08.1", (PPO, "approx_kl = jnp.mean(ratios - log_ratios) - 1", "approx_kl = jnp.mean(-log_ratios)")),
    M("C08-advnorm-nomean", "C08", "C08", (PPO, "advantages = (advantages - jnp.mean(advantages)) / (", "advantages = (advantages) / (")),
    M("C08-callsite-coef-swap", "C08", "C08.6", (PPO, "            self.value_loss_coefficient,\n            self.entropy_loss_coefficient,\n        )", "            self.entropy_loss_coefficient,\n            self.value_loss_coefficient,\n        )")),
    M("C08-a2c-noneg", "C08", "C08.5", (A2C, "policy_loss = -jnp.mean(log_probs * advantages)", "policy_loss = jnp.mean(log_probs * advantages)")),
    M("C08-reinforce-value-half", "C08", "C08.5", (RF, "value_loss = jnp.mean(jnp.square(values - rollout_buffer.returns)) / 2", "value_loss = jnp.mean(jnp.square(values - rollout_buffer.returns))")),
    M("C08-a2c-stale-values", "C08", "C08.5", (A2C, "value_loss = jnp.mean(jnp.square(values - rollout_buffer.returns)) / 2", "value_loss = jnp.mean(jnp.square(rollout_buffer.values - rollout_buffer.returns)) / 2")),
    M("C08-eval-nomask", "C08", "C08.7", (A2C, "            rollout_buffer.actions,\n            action_mask=rollout_buffer.action_masks,\n        )", "            rollout_buffer.actions,\n        )")),
    M("C08-a2c-grad-clip-const", "C08", "C08.6", (A2C, "clip = optax.clip_by_global_norm(self.max_grad_norm)", "clip = optax.clip_by_global_norm(1e9)")),
    M("C08-stats-swap", "C08", "C08", (PPO, "            policy_loss,\n            value_loss,\n            entropy_loss,\n        )", "            value_loss,\n            policy_loss,\n            entropy_loss,\n        )")),
    V("C08-v-commute", "C08", (PPO, "advantages * ratios,", "ratios * advantages,"),
      (PPO, "log_ratios = log_probs - rollout_buffer.log_probs", "old_lp = rollout_buffer.log_probs\n        log_ratios = -old_lp + log_probs")),
    V("C08-v-sq", "C08", (A2C, "jnp.mean(jnp.square(values - rollout_buffer.returns)) / 2", "0.5 * jnp.mean((rollout_buffer.returns - values) ** 2)")),
    V("C08-v-maxorder", "C08", (PPO, "jnp.maximum(\n                        jnp.square(values - rollout_buffer.returns),\n                        jnp.square(clipped_values - rollout_buffer.returns),",
                               "jnp.maximum(\n                        jnp.square(clipped_values - rollout_buffer.returns),\n                        jnp.square(values - rollout_buffer.returns),")),
    # ---------------------------------------------------------------- C07
    M("C07-dqn-notdone", ["C07"], "C07", (DQN, "not_terminal = (~batch.dones | batch.timeouts).astype(float)", "not_terminal = (~batch.dones).astype(float)")),
    M("C07-dqn-and", ["C07"], "C07.3", (DQN, "(~batch.dones | batch.timeouts)", "(~batch.dones & batch.timeouts)")),
    M("C07-dqn-argmax-target", "C07", "C07.1", (DQN, "best_actions = jnp.argmax(online_next_q, axis=-1)", "best_actions = jnp.argmax(target_next_q, axis=-1)"),
      (DQN, "        best_actions = jnp.argmax(target_next_q, axis=-1)\n\n        _, target_next_q = jax.vmap(target_policy.q_values)(\n            batch.next_states, batch.next_observations\n        )\n",
            "        _, target_next_q = jax.vmap(target_policy.q_values)(\n            batch.next_states, batch.next_observations\n        )\n        best_actions = jnp.argmax(target_next_q, axis=-1)\n")),
    M("C07-dqn-online-eval", "C07", "C07.1", (DQN, "_, target_next_q = jax.vmap(target_policy.q_values)(", "_, target_next_q = jax.vmap(policy.q_values)(")),
    M("C07-sac-max", "C07", "C07.2", (SAC, "min_q_next = jnp.minimum(q1_next, q2_next) - alpha * next_log_prob", "min_q_next = jnp.maximum(q1_next, q2_next) - alpha * next_log_prob")),
    M("C07-sac-plus-alpha", "C07", "C07.2", (SAC, "min_q_next = jnp.minimum(q1_next, q2_next) - alpha * next_log_prob", "min_q_next = jnp.minimum(q1_next, q2_next) + alpha * next_log_prob")),
    M("C07-sac-online-critics", "C07", "C07.2", (SAC, "q1_next = qf1_target(next_obs, next_action)", "q1_next = qf1(next_obs, next_action)")),
    M("C07-sac-notdone", "C07", "C07", (SAC, "not_terminal = (~done | timeout).astype(float)", "not_terminal = (~done).astype(float)")),
    M("C07-sac-timeout-only", "C07", "C07", (SAC, "not_terminal = (~done | timeout).astype(float)", "not_terminal = (~done & ~timeout).astype(float)")),
    M("C07-sac-same-key", "C07", "C07.2", (SAC, "            batch.timeouts,\n            next_action_keys,\n        )", "            batch.timeouts,\n            jr.split(sample_key, self.batch_size),\n        )")),
    M("C07-qloss-two-targets", "C07", "C07.5", (SAC, "qf2_loss = jnp.mean(jnp.square(qf2_values - target)) / 2", "qf2_loss = jnp.mean(jnp.square(qf2_values - qf1_values)) / 2")),
    M("C07-dqn-iter-online-target", "C07", "C07.4", (DQN, "            step_state.buffer,\n            state.target_policy,  # type: ignore[attr-defined]", "            step_state.buffer,\n            state.policy,")),
    M("C07-sac-reward-missing-gamma", "C07", "C07.2", (SAC, "return reward + self.gamma * min_q_next * not_terminal", "return reward + min_q_next * not_terminal")),
    V("C07-v-demorgan", "C07", (DQN, "(~batch.dones | batch.timeouts)", "(~(batch.dones & ~batch.timeouts))")),
    V("C07-v-sac-commute", "C07", (SAC, "return reward + self.gamma * min_q_next * not_terminal", "bootstrap = not_terminal * min_q_next\n            return self.gamma * bootstrap + reward")),
    V("C07-v-or-order", "C07", (SAC, "(~done | timeout)", "(timeout | ~done)")),
]
