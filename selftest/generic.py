"""Generic behaviour-preserving source transformations applied to whole files (AST level)."""
from __future__ import annotations

import ast
import os

from lerax_sa.model import SRC

# files whose functions the rules analyse; filled by rule families as they are built
FILES = [
    "lerax/buffer/rollout.py", "lerax/buffer/replay.py", "lerax/buffer/base_buffer.py",
    "lerax/algorithm/ppo.py", "lerax/algorithm/a2c.py", "lerax/algorithm/reinforce.py",
    "lerax/algorithm/dqn.py", "lerax/algorithm/sac.py", "lerax/algorithm/on_policy.py",
    "lerax/algorithm/off_policy.py", "lerax/algorithm/base_algorithm.py", "lerax/policy/actor_critic/mlp.py", "lerax/utils.py", "lerax/callback/logging/callback.py", "lerax/benchmark/__init__.py",
    "lerax/wrapper/transform_action.py", "lerax/wrapper/transform_observation.py", "lerax/wrapper/transform_reward.py", "lerax/wrapper/misc.py",
    "lerax/wrapper/utils.py", "lerax/wrapper/base_wrapper.py", "lerax/compatibility/gym.py", "lerax/compatibility/gymnax.py", "lerax/env/base_env.py",
    "lerax/space/box.py", "lerax/space/discrete.py", "lerax/space/multi_binary.py", "lerax/space/multi_discrete.py", "lerax/space/dict.py", "lerax/space/tuple.py",
    "lerax/distribution/base_distribution.py", "lerax/distribution/categorical.py", "lerax/distribution/bernoulli.py", "lerax/distribution/multi_categorical.py",
    "lerax/distribution/squashed_normal.py", "lerax/distribution/squashed_multivariate_normal.py", "lerax/policy/actor.py", "lerax/policy/q/base_q.py", "lerax/policy/sac/mlp.py",
    "lerax/env/unitree/g1/randomize.py", "lerax/env/unitree/g1/gait.py", "lerax/env/unitree/g1/base_g1.py", "lerax/env/unitree/g1/locomotion.py",
    "lerax/env/unitree/g1/standing.py", "lerax/env/unitree/g1/standup.py",
    "lerax/env/classic_control/mountain_car.py", "lerax/env/classic_control/continuous_mountain_car.py", "lerax/env/classic_control/acrobot.py",
    "lerax/env/classic_control/pendulum.py", "lerax/env/classic_control/cartpole.py", "lerax/env/mujoco/ant.py", "lerax/env/mujoco/humanoid.py", "lerax/env/mujoco/hopper.py",
]
PROPS_OF = {
    "lerax/buffer/rollout.py": ["C03", "C09"], "lerax/buffer/replay.py": ["C06", "C07"], "lerax/buffer/base_buffer.py": ["C09", "C06"],
    "lerax/algorithm/ppo.py": ["C08", "C09"], "lerax/algorithm/a2c.py": ["C08"], "lerax/algorithm/reinforce.py": ["C08"],
    "lerax/algorithm/dqn.py": ["C07", "C10", "C11", "C12"], "lerax/algorithm/sac.py": ["C07", "C10", "C11", "C12"],
    "lerax/algorithm/on_policy.py": ["C03", "C04", "C08", "C10", "C19", "C11", "C12"], "lerax/algorithm/off_policy.py": ["C05", "C07", "C10", "C19", "C11", "C12"],
    "lerax/algorithm/base_algorithm.py": ["C10", "C11", "C12"], "lerax/policy/actor_critic/mlp.py": ["C04", "C16"], "lerax/utils.py": ["C04", "C18", "C19"], "lerax/callback/logging/callback.py": ["C19", "C11"], "lerax/benchmark/__init__.py": ["C19"],
    "lerax/wrapper/transform_action.py": ["C13", "C01", "C02"], "lerax/wrapper/transform_observation.py": ["C13", "C01", "C02"], "lerax/wrapper/transform_reward.py": ["C13", "C01", "C02"],
    "lerax/wrapper/misc.py": ["C13", "C01", "C02"], "lerax/wrapper/utils.py": ["C13", "C01", "C02"], "lerax/wrapper/base_wrapper.py": ["C13", "C01", "C02"],
    "lerax/compatibility/gym.py": ["C13", "C14", "C01", "C11"], "lerax/compatibility/gymnax.py": ["C13"], "lerax/env/base_env.py": ["C01", "C13"],
    "lerax/space/box.py": ["C14"], "lerax/space/discrete.py": ["C14"], "lerax/space/multi_binary.py": ["C14"], "lerax/space/multi_discrete.py": ["C14"],
    "lerax/space/dict.py": ["C14", "C12"], "lerax/space/tuple.py": ["C14"],
    "lerax/distribution/base_distribution.py": ["C15"], "lerax/distribution/categorical.py": ["C15", "C16"], "lerax/distribution/bernoulli.py": ["C15", "C16"],
    "lerax/distribution/multi_categorical.py": ["C15", "C16"], "lerax/distribution/squashed_normal.py": ["C15"], "lerax/distribution/squashed_multivariate_normal.py": ["C15"],
    "lerax/policy/actor.py": ["C16"], "lerax/policy/q/base_q.py": ["C16"], "lerax/policy/sac/mlp.py": ["C16"],
    "lerax/env/unitree/g1/randomize.py": ["C20"], "lerax/env/unitree/g1/gait.py": ["C20"], "lerax/env/unitree/g1/base_g1.py": ["C20"],
    "lerax/env/unitree/g1/locomotion.py": ["C20", "C02"], "lerax/env/unitree/g1/standing.py": ["C20"], "lerax/env/unitree/g1/standup.py": ["C20"],
    "lerax/env/classic_control/mountain_car.py": ["C02", "C17"], "lerax/env/classic_control/continuous_mountain_car.py": ["C02", "C17"], "lerax/env/classic_control/acrobot.py": ["C02", "C17"],
    "lerax/env/classic_control/pendulum.py": ["C02"], "lerax/env/classic_control/cartpole.py": ["C02", "C17"], "lerax/env/mujoco/ant.py": ["C02", "C17"], "lerax/env/mujoco/humanoid.py": ["C02", "C17"],
    "lerax/env/mujoco/hopper.py": ["C02", "C17"],
}


class Renamer(ast.NodeTransformer):
    """alpha-rename every local variable (not parameters, not attributes) of every function."""

    def visit_FunctionDef(self, node):
        params = {a.arg for a in node.args.posonlyargs + node.args.args + node.args.kwonlyargs}
        if node.args.vararg:
            params.add(node.args.vararg.arg)
        if node.args.kwarg:
            params.add(node.args.kwarg.arg)
        assigned = set()
        nested_params = set()
        for n in ast.walk(node):
            if isinstance(n, ast.Name) and isinstance(n.ctx, ast.Store):
                assigned.add(n.id)
            if isinstance(n, (ast.FunctionDef, ast.Lambda)) and n is not node:
                for a in n.args.posonlyargs + n.args.args + n.args.kwonlyargs:
                    nested_params.add(a.arg)
            if isinstance(n, (ast.Global, ast.Nonlocal)):
                return node
            if isinstance(n, ast.Call) and isinstance(n.func, ast.Name) and n.func.id == "locals":
                pass
        # names used as keyword-argument names are unaffected (keywords are strings)
        local = assigned - params - nested_params
        # do not rename names that nested functions define as their own function names
        mapping = {n: f"{n}__r" for n in local}

        class R(ast.NodeTransformer):
            def visit_Name(self, n):
                if n.id in mapping:
                    return ast.copy_location(ast.Name(mapping[n.id], n.ctx), n)
                return n

            def visit_FunctionDef(self, n):
                # nested defs: rename references to outer locals inside, keep their own name handling simple
                n.name = mapping.get(n.name, n.name)
                self.generic_visit(n)
                return n

        newbody = [R().visit(st) for st in node.body]
        node.body = newbody
        return node


def alpha_rename(src: str) -> str:
    t = ast.parse(src)
    t = Renamer().visit(t)
    ast.fix_missing_locations(t)
    return ast.unparse(t)


def unparse_roundtrip(src: str) -> str:
    return ast.unparse(ast.parse(src))


class Commute(ast.NodeTransformer):
    """swap operands of + * & | (AC operators)"""

    def visit_BinOp(self, node):
        self.generic_visit(node)
        if isinstance(node.op, (ast.Add, ast.Mult, ast.BitAnd, ast.BitOr)):
            # string concatenation / list concatenation are not commutative: skip constants of those kinds
            for side in (node.left, node.right):
                if isinstance(side, (ast.Constant,)) and isinstance(side.value, (str, bytes)):
                    return node
                if isinstance(side, (ast.List, ast.Tuple, ast.JoinedStr)):
                    return node
            node.left, node.right = node.right, node.left
        return node


def commute(src: str) -> str:
    t = Commute().visit(ast.parse(src))
    ast.fix_missing_locations(t)
    return ast.unparse(t)


class SubToAddNeg(ast.NodeTransformer):
    def visit_BinOp(self, node):
        self.generic_visit(node)
        if isinstance(node.op, ast.Sub):
            return ast.copy_location(ast.BinOp(node.left, ast.Add(), ast.UnaryOp(ast.USub(), node.right)), node)
        return node


def sub_to_addneg(src: str) -> str:
    t = SubToAddNeg().visit(ast.parse(src))
    ast.fix_missing_locations(t)
    return ast.unparse(t)


class GeToLe(ast.NodeTransformer):
    def visit_Compare(self, node):
        self.generic_visit(node)
        if len(node.ops) == 1:
            op = node.ops[0]
            sw = {ast.GtE: ast.LtE, ast.LtE: ast.GtE, ast.Gt: ast.Lt, ast.Lt: ast.Gt}
            if type(op) in sw:
                return ast.copy_location(ast.Compare(node.comparators[0], [sw[type(op)]()], [node.left]), node)
        return node


def flip_compare(src: str) -> str:
    t = GeToLe().visit(ast.parse(src))
    ast.fix_missing_locations(t)
    return ast.unparse(t)


class Temps(ast.NodeTransformer):
    """`return e` -> `_rv = e; return _rv`; `x = f(g(..), ...)` -> `_t = g(..); x = f(_t, ...)` (first positional argument only:
    it is the first thing evaluated after the callee expression, so hoisting it keeps the evaluation order of effects)."""

    def __init__(self):
        self.n = 0

    def _body(self, stmts):
        out = []
        for st in stmts:
            st = self.visit(st)
            if isinstance(st, ast.Return) and st.value is not None and not isinstance(st.value, (ast.Name, ast.Constant)):
                self.n += 1
                nm = f"_rv{self.n}"
                out.append(ast.Assign([ast.Name(nm, ast.Store())], st.value))
                out.append(ast.Return(ast.Name(nm, ast.Load())))
                continue
            if isinstance(st, ast.Assign) and isinstance(st.value, ast.Call) and st.value.args and isinstance(st.value.args[0], (ast.Call, ast.BinOp)) \
                    and isinstance(st.value.func, (ast.Name, ast.Attribute)) and not any(isinstance(x, (ast.Starred,)) for x in st.value.args):
                self.n += 1
                nm = f"_t{self.n}"
                out.append(ast.Assign([ast.Name(nm, ast.Store())], st.value.args[0]))
                st.value.args[0] = ast.Name(nm, ast.Load())
            out.append(st)
        return out

    def visit_FunctionDef(self, node):
        node.body = self._body(node.body)
        return node

    def visit_If(self, node):
        node.body = self._body(node.body)
        node.orelse = self._body(node.orelse)
        return node

    def visit_Lambda(self, node):
        return node

    def visit_ClassDef(self, node):
        node.body = [self.visit(x) for x in node.body]
        return node


def temps(src: str) -> str:
    t = Temps().visit(ast.parse(src))
    ast.fix_missing_locations(t)
    return ast.unparse(t)


class IfExpToStmt(ast.NodeTransformer):
    """`x = a if c else b` (simple name target, directly in a function body) -> if c: x = a / else: x = b"""

    def visit_FunctionDef(self, node):
        self.generic_visit(node)
        out = []
        for st in node.body:
            if isinstance(st, ast.Assign) and len(st.targets) == 1 and isinstance(st.targets[0], ast.Name) and isinstance(st.value, ast.IfExp):
                out.append(ast.If(st.value.test, [ast.Assign([ast.Name(st.targets[0].id, ast.Store())], st.value.body)],
                                  [ast.Assign([ast.Name(st.targets[0].id, ast.Store())], st.value.orelse)]))
            else:
                out.append(st)
        node.body = out
        return node


def ifexp_to_stmt(src: str) -> str:
    t = IfExpToStmt().visit(ast.parse(src))
    ast.fix_missing_locations(t)
    return ast.unparse(t)


TRANSFORMS = {"temps": temps, "ifstmt": ifexp_to_stmt, "alpha": alpha_rename, "unparse": unparse_roundtrip, "commute": commute, "subneg": sub_to_addneg,
              "flipcmp": flip_compare}


def entries():
    out = []
    for rel in FILES:
        for name in TRANSFORMS:
            out.append({"id": f"V-{name}-{rel.split('/', 1)[1]}", "kind": "variant", "generic": True, "file": rel,
                        "transform": name, "props": PROPS_OF[rel]})
    return out


def build(entry):
    path = os.path.join(SRC, entry["file"])
    with open(path) as f:
        src = f.read()
    try:
        new = TRANSFORMS[entry["transform"]](src)
    except Exception as e:  # noqa: BLE001
        return None, f"transform failed: {e}"
    return {entry["file"]: new}, None
