"""C03 — advantages and returns equal the GAE definition, cut at episode ends."""
from __future__ import annotations

from ..model import AnalysisError
from ..norm import Normalizer, show_term, thaw
from ..vgraph import FALSE, NONE, TRUE, Closure, show, walk
from .util import apply_fn, ast_calls_of_attr, bind_args, fields, live, one, params_of, subnodes

EXPLANATION = (
    "Static value-graph analysis of RolloutBuffer.compute_returns_and_advantages and its call chain. "
    "C03.1 the advantages are the stacked output of a reverse scan with zero initial carry; C03.2/3 the scan body "
    "applied to the scanned operands has normal form delta + disc*carry with delta = r + gamma*shift(V,V_T)*(1-d) - V "
    "and disc = gamma*lambda*(1-d) (polynomial normal-form equality against the reference written from the property "
    "statement); C03.4 returns = advantages + V and the tree_at write-back is field-aligned; C03.5 unconditional "
    "dependence sets; C03.6 argument/parameter alignment at the post_collect call site (gamma/lambda not swapped, "
    "bootstrap value = V(obs(final env state))); C03.7 placement: the estimator is only reachable through "
    "post_collect <- collect_rollout, and collect_rollout is the function under filter_vmap in iteration; C03.8 composed with the "
    "collector: the dones / values fields the estimator reads are written as terminal|truncate and the policy's value of that step."
)
ASSUMPTIONS = [
    "lax.scan(reverse=True) semantics and floating-point evaluation are trusted",
    "normal-form equality is over the reals (reassociation is not modelled)",
    "vmap maps the function independently per batch member (JAX contract)",
]

SHIFT_FORMS = [
    "jnp.concatenate([V[1:], lv[None]], axis=0)",
    "jnp.concatenate([V[1:], jnp.expand_dims(lv, 0)], axis=0)",
    "jnp.concatenate([V[1:], jnp.atleast_1d(lv)], axis=0)",
    "jnp.concatenate([V[1:], lv.reshape(1)], axis=0)",
    "jnp.append(V[1:], lv)",
]


def estimator_update(s, b, nz, p, ci):
    """(fields of the estimator's result, base_ok, set of declared fields whose value differs from self's). The result may be written as
    a functional update of self (eqx.tree_at) or as the buffer rebuilt field by field (`type(self)(observations=self.observations, ...)`):
    the latter is an update of self exactly when every declared field other than the results receives self's own value - a field left
    to its constructor default is lost."""
    P = s.prog
    self_ = ("param", "self")
    upd = fields(p.ret)
    base_ok = p.ret[0] == "update" and p.ret[1] == self_
    changed = set(upd)
    if p.ret[0] == "record" and p.ret[1] == ci.qualname:

        def through_optional(v):
            # the constructor's `asarray(x) if x is not None else <placeholder>` on a value that is a scan output / a sum
            if isinstance(v, tuple) and v and v[0] == "ite" and isinstance(v[1], tuple) and v[1][0] == "cmp" and v[1][3] == NONE and v[1][1] in ("IsNot", "Is"):
                v = v[2] if v[1][1] == "IsNot" else v[3]
            while isinstance(v, tuple) and v and v[0] == "call" and v[1] in (("global", "jax.numpy.asarray"), ("global", "jax.numpy.array")) and len(v[2]) == 1 \
                    and all(k_ == "dtype" and x_ == ("global", "float") for k_, x_ in v[3]):
                v = v[2][0]  # the constructor's float cast of a value that is one already
            return v
        upd = {k_: through_optional(v_) for k_, v_ in upd.items()}
        declared = [f_.name for f_ in P.dataclass_fields(ci)]
        changed = {f_ for f_ in declared if f_ not in upd or nz.canon(upd[f_]) != nz.canon(("attr", self_, f_))}
        base_ok = set(upd) <= set(declared)
    return upd, base_ok, changed


def check_estimator_keeps_record(s, rule):
    """the rollout handed to training is what the estimator returns: it has to be the collected buffer with only `returns` and
    `advantages` filled in - every recorded field (observations, actions, masks, log-probs, values, policy states) untouched"""
    b = s.builder(inline=set())
    nz = Normalizer(b)
    ci, dc, fn = s.method("RolloutBuffer", "compute_returns_and_advantages")
    p = one(s.paths(b, "RolloutBuffer", "compute_returns_and_advantages"), "compute_returns_and_advantages")
    if not (isinstance(p.ret, tuple) and p.ret[0] in ("update", "record")):
        raise AnalysisError(f"RolloutBuffer.compute_returns_and_advantages: return value is not a functional update of self: {show(p.ret, maxlen=200)}")
    upd, base_ok, changed = estimator_update(s, b, nz, p, ci)
    s.ob(rule, "RolloutBuffer.compute_returns_and_advantages", base_ok and changed == {"returns", "advantages"},
         "the estimator returns the collected buffer with exactly the fields {returns, advantages} replaced", s.loc("RolloutBuffer", "compute_returns_and_advantages"), key="update-fields",
         detail=f"fields that differ from self's: {sorted(changed)}", necessary_for="what was recorded during collection (masks included) is what training re-evaluates")


def check(s):
    P = s.prog
    b = s.builder(inline=set())
    nz = Normalizer(b)
    ci, dc, fn = s.method("RolloutBuffer", "compute_returns_and_advantages")
    loc = s.loc("RolloutBuffer", "compute_returns_and_advantages")
    p = one(s.paths(b, "RolloutBuffer", "compute_returns_and_advantages"), "compute_returns_and_advantages")
    con = "RolloutBuffer.compute_returns_and_advantages"
    self_ = ("param", "self")
    upd = fields(p.ret)
    if not (isinstance(p.ret, tuple) and p.ret[0] in ("update", "record")):
        raise AnalysisError(f"{con}: return value is not a functional update of self: {show(p.ret, maxlen=200)}")
    upd, base_ok, changed = estimator_update(s, b, nz, p, ci)
    s.ob("C03.4", con, base_ok and changed == {"returns", "advantages"},
         "the result is `self` with exactly the fields {returns, advantages} replaced", loc, key="update-fields",
         detail=f"fields that differ from self's: {sorted(changed)}", necessary_for="return_t = A_t + V_t stored under the right names")
    A = upd.get("advantages")
    R = upd.get("returns")
    if A is None or R is None:
        return
    # C03.1 -------------------------------------------------------------
    scan = None
    flipped_out = False
    a = A
    if isinstance(a, tuple) and a[0] == "item" and a[2] == 1 and isinstance(a[1], tuple) and a[1][0] == "scan":
        scan = a[1]
    s.ob("C03.1", con, scan is not None, "advantages are the stacked outputs (element 1) of a scan", loc,
         key="not-scan-output", detail=show(A, maxlen=300),
         necessary_for="A_t = delta_t + gamma*lambda*(1-d_t)*A_{t+1} is a backward recursion")
    if scan is None:
        return
    _, f, init, xs, length, reverse = scan
    s.ob("C03.1", con, reverse == TRUE, "the scan runs in reverse (reverse=True)", loc, key="not-reverse",
         detail=f"reverse={show(reverse)}", necessary_for="A_t depends on A_{t+1}, not on A_{t-1}")
    s.ob("C03.1", con, nz.canon(init) == ("k", 0), "the initial carry is 0 (A_T = 0 beyond the rollout)", loc,
         key="init-not-zero", detail=f"init={show(init)}")
    # C03.2/3 ------------------------------------------------------------
    carry = ("param", "$carry")
    out = apply_fn(b, f, (carry, xs))
    if not (isinstance(out, tuple) and out[0] == "tuple" and len(out[1]) == 2):
        raise AnalysisError(f"{con}: scan body does not return a pair")
    new_carry, emitted = out[1]
    s.ob("C03.2", con, nz.canon(new_carry) == nz.canon(emitted), "the emitted output is the new carry (A_t itself)",
         loc, key="emit-not-carry", detail=f"carry'={show(new_carry, maxlen=200)} out={show(emitted, maxlen=200)}")
    bind = {
        "r": ("attr", self_, "rewards"), "V": ("attr", self_, "values"), "d": ("attr", self_, "dones"),
        "gamma": ("param", "gamma"), "lam": ("param", "gae_lambda"), "lv": ("param", "last_value"), "c": carry,
    }
    got = nz.canon(new_carry)
    ok = False
    want = None
    for form in SHIFT_FORMS:
        ref = s.ref(b, f"r + gamma*({form})*(1.0 - d) - V + gamma*lam*(1.0 - d)*c", bind)
        want0 = nz.canon(ref)
        if want is None:
            want = want0
        if got == want0:
            ok = True
            want = want0
            break
    s.ob("C03.3", con, ok,
         "scan body on the scanned operands == r + γ·shift(V,V_T)·(1−d) − V + γ·λ·(1−d)·carry "
         "(both the bootstrap term and the recursion coefficient carry (1−d))", loc, key="gae-formula",
         detail=f"code normal form:      {show_term(got, 900)}\nreference normal form: {show_term(want, 900)}",
         necessary_for="nothing recorded after an episode end influences the estimates before it; λ=1 ⇒ MC returns, λ=0 ⇒ TD error")
    # linearity in the carry (C03.2): degree of carry atom in every monomial ≤ 1
    poly = nz.poly(new_carry)
    catom = ("p", "$carry")
    deg = max((e for m in poly for a_, e in m if a_ == catom), default=0)
    s.ob("C03.2", con, deg == 1, "the new carry is a degree-1 polynomial in the carry", loc, key="carry-degree",
         detail=f"degree={deg}")
    # C03.5 dependence ----------------------------------------------------
    const_part = {m: c for m, c in poly.items() if all(a_ != catom for a_, _ in m)}
    coef_part = {m: c for m, c in poly.items() if any(a_ == catom for a_, _ in m)}

    def atoms(pp):
        out_ = set()

        def rec(t):
            if isinstance(t, tuple):
                if t and t[0] == "p":
                    out_.add("param:" + t[1])
                elif t and t[0] == "attr" and t[1] == ("p", "self"):
                    out_.add("self." + t[2])
                else:
                    for x in t:
                        rec(x)
        for m in pp:
            rec(m)
        return out_

    da, ca = atoms(const_part), atoms(coef_part) - {"param:$carry"}
    allowed = {"self.rewards", "self.values", "self.dones", "param:last_value", "param:gamma", "param:gae_lambda"}
    s.ob("C03.5", con, (da | ca) <= allowed and {"self.rewards", "self.values", "self.dones", "param:last_value", "param:gamma"} <= da
         and {"self.dones", "param:gamma", "param:gae_lambda"} <= ca,
         "advantages depend on exactly {rewards, values, dones, last_value, gamma, gae_lambda}", loc, key="dependence",
         detail=f"delta depends on {sorted(da)}; recursion coefficient depends on {sorted(ca)}")
    s.ob("C03.5", con, "param:gae_lambda" not in da, "the one-step TD error does not depend on lambda", loc,
         key="delta-depends-on-lambda", detail=f"delta depends on {sorted(da)}")
    # C03.4 returns -------------------------------------------------------
    refR = ("bin", "Add", A, ("attr", self_, "values"))
    s.eq("C03.4", con, nz, R, refR, "returns == advantages + values", loc, key="returns-formula",
         necessary_for="return_t = A_t + V_t")
    # C03.6 call-site alignment --------------------------------------------
    # every concrete on-policy learner is examined through the post_collect IT resolves to (the shared one, or an override of its own:
    # an override is held to the same rule, not waved through and not merely reported as unanalysed)
    base6 = P.cls("AbstractActorCriticOnPolicyAlgorithm")
    learners6 = sorted((c for c in P.concrete_exported("lerax.algorithm") if P.is_subclass(c, base6)), key=lambda c: c.name)
    seen6 = set()
    for lc in [base6] + learners6:
        r6 = P.resolve_method(lc, "post_collect")
        if r6 is None or id(r6[1]) in seen6:
            continue
        seen6.add(id(r6[1]))
        s.method(lc.name, "post_collect")
        con6 = f"{r6[0].name}.post_collect"
        loc6 = P.loc(r6[0].module, r6[1])
        b2 = s.builder(inline=set())
        nz2 = Normalizer(b2)
        pp = one(s.paths(b2, lc.name, "post_collect"), con6)
        call = pp.ret
        ok_call = isinstance(call, tuple) and call[0] == "call" and isinstance(call[1], tuple) and call[1][0] == "attr" \
            and call[1][2] == "compute_returns_and_advantages" and call[1][1] == ("param", "buffer")
        s.ob("C03.6", con6, ok_call, "post_collect returns buffer.compute_returns_and_advantages(...) of the collected buffer",
             loc6, key="not-estimator-call", detail=show(call, maxlen=300))
        if ok_call:
            m = bind_args(fn, call[2], call[3])
            s.eq("C03.6", con6, nz2, m.get("gamma", NONE), ("attr", ("param", "self"), "gamma"),
                 "parameter `gamma` receives self.gamma", loc6, key="gamma-arg",
                 necessary_for="γ and λ are not interchanged at the call site")
            s.eq("C03.6", con6, nz2, m.get("gae_lambda", NONE), ("attr", ("param", "self"), "gae_lambda"),
                 "parameter `gae_lambda` receives self.gae_lambda", loc6, key="lambda-arg")
            want_lv = s.ref(b2, "policy.value(step_state.policy_state, env.observation(step_state.env_state, key=key))[1]",
                            {"policy": ("param", "policy"), "step_state": ("param", "step_state"), "env": ("param", "env"),
                             "key": ("param", "key")})
            s.eq("C03.6", con6, nz2, m.get("last_value", NONE), want_lv,
                 "parameter `last_value` receives V(obs(post-rollout env state)) under the post-rollout policy state", loc6,
                 key="bootstrap-arg", necessary_for="V_T is the supplied bootstrap value of the state after the last step")
    # C03.7 placement -------------------------------------------------------
    sites = ast_calls_of_attr(P, "compute_returns_and_advantages")
    bad = [(m_, sc) for m_, sc, c in sites if not sc.endswith(".post_collect")]
    s.ob("C03.7", "callers-of-compute_returns_and_advantages", not bad and len(sites) >= 1,
         "the estimator is invoked only from post_collect", loc, key="foreign-caller",
         detail="; ".join(f"{m_.relpath}:{sc}" for m_, sc in bad) or f"{len(sites)} call site(s), all in post_collect")
    sites = ast_calls_of_attr(P, "post_collect")
    bad = [(m_, sc) for m_, sc, c in sites if not sc.endswith(".collect_rollout")]
    s.ob("C03.7", "callers-of-post_collect", not bad and len(sites) >= 1, "post_collect is invoked only from collect_rollout",
         loc6, key="foreign-caller",
         detail="; ".join(f"{m_.relpath}:{sc}" for m_, sc in bad) or f"{len(sites)} call site(s)")
    # collect_rollout hands the scanned buffer + final carry to post_collect
    con7 = "AbstractOnPolicyAlgorithm.collect_rollout"
    loc7 = s.loc("AbstractOnPolicyAlgorithm", "collect_rollout")
    b3 = s.builder(inline=set())
    pc = one(s.paths(b3, "AbstractActorCriticOnPolicyAlgorithm", "collect_rollout"), con7)
    ok7 = False
    detail7 = show(pc.ret, maxlen=300)
    if isinstance(pc.ret, tuple) and pc.ret[0] == "tuple" and len(pc.ret[1]) == 2:
        st, buf = pc.ret[1]
        if isinstance(buf, tuple) and buf[0] == "call" and isinstance(buf[1], tuple) and buf[1][0] == "attr" and buf[1][2] == "post_collect":
            _, dcp, fnp = s.method("AbstractActorCriticOnPolicyAlgorithm", "post_collect")
            m = bind_args(fnp, buf[2], buf[3])
            sc = m.get("buffer")
            ok7 = (isinstance(sc, tuple) and sc[0] == "item" and sc[2] == 1 and sc[1][0] == "scan"
                   and m.get("step_state") == ("item", sc[1], 0) and st == ("item", sc[1], 0))
    s.ob("C03.7", con7, ok7, "post_collect receives the scan's stacked rows and the scan's final carry (which is also returned)",
         loc7, key="post-collect-args", detail=detail7,
         necessary_for="the bootstrap value is taken from the post-rollout state of the same environment stream")
    # iteration: collect_rollout is the vmapped function in the multi-env case
    con8 = "AbstractOnPolicyAlgorithm.iteration"
    loc8 = s.loc("AbstractOnPolicyAlgorithm", "iteration")
    b4 = s.builder(inline=set())
    n_multi = 0
    for pi in live(s.paths(b4, "AbstractActorCriticOnPolicyAlgorithm", "iteration")):
        trains = [x for x in walk(pi.ret) if isinstance(x, tuple) and x and x[0] == "call" and isinstance(x[1], tuple)
                  and x[1][0] == "attr" and x[1][2] == "train" and x[1][1] == ("param", "self")]
        if not trains:
            raise AnalysisError(f"{con8}: no self.train call on the path to the return")
        _, _, fnt = s.method("AbstractOnPolicyAlgorithm", "train")
        for t in trains[:1]:
            m = bind_args(fnt, t[2], t[3])
            buf = m.get("buffer")
            single = any(nz.canon(tt) == nz.canon(s.ref(b4, "self.num_envs == 1", {"self": ("param", "self")})) and v
                         for tt, v in pi.conds)
            src = buf[1] if isinstance(buf, tuple) and buf[0] == "item" and buf[2] == 1 else None
            if single:
                ok = isinstance(src, tuple) and src[0] == "call" and isinstance(src[1], tuple) and src[1][0] == "attr" and src[1][2] == "collect_rollout"
                s.ob("C03.7", con8 + "[num_envs==1]", ok, "the trained buffer is collect_rollout's (already estimated) output",
                     loc8, key="single-env-buffer", detail=show(buf, maxlen=200))
            else:
                n_multi += 1
                ok = (isinstance(src, tuple) and src[0] == "call" and isinstance(src[1], tuple) and src[1][0] == "vmapfn"
                      and isinstance(src[1][1], Closure) and src[1][1].name == "collect_rollout")
                s.ob("C03.7", con8 + "[num_envs>1]", ok,
                     "the trained buffer is the output of vmap(collect_rollout): the estimator ran inside the per-environment map",
                     loc8, key="estimator-outside-vmap", detail=show(buf, maxlen=300),
                     necessary_for="with several parallel environments each environment's stream is estimated on its own")
    if n_multi == 0:
        raise AnalysisError(f"{con8}: no multi-environment case found")
    # ---------------------------------------------------------------- C03.8 producer ∘ estimator
    # The estimator cuts at `dones` and reads `values`; the statement's done_t / V_t are the episode ends and the policy's values of
    # the collected stream, so the collector must write exactly those into the fields the estimator reads.
    from .stepref import on_policy_rows
    for o in on_policy_rows(s):
        s.eq("C03.8", o["con"], o["nz"], o["row"].get("dones", NONE), o["ref"]["done"],
             "the `dones` flag the estimator cuts at is terminal(successor) | truncate(successor) of that very step", o["loc"], key="estimator-dones-source",
             necessary_for="nothing recorded after an episode end (terminal or truncated) influences the estimates before it")
        s.eq("C03.8", o["con"], o["nz"], o["row"].get("values", NONE), o["ref"]["value"],
             "the `values` the estimator reads are the policy's value for the observation acted on at that step", o["loc"], key="estimator-values-source",
             necessary_for="delta_t = r_t + gamma*(1-done_t)*V_{t+1} - V_t with V_t the value of step t's observation")
        nzp = Normalizer(o["b"], ite_poly=True)
        rw = o["row"].get("rewards")
        want_r = nzp.canon(("ite", o["ref"]["boot_pred"], o["ref"]["boot_val"], o["ref"]["r"]))
        got_r = nzp.canon(rw) if rw is not None else None
        s.ob("C03.8", o["con"], got_r == want_r,
             "the `rewards` the estimator reads are the environment's reward of that step (plus the truncation bootstrap of that same step only)", o["loc"],
             key="estimator-rewards-source", detail=f"code: {show_term(got_r, 400) if got_r else 'missing'}\nreference: {show_term(want_r, 400)}",
             necessary_for="r_t in delta_t is the reward of step t")
    # ---------------------------------------------------------------- C03.9 the estimator's hyper-parameters are the configured ones
    from .util import ctor_wiring
    for cls_ in ("PPO", "A2C", "REINFORCE"):
        ctor_wiring(s, "C03.9", cls_, necessary_for="all gamma and lambda in [0,1] (lambda=0 gives one-step TD errors, lambda=1 Monte-Carlo returns): the values passed to the "
                                                    "estimator are the ones the user configured, zero included")
    # C03.10 the estimator works at the buffer's own width: "equal GAE ... over the reals" is read at the precision of the rollout arrays,
    # so the discount, the trace decay and the bootstrap value are not cast to a pinned width (a float32 gamma inside a float64 rollout
    # rounds every coefficient of the recursion; the normaliser erases float casts, which is why this is a separate dtype-provenance rule)
    from ..effects import pinned_width_literals
    for cls10, meth10 in (("RolloutBuffer", "compute_returns_and_advantages"), ("RolloutBuffer", "__init__")):
        ci10, dc10, fn10 = s.method(cls10, meth10)
        pins = pinned_width_literals(fn10)
        s.ob("C03.10", f"{cls10}.{meth10}", not pins, "rewards, values, discount, decay and bootstrap are combined at the platform's default width (no pinned-width cast)", s.loc(cls10, meth10),
             key="pinned-width", detail="; ".join(pins), necessary_for="advantages and returns equal the GAE definition at the precision of the rollout (also in 64-bit mode)")
    for r, n in (("C03.10", 2), ("C03.1", 3), ("C03.2", 2), ("C03.3", 1), ("C03.4", 2), ("C03.5", 2), ("C03.6", 4), ("C03.7", 5), ("C03.8", 6), ("C03.9", 20)):
        s.floor(r, n)
