"""C14 — spaces: exact membership, member samples, coherent equality."""
from __future__ import annotations

from ..kinds import BOOL, SCALAR, UNKNOWN, Kinds
from ..model import AnalysisError
from ..norm import Normalizer, show_term
from ..vgraph import FALSE, NONE, TRUE, Closure, Ctx, show, walk
from .util import POS, element_at_pos, elementwise, entails, fields, live, one

EXPLANATION = (
    "Per space kind (Box, Discrete, MultiBinary, MultiDiscrete, Dict, Tuple), on every static path of the method: C14.1 contains "
    "returns a Boolean scalar (kind/shape abstraction; a reduction with axis= on an operand of unknown rank is not scalar); C14.2 the "
    "accepting path's predicate has a normal form from the accepted table of two-sided inclusive bound tests; C14.3 rejecting guards "
    "(uncastable, wrong shape/rank, non-integral, wrong container type / length / key set) each occur as a path returning False; "
    "C14.4 __eq__ guards on its own class, compares every parameter field of both operands, and any zip-based comparison is "
    "accompanied by a length/key-set equality; C14.5 __hash__ reads exactly the fields __eq__ compares and hashes no unhashable "
    "built-in view; C14.6 sample laws (Box's four boundedness masks select the matching formula, Discrete mask/sum(mask), "
    "MultiDiscrete randint(0, nvec), per-component key split in component order); C14.7 canonical() guards arithmetic on the bounds "
    "by the finiteness tests sample() uses; C14.8 flatten_sample / flat_size traverse one component sequence in one order; C14.9 "
    "Gymnasium conversions are exhaustive over the instantiable space kinds, pass the defining parameters and reject the rest; C14.10 every "
    "constructor stores its arguments in the like-named fields (bounds not crossed). C14.4 also: the answer of __eq__ for an operand of "
    "the own class is the conjunction of the comparisons made, none of them tolerance-based. C14.7 also: in each finiteness case "
    "canonical() selects the midpoint or an end / the finite end (plus a constant step inside) / a finite constant."
)
ASSUMPTIONS = [
    "jr.uniform/normal/exponential/randint/choice/bernoulli sample within their documented supports",
    "value-level membership of samples and hashing of +-0.0 in Box are not decided",
    "jnp.asarray/try_cast is the identity on array-likes",
]

KINDS = ["Box", "Discrete", "MultiBinary", "MultiDiscrete", "Dict", "Tuple"]
PARAM_FIELDS = {"Box": ["low", "high"], "Discrete": ["n"], "MultiBinary": ["n"], "MultiDiscrete": ["nvec"], "Dict": ["spaces"], "Tuple": ["spaces"]}

ACCEPT = {
    "Box": ["jnp.all(x >= self.low) & jnp.all(x <= self.high)", "jnp.all((x >= self.low) & (x <= self.high))"],
    "Discrete": ["(0 <= xs) and (xs < self.n)", "(xs >= 0) & (xs < self.n)", "(0 <= x) and (x < self.n)"],
    "MultiBinary": ["jnp.all((x == 0) | (x == 1))"],
    "MultiDiscrete": ["jnp.all((x >= 0) & (x < jnp.asarray(self.nvec)))", "jnp.all(x >= 0) & jnp.all(x < jnp.asarray(self.nvec))"],
}
GUARDS = {
    "Box": [("uncastable", "jnp.asarray(x) is None"), ("shape", "x.shape != self.shape")],
    "Discrete": [("uncastable", "jnp.asarray(x) is None"), ("rank", "x.ndim != 0"), ("integral", "~jnp.array_equal(xs, jnp.floor(xs))")],
    "MultiBinary": [("uncastable", "jnp.asarray(x) is None"), ("shape", "x.shape != self.shape")],
    "MultiDiscrete": [("uncastable", "jnp.asarray(x) is None"), ("shape", "x.shape != self.shape"), ("integral", "~jnp.array_equal(x, jnp.floor(x))")],
    "Tuple": [("container-type", "not isinstance(x, tuple)"), ("length", "len(x) != len(self.spaces)")],
    "Dict": [("key-set", "self.spaces.keys() != x.keys()")],
}
UNHASHABLE_METHODS = {"items", "keys", "values"}


def is_false(nz, n):
    return nz.canon(n) == ("kb", False)


def check(s):
    P = s.prog
    self_ = ("param", "self")
    x = ("param", "x")
    # ---------------------------------------------------------------- contains
    for cls in KINDS:
        ci, dc, fn = s.method(cls, "contains")
        loc = s.loc(cls, "contains")
        con = f"{cls}.contains"
        b = s.builder(inline={"try_cast"})
        nz = Normalizer(b)
        paths = live(s.paths(b, cls, "contains"))
        accept = [p for p in paths if not is_false(nz, p.ret)]
        reject = [p for p in paths if is_false(nz, p.ret)]
        s.ob("C14.3", con, len(accept) == 1, "exactly one accepting path; all others return False", loc, key="accepting-paths", detail=f"{len(accept)} accepting / {len(reject)} rejecting")
        # C14.1 ------------------------------------------------------
        for p in paths:
            kd = Kinds(P, b, fn, ci, conds=p.conds, extra={x: (UNKNOWN, UNKNOWN)})
            k, sh = kd.of(p.ret)
            axis_red = [c for c in walk(p.ret) if isinstance(c, tuple) and c and c[0] == "call" and (
                (c[1] in (("global", "jax.numpy.all"), ("global", "jax.numpy.any")) or (isinstance(c[1], tuple) and c[1][0] == "attr" and c[1][2] in ("all", "any")))
                and ("axis" in dict((a, v) for a, v in c[3] if a) or len(c[2]) > (1 if c[1][0] == "global" else 0)))]
            tag = "accept" if p in accept else "reject"
            if axis_red:
                s.ob("C14.1", con, False, "contains answers with a scalar Boolean (no axis-wise reduction of an operand of unknown rank)", loc, key="non-scalar-reduction",
                     detail=show(p.ret, maxlen=200), necessary_for="contains(x) answers with a scalar boolean for every shape the space can have")
            elif k == BOOL and sh == SCALAR:
                s.ob("C14.1", f"{con}[{tag}]", True, "the returned value is a Boolean scalar", loc)
            elif k not in (BOOL, UNKNOWN):
                s.ob("C14.1", con, False, "contains returns a Boolean", loc, key="non-boolean", detail=f"{k}/{sh}: {show(p.ret, maxlen=200)}")
            else:
                s.undecide("C14.1", con, f"kind {k}/{sh} for {show(p.ret, maxlen=120)}")
                s.ob("C14.1", f"{con}[{tag}]", True, "no non-scalar construct on this path (kind abstraction undecided, counted as such)", loc)
        if len(accept) != 1:
            continue
        pa = accept[0]
        bind = {"self": self_, "x": x, "xs": ("call", ("attr", x, "squeeze"), (), ())}
        # C14.2 ------------------------------------------------------
        if cls in ACCEPT:
            got = nz.canon(pa.ret)
            wants = [nz.canon(s.ref(b, e, bind)) for e in ACCEPT[cls]]
            s.ob("C14.2", con, got in wants, "the accepting predicate is the two-sided inclusive bound test of this kind", loc, key="bounds-predicate",
                 detail=f"code:      {show_term(got, 400)}\naccepted: {' | '.join(show_term(w, 200) for w in wants)}",
                 necessary_for="true exactly for values within the inclusive bounds; negative or too-large indices are rejected")
        else:
            # containers: conjunction over all components
            comps = [c for c in walk(pa.ret) if isinstance(c, tuple) and c and c[0] == "comp"]
            ok = len(comps) == 1 and any(isinstance(c, tuple) and c[0] == "call" and isinstance(c[1], tuple) and c[1][0] == "attr" and c[1][2] == "contains" for c in walk(comps[0][2]))
            red = pa.ret
            ok_all = isinstance(red, tuple) and red[0] == "call" and ((isinstance(red[1], tuple) and red[1][0] == "attr" and red[1][2] == "all" and not red[2] and not red[3])
                                                                          or (red[1] == ("global", "jax.numpy.all") and len(red[2]) == 1 and not red[3])
                                                                          or red[1] == ("global", "all"))
            s.ob("C14.2", con, ok and ok_all, "membership is the conjunction (all) of component.contains over every component", loc, key="component-conjunction",
                 detail=show(pa.ret, maxlen=300), necessary_for="nested spaces: every component must be a member")
            if ok:
                it = comps[0][3][0][0]
                src = {n_ for n_ in walk(it) if n_ == ("attr", self_, "spaces")}
                # a Dict may equally iterate the candidate's keys: the key-set guard (C14.3) makes the two key sets equal on the accepting path
                s.ob("C14.2", con, bool(src) or (cls == "Dict" and x in set(walk(it))), "the components iterated are self.spaces (or, for a Dict, the equal key set of x)", loc,
                     key="component-source", detail=show(it, maxlen=120))
                s.ob("C14.2", con, pairing_ok(cls, comps[0], "contains", x), "each component space tests the value stored under its own key (Dict) / at its own position (Tuple)",
                     loc, key="component-pairing", detail=pairing_show(cls, comps[0]),
                     necessary_for="a Dict value whose keys come in another order than the space's is judged key by key (Gymnasium sorts keys); components are never cross-paired")
        # C14.3 ------------------------------------------------------
        for gname, gexpr in GUARDS[cls]:
            # the single accepting path is reachable only when the guard is false (whatever the spelling, nesting or merging of the tests);
            # every other path returns False (accepting-paths), so a value the guard describes is rejected
            hit = entails(nz, pa.conds, s.ref(b, gexpr, bind)) is False
            s.ob("C14.3", f"{con}.{gname}", hit, f"every value with `{gexpr}` is rejected (the accepting path requires the negation)", loc, key=f"guard-{gname}",
                 detail="accepting path: " + "; ".join(f"{show(t, maxlen=80)}={v}" for t, v in pa.conds),
                 necessary_for="wrong shapes, non-integral values and foreign types are rejected")
        if cls == "Dict":
            # the accepting path requires x to be a mapping of the expected type, however the test is spelled or merged with its neighbours
            # (`not isinstance(x, OrderedDict) or keys differ` is one guard as good as two): some isinstance(x, T) atom of the path's
            # tests is entailed by them
            atoms = {c_ for t_, _v in pa.conds for c_ in walk(t_) if isinstance(c_, tuple) and c_ and c_[0] == "call" and c_[1] == ("global", "isinstance") and c_[2] and c_[2][0] == x}
            okd = any(entails(nz, pa.conds, a_) is True for a_ in atoms)
            s.ob("C14.3", f"{con}.container-type", okd, "values that are not mappings of the expected type are rejected (the accepting path requires isinstance(x, <mapping type>))", loc,
                 key="guard-container-type", detail="; ".join(f"{show(t, maxlen=80)}={v}" for t, v in pa.conds))
    # ---------------------------------------------------------------- __eq__ / __hash__
    for cls in KINDS:
        ci, dc, fn = s.method(cls, "__eq__")
        loc = s.loc(cls, "__eq__")
        con = f"{cls}.__eq__"
        b = s.builder(inline=set())
        nz = Normalizer(b)
        paths = live(s.paths(b, cls, "__eq__"))
        other = ("param", "other")
        own = ("call", ("global", "isinstance"), (other, ("global", ci.qualname)), ())
        first = {p.conds[0][0] for p in paths if p.conds}
        s.ob("C14.4", con, first == {own}, f"the first guard is isinstance(other, {cls})", loc, key="eq-class-guard",
             detail="; ".join(show(t, maxlen=100) for t in first), necessary_for="equality holds only between spaces of equal structure (never with foreign types)")
        rej = [p for p in paths if p.conds and p.conds[0] == (own, False)]
        s.ob("C14.4", con, all(is_false(nz, p.ret) for p in rej) and len(rej) >= (1 if first == {own} else 0), "a foreign `other` compares unequal", loc, key="eq-foreign-false",
             detail="; ".join(show(p.ret, maxlen=60) for p in rej))
        acc = [p for p in paths if p not in rej]
        # the answer for an `other` of the own class, as one Boolean function of the comparisons made (early `return False`s and the
        # final expression merged): it must be their plain conjunction - true when all hold, false as soon as one fails
        disj = []
        for p in acc:
            lits = [t if v else ("un", "Not", t) for t, v in p.conds if t != own] + [p.ret]
            disj.append(("boolop", "And", tuple(lits)) if len(lits) > 1 else lits[0])
        if disj:
            whole_fn = nz.boolean(("boolop", "Or", tuple(disj)) if len(disj) > 1 else disj[0])
            if isinstance(whole_fn, tuple) and whole_fn and whole_fn[0] == "B":
                conj = whole_fn[2] == 1 << ((1 << len(whole_fn[1])) - 1)
            else:
                conj = whole_fn not in (("kb", True), ("kb", False))
            s.ob("C14.4", con, conj, "equality with a space of the same class is the conjunction of the comparisons made (all must hold)", loc, key="eq-conjunction",
                 detail=show_term(whole_fn, 300), necessary_for="equality holds exactly between spaces of equal parameters")
        eq_fields = set()
        # (the comparisons are spread over the paths when the method returns early; eq-conjunction above makes each of them count)
        all_nodes = set()
        for p in acc:
            all_nodes |= set(walk(("tuple", tuple([p.ret] + [t for t, v in p.conds]))))
        approx = sorted({n_[1][1] for n_ in all_nodes if isinstance(n_, tuple) and n_ and n_[0] == "call" and isinstance(n_[1], tuple) and n_[1][0] == "global"
                         and n_[1][1].rsplit(".", 1)[-1] in ("allclose", "isclose", "assert_allclose", "approx")})
        s.ob("C14.4", con, not approx, "parameters are compared exactly (no tolerance-based comparison: it is not transitive and cannot agree with a hash)", loc, key="eq-exact",
             detail=", ".join(approx), necessary_for="equality holds exactly between spaces of equal parameters and agrees with hashing")
        for F in PARAM_FIELDS[cls]:
            both = ("attr", self_, F) in all_nodes and ("attr", other, F) in all_nodes
            if both:
                eq_fields.add(F)
            s.ob("C14.4", f"{con}.{F}", both, f"parameter field `{F}` of both operands enters the comparison", loc, key=f"eq-field-{F}",
                 detail="; ".join(show(p.ret, maxlen=120) for p in acc), necessary_for="equality holds exactly between spaces of equal parameters")
        for p in acc:
            whole = ("tuple", tuple([p.ret] + [t for t, v in p.conds]))
            zips = [c for c in walk(whole) if isinstance(c, tuple) and c and c[0] == "comp" and any(
                isinstance(it, tuple) and it[0] == "call" and it[1] == ("global", "zip") and not dict((a, v) for a, v in it[3] if a).get("strict") == TRUE
                for it, cs in c[3])]
            if zips:
                guarded = False
                for c in walk(whole):
                    if isinstance(c, tuple) and c and c[0] == "cmp" and c[1] in ("Eq", "NotEq"):
                        sides = (c[2], c[3])
                        if all(isinstance(sd, tuple) and sd[0] == "call" and (sd[1] == ("global", "len") or (isinstance(sd[1], tuple) and sd[1][0] == "attr" and sd[1][2] == "keys"))
                               for sd in sides):
                            deps = [set(walk(sd)) for sd in sides]
                            if any(("attr", self_, "spaces") in d for d in deps) and any(("attr", other, "spaces") in d for d in deps):
                                guarded = True
                s.ob("C14.4", con, guarded, "a zip-based component comparison is accompanied by a length / key-set equality", loc, key="zip-without-length",
                     detail=show(p.ret, maxlen=240), necessary_for="a space is not equal to a strict prefix of itself")
        # hash
        ch, dch, fh = s.method(cls, "__hash__")
        loch = s.loc(cls, "__hash__")
        conh = f"{cls}.__hash__"
        bh = s.builder(inline=set())
        for p in live(s.paths(bh, cls, "__hash__")):
            nodes = set(walk(p.ret))
            used = {F for F in ci.fields if ("attr", self_, F) in nodes}
            for c_ in P.mro(ci):
                used |= {F for F in c_.fields if ("attr", self_, F) in nodes}
            s.ob("C14.5", conh, used == eq_fields and bool(used), "__hash__ reads exactly the fields __eq__ compares", loch, key="hash-fields",
                 detail=f"hash reads {sorted(used)}, eq compares {sorted(eq_fields)}", necessary_for="equality agrees with hashing")
            hs = [c for c in walk(p.ret) if isinstance(c, tuple) and c and c[0] == "call" and c[1] == ("global", "hash")]
            bad = []
            for h in hs:
                for a in h[2]:
                    elems = a[1] if isinstance(a, tuple) and a[0] == "tuple" else (a,)
                    for e in elems:
                        if isinstance(e, tuple) and e[0] == "call" and isinstance(e[1], tuple) and e[1][0] == "attr" and e[1][2] in UNHASHABLE_METHODS and not e[2]:
                            bad.append(show(e))
                        if isinstance(e, tuple) and e[0] in ("list", "dict", "set"):
                            bad.append(show(e, maxlen=60))
                        if isinstance(e, tuple) and e[0] == "attr" and e[1] == self_:
                            fi = P.resolve_attr(ci, e[2])
                            if fi and fi[0] == "field" and fi[2].annotation is not None and "Array" in __import__("ast").unparse(fi[2].annotation):
                                bad.append(show(e) + " (array)")
            if cls == "Dict":
                # Dict.__eq__ compares plain dicts (key order is not part of equality: C14.4), so the hash must not depend on key order
                # either: it has to go through an order-free container (frozenset) or a sorted sequence of the items
                order_free = any(isinstance(c, tuple) and c and c[0] == "call" and c[1] in (("global", "frozenset"), ("global", "sorted")) for h_ in hs for c in walk(h_))
                s.ob("C14.5", conh, order_free, "Dict.__hash__ is key-order-insensitive (frozenset / sorted items), like Dict.__eq__", loch, key="hash-order-sensitive",
                     detail="; ".join(show(h_, maxlen=120) for h_ in hs), necessary_for="equal spaces (also after a Gymnasium round trip, which sorts keys) have equal hashes")
            s.ob("C14.5", conh, not bad and bool(hs), "hash() is applied to hashable values only (no dict views, lists, dicts, sets, arrays)", loch, key="unhashable-argument",
                 detail="; ".join(bad) or f"{len(hs)} hash call(s)", necessary_for="hash(space) does not raise")
    # ---------------------------------------------------------------- C14.6 sample laws
    check_samples(s)
    # ---------------------------------------------------------------- C14.7 canonical
    check_canonical(s)
    # ---------------------------------------------------------------- C14.8 flatten / flat_size
    for cls in ("Dict", "Tuple"):
        b = s.builder(inline=set())
        pf = one(s.paths(b, cls, "flatten_sample"), f"{cls}.flatten_sample")
        ps = one(s.paths(b, cls, "flat_size"), f"{cls}.flat_size")
        loc = s.loc(cls, "flatten_sample")
        # the traversal is the comprehension handed to concatenate / sum (a sequence prepared beforehand and zipped in is read through it)
        def outer_comps(r):
            args = r[2] if isinstance(r, tuple) and r and r[0] == "call" else ()
            return [c for c in args if isinstance(c, tuple) and c and c[0] == "comp"]
        cf, cs = outer_comps(pf.ret), outer_comps(ps.ret)
        ok = len(cf) == 1 and len(cs) == 1
        s.ob("C14.8", f"{cls}.flatten_sample", ok, "flatten_sample and flat_size each traverse the components once", loc, key="one-traversal", detail=f"{len(cf)}/{len(cs)}")
        if not ok:
            continue
        for nm, c in (("flatten_sample", cf[0]), ("flat_size", cs[0])):
            it = c[3][0][0]
            bad = [n_ for n_ in walk(it) if isinstance(n_, tuple) and n_ and n_[0] == "call" and n_[1] in (("global", "sorted"), ("global", "reversed"), ("global", "set"))]
            src = ("attr", self_, "spaces") in set(walk(it))
            s.ob("C14.8", f"{cls}.{nm}", src and not bad, "components are iterated from self.spaces in stored order (no sorting / reversal)", loc, key=f"order-{nm}",
                 detail=show(it, maxlen=120), necessary_for="flatten_sample returns flat_size numbers, component by component in one order")
        s.ob("C14.8", f"{cls}.flatten_sample", pairing_ok(cls, cf[0], "flatten_sample", ("param", "sample"), own_order=True),
             "each component space flattens the sample component stored under its own key / position, in self.spaces order", loc, key="flatten-pairing",
             detail=pairing_show(cls, cf[0]), necessary_for="the flat vector determines the sample: component i of the vector is component i of the space")
        s.ob("C14.8", f"{cls}.flat_size", pairing_ok(cls, cs[0], "flat_size", None, attr=True), "flat_size adds every component's flat_size once", s.loc(cls, "flat_size"),
             key="flat-size-pairing", detail=pairing_show(cls, cs[0]))
        okc = isinstance(pf.ret, tuple) and pf.ret[0] == "call" and pf.ret[1] == ("global", "jax.numpy.concatenate")
        s.ob("C14.8", f"{cls}.flatten_sample", okc, "the flat vector is the concatenation of the component vectors", loc, key="concatenate", detail=show(pf.ret, maxlen=160))
        oks = isinstance(ps.ret, tuple) and ps.ret[0] == "call" and ps.ret[1] == ("global", "sum")
        s.ob("C14.8", f"{cls}.flat_size", oks, "flat_size is the sum of the component flat sizes", s.loc(cls, "flat_size"), key="sum-sizes", detail=show(ps.ret, maxlen=160))
    for cls, want in (("Box", "reduce(operator.mul, self.shape, 1)"), ("Discrete", "1"), ("MultiBinary", "reduce(operator.mul, self.n, 1)"), ("MultiDiscrete", "len(self.nvec)")):
        b = s.builder(inline={"shape"})  # a flat_size written over self.shape is read through the shape property of the kind
        nz = Normalizer(b)
        ps = one(s.paths(b, cls, "flat_size"), f"{cls}.flat_size")
        pf = one(s.paths(b, cls, "flatten_sample"), f"{cls}.flatten_sample")
        s.eq("C14.8", f"{cls}.flat_size", nz, ps.ret, s.ref(b, want, {"self": self_, "reduce": ("global", "functools.reduce"), "operator": ("global", "operator")}),
             f"flat_size == {want}", s.loc(cls, "flat_size"), key="flat-size")
        s.eq("C14.8", f"{cls}.flatten_sample", nz, pf.ret, s.ref(b, "jnp.asarray(sample, dtype=float).ravel()", {"sample": ("param", "sample")}),
             "flatten_sample == ravel of the sample as float (one number per element)", s.loc(cls, "flatten_sample"), key="flatten-ravel")
    # ---------------------------------------------------------------- C14.11 foreign inputs are rejected, not raised on
    check_foreign_inputs(s)
    # ---------------------------------------------------------------- C14.9 conversions
    check_conversions(s)
    from .util import fields_initialised
    fields_initialised(s, "C14.4", [c for m_ in sorted(P.modules.values(), key=lambda m__: m__.name) if m_.name.startswith("lerax.space") for c in m_.classes.values()],
                       necessary_for="every space construction yields a space")
    # ---------------------------------------------------------------- C14.10 constructor wiring
    from .util import ctor_wiring
    n_w = 0
    for cls in KINDS:
        n_w += ctor_wiring(s, "C14.10", cls, necessary_for="the bounds / sizes / components a space is built with are the ones it tests membership against and samples from")
    # a space is a value: its parameters must not change after construction. A constructor that stores the caller's MUTABLE container
    # (a mapping / list argument kept as is, e.g. "only re-wrap when it is not an OrderedDict already") lets a later mutation by the
    # caller change membership, equality and hash of the existing space
    import ast as _ast
    for cls in KINDS:
        ci, dc, fn = s.method(cls, "__init__")
        ann = {a.arg: (_ast.unparse(a.annotation) if a.annotation is not None else "") for a in fn.args.posonlyargs + fn.args.args + fn.args.kwonlyargs}
        mutable = {k_ for k_, t_ in ann.items() if any(w in t_ for w in ("Mapping", "dict", "Dict", "list", "List", "MutableSequence"))}
        bal = s.builder(inline=set())
        aliased = set()
        for p in live(s.paths(bal, cls, "__init__")):
            for attr, v in p.self_attrs.items():
                if isinstance(v, tuple) and len(v) == 2 and v[0] == "param" and v[1] in mutable:
                    aliased.add(f"self.{attr} = {v[1]}")
        s.ob("C14.10", f"{cls}.__init__", not aliased, "mutable container arguments are copied into the space (no path stores the caller's own mapping / list)", s.loc(cls, "__init__"),
             key="aliased-mutable-argument", detail="; ".join(sorted(aliased)), necessary_for="membership, equality and hash of a space do not change during its lifetime")
    for r_, n in (("C14.10", 6), ("C14.1", 12), ("C14.2", 10), ("C14.3", 20), ("C14.4", 20), ("C14.5", 12), ("C14.6", 12), ("C14.7", 3), ("C14.8", 22), ("C14.9", 24)):
        s.floor(r_, n)


BOX_SAMPLE = """
ba = jnp.isfinite(self.high)
bb = jnp.isfinite(self.low)
s0 = jnp.empty(self.shape, dtype=self.low.dtype)
s1 = jnp.where(ba & bb, jr.uniform(K, self.shape, minval=self.low, maxval=self.high), s0)
s2 = jnp.where(~ba & ~bb, jr.normal(K, self.shape), s1)
s3 = jnp.where(~bb & ba, self.high - jr.exponential(K, self.shape), s2)
s4 = jnp.where(bb & ~ba, self.low + jr.exponential(K, self.shape), s3)
"""


# what jax.numpy.asarray raises for values that are not array-likes of the default width (trusted fact about the library, observed for:
# a str / object / dict -> TypeError; None, a ragged list -> ValueError; a Python int beyond the default integer width -> OverflowError)
ASARRAY_RAISES = {"TypeError": {"TypeError", "Exception", "BaseException"},
                  "ValueError": {"ValueError", "Exception", "BaseException"},
                  "OverflowError": {"OverflowError", "ArithmeticError", "Exception", "BaseException"}}


def check_foreign_inputs(s, rule="C14.11"):
    """`contains` answers False for foreign values instead of raising: every kind converts its raw argument through try_cast before it
    looks at it, and try_cast turns each exception class jnp.asarray raises for a non-array-like (TypeError, ValueError, OverflowError)
    into "not castable" (None), which every contains maps to False (C14.3)."""
    import ast as _ast
    m, fn = s.function("lerax.space.utils", "try_cast")
    loc = s.prog.loc(m, fn)
    tries = [n for n in _ast.walk(fn) if isinstance(n, _ast.Try)]
    covered, swallow_ok = set(), True
    for t in tries:
        guarded = any(isinstance(c, _ast.Call) and _ast.unparse(c.func).endswith("asarray") for b_ in t.body for c in _ast.walk(b_))
        if not guarded:
            continue
        for h in t.handlers:
            names = {"BaseException"} if h.type is None else {_ast.unparse(e).split(".")[-1] for e in (h.type.elts if isinstance(h.type, _ast.Tuple) else [h.type])}
            returns_none = any(isinstance(r, _ast.Return) and (r.value is None or (isinstance(r.value, _ast.Constant) and r.value.value is None)) for r in _ast.walk(h))
            reraises = any(isinstance(r, _ast.Raise) for r in _ast.walk(h))
            if returns_none and not reraises:
                covered |= names
            else:
                swallow_ok = swallow_ok and not (names & {"TypeError", "ValueError", "OverflowError"})
    for exc, sup in ASARRAY_RAISES.items():
        s.ob(rule, f"try_cast[{exc}]", bool(covered & sup), f"a value jnp.asarray rejects with {exc} is reported as not castable (None), not raised", loc, key=f"foreign-{exc}",
             detail=f"handled: {sorted(covered)}", necessary_for="foreign types and too-large indices are rejected: contains(x) answers with a scalar boolean")
    # ... and it reports "not castable" for nothing else: every value jnp.asarray accepts comes back as that array (a dtype test here -
    # "numbers only" - turns the Boolean arrays MultiBinary samples, and canonical() returns, into non-members of their own space)
    in_handler = {id(n) for t in tries for h in t.handlers for n in _ast.walk(h)}
    stray = [f"line {r.lineno}: {_ast.unparse(r)}" for r in _ast.walk(fn) if isinstance(r, _ast.Return) and id(r) not in in_handler
             and (r.value is None or (isinstance(r.value, _ast.Constant) and r.value.value is None))]
    s.ob(rule, "try_cast", not stray, "a value that jnp.asarray accepts is never reported as not castable (None is returned from the exception handlers only)", loc,
         key="cast-rejects-castable", detail="; ".join(stray), necessary_for="sample() and canonical() always return members (Boolean arrays for MultiBinary included)")
    self_ = ("param", "self")
    for cls in KINDS:
        ci, dc, fn_c = s.method(cls, "contains")
        if cls in ("Dict", "Tuple"):
            continue  # containers test their argument's type and delegate component-wise
        # the raw argument is only ever handed to try_cast
        raw_uses = [n for n in _ast.walk(fn_c) if isinstance(n, _ast.Name) and n.id == "x" and isinstance(n.ctx, _ast.Load)]
        first = next((st for st in fn_c.body if not (isinstance(st, _ast.Expr) and isinstance(st.value, _ast.Constant))), None)
        ok = isinstance(first, _ast.Assign) and len(first.targets) == 1 and isinstance(first.targets[0], _ast.Name) and first.targets[0].id == "x" \
            and isinstance(first.value, _ast.Call) and _ast.unparse(first.value.func).split(".")[-1] == "try_cast" and len(first.value.args) == 1 \
            and isinstance(first.value.args[0], _ast.Name) and first.value.args[0].id == "x"
        s.ob(rule, f"{cls}.contains", ok and bool(raw_uses), "the first thing contains does with its argument is x = try_cast(x)", s.loc(cls, "contains"), key="cast-first",
             detail=_ast.unparse(first)[:80] if first is not None else "", necessary_for="foreign types are rejected")
    s.floor(rule, 7)


def pairing_terms(cls, comp):
    self_ = ("param", "self")
    sp = ("attr", self_, "spaces")
    ew = element_at_pos(comp, dicts=(sp, ("param", "x"), ("param", "sample")) if cls == "Dict" else ())
    return sp, ew


def pairing_show(cls, comp):
    sp, ew = pairing_terms(cls, comp)
    return "not a single unfiltered generator" if ew is None else f"element: {show(ew[0], maxlen=300)}; iterates {[show(d_, maxlen=60) for d_ in ew[1]]}"


def pairing_ok(cls, comp, method, value, kw=None, keyed=False, attr=False, own_order=False, drop_kw=False):
    """element == spaces[K].<method>(value[K]) with one and the same K (a key of one of the two dicts / the position), iterating self.spaces."""
    sp, ew = pairing_terms(cls, comp)
    if ew is None:
        return False
    elt, domains = ew
    if sp not in domains and not (cls == "Dict" and value in domains):
        return False
    ks = [("key", sp), ("key", value)] if cls == "Dict" else [POS]
    if value is None or keyed or own_order:
        ks = ks[:1]
        if sp not in domains:
            return False
    if drop_kw:
        def strip(n):
            return ("call", n[1], n[2], ()) if isinstance(n, tuple) and n and n[0] == "call" and isinstance(n[1], tuple) and n[1][0] == "attr" and n[1][2] == method else n
        elt = ("tuple", tuple(strip(e) for e in elt[1])) if isinstance(elt, tuple) and elt and elt[0] == "tuple" else strip(elt)
    for K in ks:
        comp_space = ("sub", sp, K)
        if attr:
            want = ("attr", comp_space, method)
        else:
            want = ("call", ("attr", comp_space, method), (("sub", value, K),) if value is not None else (), kw(K) if kw else ())
        if keyed and cls == "Dict":
            want = ("tuple", (K, want))
        if elt == want:
            return True
    return False


def keyless(n):
    """Replace the first positional (key) argument of jax.random samplers by a wildcard."""
    from ..vgraph import KEY, mapnodes

    def f(c):
        if c and c[0] == "call" and isinstance(c[1], tuple) and c[1][0] == "global" and c[1][1].startswith("jax.random.") and c[1][1] != "jax.random.split" and c[2]:
            return ("call", c[1], (KEY,) + tuple(c[2][1:]), c[3])
        return c

    return mapnodes(n, f)


def check_samples(s):
    from ..vgraph import KEY
    self_ = ("param", "self")
    b = s.builder(inline={"shape"})
    nz = Normalizer(b)
    p = one(s.paths(b, "Box", "sample"), "Box.sample")
    ref = s.refprog(b, BOX_SAMPLE, {"self": self_, "K": KEY})
    s.eq("C14.6", "Box.sample", nz, keyless(p.ret), keyless(ref["s4"]),
         "Box.sample: bounded -> uniform(low, high); unbounded -> normal; upper-bounded -> high − exponential; lower-bounded -> low + exponential", s.loc("Box", "sample"),
         key="box-sample-law", necessary_for="samples are members of the box for every combination of finite and infinite bounds")
    keys = [c[2][0] for c in walk(p.ret) if isinstance(c, tuple) and c and c[0] == "call" and isinstance(c[1], tuple) and c[1][0] == "global"
            and c[1][1] in ("jax.random.uniform", "jax.random.normal", "jax.random.exponential")]
    s.ob("C14.6", "Box.sample", len(keys) == 4 and len(set(keys)) == 4, "the four draws use four distinct keys", s.loc("Box", "sample"), key="box-sample-keys", detail=str(len(set(keys))))
    b = s.builder(inline=set())
    nz = Normalizer(b)
    cases = set()
    for p in live(s.paths(b, "Discrete", "sample")):
        nomask = entails(nz, p.conds, ("cmp", "Is", ("param", "mask"), NONE))
        if nomask is None:
            raise AnalysisError("Discrete.sample: a path does not decide whether a mask was given")
        cases.add(nomask)
        m = "jnp.ones((self.n,), dtype=bool)" if nomask else "jnp.asarray(mask)"
        want = s.ref(b, f"jr.choice(key, self.n, p=({m}) / jnp.sum({m}))", {"self": self_, "key": ("param", "key"), "mask": ("param", "mask")})
        s.eq("C14.6", f"Discrete.sample[mask={'None' if nomask else 'given'}]", nz, p.ret, want, "Discrete.sample == choice(key, n, p = mask / sum(mask))", s.loc("Discrete", "sample"),
             key="discrete-sample-law", necessary_for="a masked-out action has probability zero; samples lie in [0, n)")
    if cases != {True, False}:
        raise AnalysisError("Discrete.sample: expected masked and unmasked cases")
    p = one(s.paths(b, "MultiDiscrete", "sample"), "MultiDiscrete.sample")
    want = s.ref(b, "jr.randint(key, shape=self.shape, minval=0, maxval=jnp.array(self.nvec, dtype=int), dtype=int)", {"self": self_, "key": ("param", "key")})
    s.eq("C14.6", "MultiDiscrete.sample", nz, p.ret, want, "MultiDiscrete.sample == randint(key, shape, 0, nvec)", s.loc("MultiDiscrete", "sample"), key="multidiscrete-sample-law")
    p = one(s.paths(b, "MultiBinary", "sample"), "MultiBinary.sample")
    want = s.ref(b, "jr.bernoulli(key, shape=self.shape)", {"self": self_, "key": ("param", "key")})
    s.eq("C14.6", "MultiBinary.sample", nz, p.ret, want, "MultiBinary.sample == bernoulli(key, shape=shape)", s.loc("MultiBinary", "sample"), key="multibinary-sample-law")
    for cls in ("Dict", "Tuple"):
        p = one(s.paths(b, cls, "sample"), f"{cls}.sample")
        comps = [c for c in walk(p.ret) if isinstance(c, tuple) and c and c[0] == "comp"]
        ok = len(comps) == 1
        if ok:
            # one iteration of the generator, bound variables replaced by what they denote: the sampling call must take, as its key, the
            # element at the *current position* of jr.split(key, len(self.spaces)) -- however the zip is arranged and the targets are named
            sp_, ew = pairing_terms(cls, comps[0])
            want_split = nz.canon(s.ref(b, "jr.split(key, len(self.spaces))", {"self": self_, "key": ("param", "key")}))
            ok = ew is not None
            if ok:
                elt, domains = ew
                splits = [d_ for d_ in domains if nz.canon(d_) == want_split]
                samp = [n_ for n_ in walk(elt) if isinstance(n_, tuple) and n_ and n_[0] == "call" and isinstance(n_[1], tuple) and n_[1][0] == "attr" and n_[1][2] == "sample"]
                ok = len(splits) == 1 and len(samp) == 1 and dict((a, v) for a, v in samp[0][3] if a).get("key") == ("sub", splits[0], POS)
        s.ob("C14.6", f"{cls}.sample", ok, "each component is sampled with its own split of the key, zipped in component order", s.loc(cls, "sample"), key="container-sample",
             detail=show(p.ret, maxlen=300), necessary_for="nested samples are members component by component")
        if len(comps) == 1:
            s.ob("C14.6", f"{cls}.sample", pairing_ok(cls, comps[0], "sample", None, keyed=True, drop_kw=True),
                 "the sample stored under a key / at a position is drawn from the component space of that key / position", s.loc(cls, "sample"), key="sample-pairing",
                 detail=pairing_show(cls, comps[0]), necessary_for="nested samples are members component by component")
            outer = p.ret
            want_outer = ("global", "collections.OrderedDict") if cls == "Dict" else ("global", "tuple")
            s.ob("C14.6", f"{cls}.sample", isinstance(outer, tuple) and outer[0] == "call" and outer[1] == want_outer and outer[2] == (comps[0],),
                 f"the sample is a{'n OrderedDict' if cls == 'Dict' else ' tuple'} of the component samples (the type contains() accepts)", s.loc(cls, "sample"), key="sample-container-type",
                 detail=show(outer, maxlen=120))
    for cls in ("Dict", "Tuple"):
        p = one(s.paths(b, cls, "canonical"), f"{cls}.canonical")
        comps = [c for c in walk(p.ret) if isinstance(c, tuple) and c and c[0] == "comp"]
        want_outer = ("global", "collections.OrderedDict") if cls == "Dict" else ("global", "tuple")
        ok = len(comps) == 1 and isinstance(p.ret, tuple) and p.ret[0] == "call" and p.ret[1] == want_outer and p.ret[2] == (comps[0],) \
            and pairing_ok(cls, comps[0], "canonical", None, keyed=True)
        s.ob("C14.7", f"{cls}.canonical", ok, "canonical() is the container of every component's canonical(), each under its own key / position", s.loc(cls, "canonical"),
             key="container-canonical", detail=pairing_show(cls, comps[0]) if comps else show(p.ret, maxlen=200), necessary_for="canonical() of a nested space is a member")


def check_canonical(s):
    """C14.7: arithmetic on a bound inside canonical() must be under a finiteness guard of that bound."""
    self_ = ("param", "self")
    b = s.builder(inline=set())
    nz = Normalizer(b)
    p = one(s.paths(b, "Box", "canonical"), "Box.canonical")
    loc = s.loc("Box", "canonical")
    low, high = ("attr", self_, "low"), ("attr", self_, "high")
    fin = {low: nz.canon(s.ref(b, "jnp.isfinite(self.low)", {"self": self_})), high: nz.canon(s.ref(b, "jnp.isfinite(self.high)", {"self": self_}))}
    problems = []

    def implied(guards, atom):
        """is `atom` true under the conjunction of (canonical predicate, polarity) guards? (truth-table check)"""
        for g, pol in guards:
            atoms = g[1] if isinstance(g, tuple) and g and g[0] == "B" else (g,)
            if atom not in atoms:
                continue
            if not (isinstance(g, tuple) and g and g[0] == "B"):
                if pol:
                    return True
                continue
            i = atoms.index(atom)
            tab = g[2]
            n = len(atoms)
            ok = True
            for j in range(1 << n):
                val = bool((tab >> j) & 1)
                if val == pol and not (j >> i) & 1:
                    ok = False
            if ok:
                return True
        return False

    def visit(n, guards):
        if isinstance(n, tuple) and n and n[0] == "ite":
            c = nz.boolean(n[1])
            visit(n[2], guards + [(c, True)])
            visit(n[3], guards + [(c, False)])
            return
        # a leaf expression: which bounds does it read?
        for bnd in (low, high):
            if bnd in set(walk(n)) and not implied(guards, fin[bnd]):
                problems.append(f"{show(n, maxlen=80)} reads {show(bnd)} without a finiteness guard")

    visit(p.ret, [])
    # membership by cases: under what the selections establish about the finiteness of each bound, the selected expression is a point
    # of [low, high]: the midpoint or an end when both are finite, the finite end (or a constant step inside) when one is, any finite
    # constant when none is
    from ..norm import padd, pneg
    from .util import entails as _ent
    fin_raw = {low: s.ref(b, "jnp.isfinite(self.low)", {"self": self_}), high: s.ref(b, "jnp.isfinite(self.high)", {"self": self_})}
    mid = nz.canon(s.ref(b, "(self.low + self.high) / 2", {"self": self_}))
    outside = []

    def const_step(leaf, bnd):
        d = padd(nz.poly(leaf), pneg(nz.poly(bnd)))
        if not d:
            return 0
        if list(d.keys()) == [()]:
            return d[()]
        return None

    def member(leaf, lf, hf):
        c = nz.canon(leaf)
        if lf and hf:
            return c in (mid, nz.canon(low), nz.canon(high))
        if lf:
            st = const_step(leaf, low)
            return st is not None and st >= 0
        if hf:
            st = const_step(leaf, high)
            return st is not None and st <= 0
        pc = nz.poly(leaf)
        return not pc or list(pc.keys()) == [()]

    def visit2(n, guards):
        if isinstance(n, tuple) and n and n[0] == "ite":
            visit2(n[2], guards + [(n[1], True)])
            visit2(n[3], guards + [(n[1], False)])
            return
        lf, hf = (_ent(nz, guards, fin_raw[low]), _ent(nz, guards, fin_raw[high])) if guards else (None, None)
        for lf_ in ((True, False) if lf is None else (lf,)):
            for hf_ in ((True, False) if hf is None else (hf,)):
                if not member(n, lf_, hf_):
                    outside.append(f"{show(n, maxlen=80)} when low is {'finite' if lf_ else 'infinite'} and high is {'finite' if hf_ else 'infinite'}")

    visit2(p.ret, [])
    s.ob("C14.7", "Box.canonical", not outside, "in each finiteness case canonical() selects a point of [low, high] (midpoint or end / finite end / finite constant)", loc,
         key="canonical-member", detail="; ".join(outside[:4]) or show(p.ret, maxlen=300), necessary_for="canonical() is a member of the space")
    s.ob("C14.7", "Box.canonical", not problems,
         "canonical() reads a bound only where that bound is known finite (the same isfinite tests sample() branches on)", loc, key="unguarded-infinite-bound",
         detail="; ".join(problems) or show(p.ret, maxlen=300), necessary_for="canonical() returns a member also for boxes with infinite bounds (no inf − inf = NaN)")
    # the bounded branch is a convex combination of the bounds; forming `high - low` first overflows to inf for the +-float-max bounds
    # Gymnasium uses for "unbounded" dimensions (CartPole-v1's velocities), so the canonical value would not be a member
    diffs = [x for x in walk(p.ret) if isinstance(x, tuple) and x and x[0] == "bin" and x[1] == "Sub" and {x[2], x[3]} == {low, high}]
    s.ob("C14.7", "Box.canonical", not diffs, "canonical() never forms high - low (it overflows for finite bounds of opposite sign near the float range)", loc, key="width-overflow",
         detail="; ".join(show(d, maxlen=80) for d in diffs[:2]), necessary_for="canonical() returns a member for every finite box, including the +-float-max boxes that come from Gymnasium")
    bs = s.builder(inline=set())
    ps = one(s.paths(bs, "Box", "sample"), "Box.sample")
    isf = [c for c in walk(ps.ret) if isinstance(c, tuple) and c and c[0] == "call" and c[1] == ("global", "jax.numpy.isfinite")]
    s.control(f"belief source: Box.sample branches on {len(isf)} isfinite(bound) tests")
    if len(isf) < 2:
        raise AnalysisError("Box.sample no longer branches on isfinite(bounds): the C14.7 contradiction rule lost its premise")


def check_conversions(s):
    P = s.prog
    b = s.builder(inline=set())
    # the kinds a conversion has to handle are the instantiable ones (no unsatisfied abstract method / variable): an abstract
    # intermediate base introduced between AbstractSpace and the kinds is not a kind of its own
    kinds_all = {c.name for c in P.subclasses("AbstractSpace") if not any(P.abstract_members(c))} | {"AbstractSpace"}
    table = {"Discrete": ("n", "n"), "Box": ("low", "low"), "Dict": ("spaces", "spaces"), "Tuple": ("spaces", "spaces"), "MultiBinary": ("n", "n"),
             "MultiDiscrete": ("nvec", "nvec")}
    # gym -> lerax
    m, fn = s.function("lerax.compatibility.gym", "gym_space_to_lerax_space")
    loc = P.loc(m, fn)
    paths = s.fpaths(b, "lerax.compatibility.gym", "gym_space_to_lerax_space")
    handled = {}
    for p in paths:
        trues = [t for t, v in p.conds if v and isinstance(t, tuple) and t[0] == "call" and t[1] == ("global", "isinstance") and t[2] and t[2][0] == ("param", "space")]
        if p.raised is not None:
            continue
        if len(trues) != 1:
            s.ob("C14.9", "gym_space_to_lerax_space", False, "each returning path is selected by exactly one isinstance test", loc, key="ambiguous-branch", detail=str(len(trues)))
            continue
        g = trues[0][2][1]
        gk = g[1].split(".")[-1] if g[0] == "global" else "?"
        r = p.ret
        lk = r[1].split(".")[-1] if isinstance(r, tuple) and r[0] == "record" else "?"
        handled[gk] = lk
        s.ob("C14.9", f"gym_space_to_lerax_space[{gk}]", gk == lk, f"gymnasium {gk} maps to lerax {gk}", loc, key="kind-mapping", detail=f"{gk} -> {lk}")
        f = fields(r)
        space = ("param", "space")
        need = {"Discrete": ["n"], "Box": ["low", "high", "shape"], "Dict": ["spaces"], "Tuple": ["spaces"], "MultiBinary": ["n"], "MultiDiscrete": ["nvec"]}.get(gk, [])
        for prm in need:
            v = f.get("arg:" + prm, f.get(prm))
            ok = v is not None and ("attr", space, prm) in set(walk(v))
            s.ob("C14.9", f"gym_space_to_lerax_space[{gk}].{prm}", ok, f"parameter `{prm}` is built from space.{prm}", loc, key=f"param-{prm}", detail=show(v or NONE, maxlen=160),
                 necessary_for="equality survives a round trip through the corresponding Gymnasium space")
    raising_default = [p for p in paths if p.raised is not None and not any(v for t, v in p.conds if isinstance(t, tuple) and t[0] == "call" and t[1] == ("global", "isinstance") and t[2] and t[2][0] == ("param", "space"))]
    s.ob("C14.9", "gym_space_to_lerax_space", set(handled) == kinds_all - {"AbstractSpace"} and len(raising_default) >= 1,
         "one branch per space kind, everything else raises", loc, key="exhaustive", detail=f"handled {sorted(handled)}; kinds {sorted(kinds_all)}")
    # lerax -> gym
    m, fn = s.function("lerax.compatibility.gym", "lerax_to_gym_space")
    loc = P.loc(m, fn)
    paths = s.fpaths(b, "lerax.compatibility.gym", "lerax_to_gym_space")
    handled = {}
    for p in paths:
        if p.raised is not None:
            continue
        trues = [t for t, v in p.conds if v and isinstance(t, tuple) and t[0] == "call" and t[1] == ("global", "isinstance") and t[2] and t[2][0] == ("param", "space")]
        if len(trues) != 1:
            continue
        lk = trues[0][2][1][1].split(".")[-1]
        r = p.ret
        gk = r[1][1].split(".")[-1] if isinstance(r, tuple) and r[0] == "call" and isinstance(r[1], tuple) and r[1][0] == "global" else "?"
        handled[lk] = gk
        s.ob("C14.9", f"lerax_to_gym_space[{lk}]", gk == lk and r[1][1].startswith("gymnasium.spaces."), f"lerax {lk} maps to gymnasium {lk}", loc, key="kind-mapping", detail=f"{lk} -> {gk}")
        space = ("param", "space")
        need = {"Discrete": ["n"], "Box": ["low", "high"], "Dict": ["spaces"], "Tuple": ["spaces"], "MultiBinary": ["n"], "MultiDiscrete": ["nvec"]}.get(lk, [])
        nodes = set(walk(r))
        for prm in need:
            s.ob("C14.9", f"lerax_to_gym_space[{lk}].{prm}", ("attr", space, prm) in nodes, f"the Gymnasium space is built from space.{prm}", loc, key=f"param-{prm}", detail=show(r, maxlen=200))
    raising_default = [p for p in paths if p.raised is not None]
    s.ob("C14.9", "lerax_to_gym_space", set(handled) == kinds_all - {"AbstractSpace"} and len(raising_default) >= 1, "one branch per space kind, everything else raises", loc,
         key="exhaustive", detail=f"handled {sorted(handled)}")
