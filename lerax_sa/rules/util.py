"""Helpers shared by rule modules."""
from __future__ import annotations

import ast

from ..model import AnalysisError
from ..vgraph import NONE, Closure, mapnodes, walk


def bind_args(fn: ast.FunctionDef, args, kwargs, skip_first: bool = True) -> dict:
    """Map call-site argument nodes to the callee's parameter names."""
    a = fn.args
    pos = [p.arg for p in a.posonlyargs + a.args]
    if skip_first and pos:
        pos = pos[1:]
    out = {}
    for n, v in zip(pos, args):
        out[n] = v
    for k, v in kwargs:
        if k is not None:
            out[k] = v
    return out


def params_of(n) -> set[str]:
    """Names of all ("param", x) leaves a node depends on."""
    return {x[1] for x in walk(n) if isinstance(x, tuple) and x and x[0] == "param"}


def attrs_of(n, base) -> set[str]:
    """Names f of all ("attr", base, f) sub-nodes."""
    return {x[2] for x in walk(n) if isinstance(x, tuple) and x and x[0] == "attr" and x[1] == base}


def tuple_elems(b, n):
    """elements of a returned tuple, whether it is written as a display or as an instance of a NamedTuple class (which is the tuple of
    its fields in declared order); None for anything else"""
    if isinstance(n, tuple) and n and n[0] == "tuple" and not any(isinstance(x, tuple) and x and x[0] == "star" for x in n[1]):
        return list(n[1])
    nt = b.namedtuple_fields(n)
    return None if nt is None else list(nt)


def one(paths, what):
    """The single non-raising static path of a function. When a later change introduced a static case split, the paths are
    merged back into one value (nested `ite` over the path conditions) so that the rule still compares what the function
    computes with its reference -- equal branches normalise away, differing ones show up as a mismatch -- instead of
    aborting the analysis."""
    live = [p for p in paths if p.raised is None]
    if len(live) == 1:
        return live[0]
    if not live:
        raise AnalysisError(f"{what}: expected one non-raising static path, found none")
    if len(live) > 16:
        raise AnalysisError(f"{what}: expected one non-raising static path, found {len(live)}")
    return merge_paths(live)


def merge_paths(paths):
    """Merge the paths of one function's decision tree into a single Path (ret / self_attrs become nested ite nodes)."""
    from ..vgraph import Path

    def tree(ps, depth, pick):
        if len(ps) == 1 or all(len(p.conds) <= depth for p in ps):
            return pick(ps[0])
        from ..vgraph import dkey
        test = ps[0].conds[depth][0]
        tk = dkey(test)
        if any(len(p.conds) <= depth or dkey(p.conds[depth][0]) != tk for p in ps):
            # not a common decision at this depth: cannot merge soundly
            raise AnalysisError("static paths do not form a decision tree on common tests")
        yes = [p for p in ps if p.conds[depth][1]]
        no = [p for p in ps if not p.conds[depth][1]]
        if not yes or not no:
            return tree(yes or no, depth + 1, pick)
        a, b = tree(yes, depth + 1, pick), tree(no, depth + 1, pick)
        return merge_nodes(test, a, b)

    ret = tree(paths, 0, lambda p: p.ret if p.ret is not None else NONE)
    keys = []
    for p in paths:
        for k in p.self_attrs:
            if k not in keys:
                keys.append(k)
    attrs = {k: tree(paths, 0, lambda p, k=k: p.self_attrs.get(k, NONE)) for k in keys}
    first = paths[0]
    return Path(conds=[], ret=ret, raised=None, env=first.env, self_attrs=attrs, effects=list(first.effects), asserts=list(first.asserts))


def entails(nz, conds, goal):
    """What the decisions taken on a path say about the Boolean `goal`: True when their conjunction implies it, False when it implies
    its negation, None when it decides neither.  Decided on the truth table over the atoms of the tests, so that `if a or b`,
    `if not a: ... elif b`, inverted branches and De Morgan spellings of one guard are indistinguishable."""
    from ..norm import KFALSE
    lits = tuple(t if v else ("un", "Not", t) for t, v in conds)
    if not lits:
        return None
    conj = ("boolop", "And", lits) if len(lits) > 1 else lits[0]
    if nz.boolean(conj) == KFALSE:
        return None  # infeasible path
    if nz.boolean(("boolop", "And", (conj, ("un", "Not", goal)))) == KFALSE:
        return True
    if nz.boolean(("boolop", "And", (conj, goal))) == KFALSE:
        return False
    return None


def dict_items(n):
    """The constant-keyed entries a dict-valued node is known to hold, however it was put together: a display with or without `**`
    spreads, successive item assignments, or both. Later entries win; an entry is dropped again when something of unknown key set
    (a spread of an opaque mapping, an assignment under a computed key) comes after it and may overwrite it."""
    out: dict = {}

    def fill(x):
        if isinstance(x, tuple) and x and x[0] == "setitem":
            fill(x[1])
            if isinstance(x[2], tuple) and x[2][0] == "const":
                out[x[2][1]] = x[3]
            else:
                out.clear()
        elif isinstance(x, tuple) and x and x[0] == "dict":
            for k, v in x[1]:
                if k == ("const", "**"):
                    fill(v)
                elif isinstance(k, tuple) and k[0] == "const":
                    out[k[1]] = v
                else:
                    out.clear()
        else:
            out.clear()  # opaque mapping (comprehension, parameter, call): keys unknown

    fill(n)
    return out


def live(paths):
    return [p for p in paths if p.raised is None]


def fields(node) -> dict:
    """Fields of a record / update node as a dict (update paths of length 1)."""
    if isinstance(node, tuple) and node and node[0] == "record":
        return dict(node[2])
    if isinstance(node, tuple) and node and node[0] == "update":
        return {p[0]: v for p, v in node[2] if len(p) == 1}
    return {}


def subnodes(n, kind):
    return [x for x in walk(n) if isinstance(x, tuple) and x and x[0] == kind]


def calls_named(n, name):
    out = []
    for x in walk(n):
        if isinstance(x, tuple) and x and x[0] == "call":
            f = x[1]
            if isinstance(f, tuple) and ((f[0] == "attr" and f[2] == name) or (f[0] == "global" and (f[1] == name or f[1].endswith("." + name)))):
                out.append(x)
            elif isinstance(f, Closure) and (f.name == name or (f.qualname or "").endswith("." + name)):
                out.append(x)
    return out


def kwargs_of(call) -> dict:
    return {k: v for k, v in call[3] if k is not None}


def ast_calls_of_attr(prog, attr_name):
    """All AST call sites `<expr>.attr_name(...)` in the package: [(module, enclosing qualname, Call)]."""
    out = []
    for m in prog.modules.values():
        stack = [(m.tree, "")]
        while stack:
            node, scope = stack.pop()
            for ch in ast.iter_child_nodes(node):
                sc = scope
                if isinstance(ch, (ast.FunctionDef, ast.ClassDef)):
                    sc = f"{scope}.{ch.name}" if scope else ch.name
                if isinstance(ch, ast.Call) and isinstance(ch.func, ast.Attribute) and ch.func.attr == attr_name:
                    out.append((m, scope, ch))
                if isinstance(ch, ast.Attribute) and ch.attr == attr_name and not isinstance(getattr(ch, "ctx", None), ast.Store):
                    out.append((m, scope, ch))
                stack.append((ch, sc))
    # de-duplicate Attribute nodes that are the func of a recorded Call
    funcs = {id(c.func) for _, _, c in out if isinstance(c, ast.Call)}
    return [(m, s, c) for m, s, c in out if not (isinstance(c, ast.Attribute) and id(c) in funcs)]


# ----------------------------------------------------------------------------- comprehension pairing
POS = ("k", "@pos")


def elementwise(c, dicts=(), level=None):
    """Symbolic element of a single-generator comprehension: the element expression with every bound variable replaced by
    the canonical element it denotes at one iteration -- ("key", D) for the key of dict D at the current position,
    ("sub", D, ("key", D)) for its value, ("sub", S, POS) for the element of any other iterable S, POS for an index.
    Two bound variables that are paired by position across *different* dicts therefore get different key symbols, while
    by-key access (D2[key]) reuses the key symbol. Returns (element, [iterated containers]) or None when the
    comprehension has filters / several generators (nothing is assumed about those)."""
    from ..vgraph import mapnodes

    if not (isinstance(c, tuple) and c and c[0] == "comp"):
        return None
    gens, d = c[3], c[4]
    if len(gens) != 1 or gens[0][1]:
        return None
    domains = []

    def call_of(it, name):
        return isinstance(it, tuple) and it and it[0] == "call" and it[1] == ("global", name)

    def meth_of(it, name):
        return (isinstance(it, tuple) and it and it[0] == "call" and isinstance(it[1], tuple) and it[1][0] == "attr" and it[1][2] == name
                and not it[2] and not it[3])

    def slots(it):
        """list of element terms bound by one iteration of `it` (flattened target order)"""
        if it in dicts:
            domains.append(it)
            return [("key", it)]
        for nm in ("keys", "values", "items"):
            # (.items() always yields pairs, so it takes two slots whatever the receiver: the value graph numbers bound variables so)
            if meth_of(it, nm) and (it[1][1] in dicts or nm == "items"):
                D = it[1][1]
                domains.append(D)
                k = ("key", D)
                return {"keys": [k], "values": [("sub", D, k)], "items": [k, ("sub", D, k)]}[nm]
        if call_of(it, "zip") and not it[3]:
            out = []
            for a in it[2]:
                out.extend(slots(a))
            return out
        if call_of(it, "enumerate") and len(it[2]) == 1 and not it[3]:
            return [POS] + slots(it[2][0])
        if call_of(it, "range") and len(it[2]) == 1 and call_of(it[2][0], "len") and len(it[2][0][2]) == 1:
            domains.append(it[2][0][2][0])
            return [POS]
        domains.append(it)
        return [("sub", it, POS)]

    sl = slots(gens[0][0])

    def f(n):
        if n and n[0] == "bound" and n[1] == d:
            return sl[n[2]] if n[2] < len(sl) else ("k", "@unbound")
        return n

    return mapnodes(c[2], f), domains


def element_at_pos(c, dicts=()):
    """elementwise() with nested list / generator comprehensions resolved: `[f(x) for x in xs][@pos]` is f(xs[@pos]) (single unfiltered
    generator), so a sequence that is built first and zipped afterwards reads like the fused comprehension. A nested comprehension over
    a dict D contributes D's own key symbol: zipping it with D.values() pairs equal positions of one dict, i.e. equal keys, while a
    comprehension over another dict keeps that dict's key symbol. Returns (element, domains) or None."""
    ew = elementwise(c, dicts)
    if ew is None:
        return None
    elt, domains = ew
    domains = list(domains)

    def f(n):
        if n and n[0] == "sub" and n[2] == POS and isinstance(n[1], tuple) and n[1] and n[1][0] == "comp" and n[1][1] in ("ListComp", "GeneratorExp"):
            inner = element_at_pos(n[1], dicts)
            if inner is not None:
                domains.extend(inner[1])
                return inner[0]
        return n

    return mapnodes(elt, f), [d_ for d_ in domains if not (isinstance(d_, tuple) and d_ and d_[0] == "comp")] + [d_ for d_ in domains if isinstance(d_, tuple) and d_ and d_[0] == "comp"]


_IN_PROGRESS: set = set()


class _NoMerge(Exception):
    pass


TAGGED = ("call", "bin", "un", "cmp", "boolop", "tuple", "list", "item", "sub", "record", "update", "ite", "attr", "comp", "scan", "slice", "star", "dict")


def merge_nodes(test, a, b, depth=0):
    """ite(test, a, b) with the selection pushed inwards as far as the two values share their structure (a static, loop-invariant
    test distributes over every pure constructor), so that only the sub-terms that really differ sit under an `ite`."""
    if a is b:
        return a
    if isinstance(a, Closure) and isinstance(b, Closure):
        if a.node is b.node and a.bound_self == b.bound_self:
            if a.env is b.env or a.env is None or b.env is None:
                return a
            key = (id(a), id(b))
            if key in _IN_PROGRESS or depth > 40:
                return a  # recursive reference (a closure whose environment contains itself)
            _IN_PROGRESS.add(key)
            try:
                used = {n.id for n in ast.walk(a.node) if isinstance(n, ast.Name)}
                env = dict(a.env)
                same = True
                for k in used:
                    if k in a.env and k in b.env:
                        env[k] = merge_nodes(test, a.env[k], b.env[k], depth + 1)
                        same = same and env[k] is a.env[k]
            finally:
                _IN_PROGRESS.discard(key)
            if same:
                return a
            c = Closure(a.node, env, a.ctx, a.name, a.bound_self, a.qualname)
            c.snapped = True
            return c
        return ("ite", test, a, b)
    if isinstance(a, Closure) or isinstance(b, Closure):
        return ("ite", test, a, b)
    try:
        if a == b:
            return a
    except Exception:  # noqa: BLE001
        pass
    if not (isinstance(a, tuple) and isinstance(b, tuple)):
        return ("ite", test, a, b)
    tagged = bool(a) and bool(b) and isinstance(a[0], str) and a[0] == b[0] and a[0] in TAGGED
    if tagged and a[0] == "call" and not _same_callee(a[1], b[1]):
        return ("ite", test, a, b)  # different functions are called: select between the two calls, not between callees
    if tagged and len(a) == len(b) and depth < 60:
        try:
            return _merge_children(test, a, b, depth)
        except _NoMerge:
            return ("ite", test, a, b)
    return ("ite", test, a, b)


def _same_callee(f, g):
    if isinstance(f, Closure) and isinstance(g, Closure):
        return f.node is g.node
    if isinstance(f, Closure) or isinstance(g, Closure):
        return False
    try:
        return f == g
    except Exception:  # noqa: BLE001
        return False


def _merge_children(test, a, b, depth):
    """element-wise merge of two equally long tuples; untagged inner tuples (argument lists, keyword pairs) are merged
    element-wise too and may not themselves become an `ite` (raises _NoMerge so that the enclosing node is selected whole)."""
    out = []
    for x, y in zip(a, b):
        if isinstance(x, Closure) or isinstance(y, Closure):
            out.append(merge_nodes(test, x, y, depth + 1))
        elif isinstance(x, tuple) and isinstance(y, tuple):
            x_tagged = bool(x) and isinstance(x[0], str) and x[0] not in (None,) and not (len(x) == 2 and not isinstance(x[1], tuple) and False)
            if bool(x) and bool(y) and isinstance(x[0], str) and isinstance(y[0], str) and (x[0] in TAGGED or x[0] in ("param", "const", "global", "bound", "k")
                                                                                           or y[0] in TAGGED or y[0] in ("param", "const", "global", "bound", "k")):
                out.append(merge_nodes(test, x, y, depth + 1))  # expression position
            elif len(x) == len(y):
                out.append(_merge_children(test, x, y, depth + 1))  # structural container (args, kwargs, (name, value) pairs)
            else:
                raise _NoMerge
        elif x == y:
            out.append(x)
        else:
            raise _NoMerge
    return tuple(out)


def _broadcast_item(n):
    """broadcast_arrays(a, b, ...)[i] is a_i broadcast: as far as *which argument it carries* goes, it is the i-th argument"""
    if n and n[0] == "item" and isinstance(n[1], tuple) and n[1] and n[1][0] == "call" and n[1][1] == ("global", "jax.numpy.broadcast_arrays") \
            and not n[1][3] and isinstance(n[2], int) and n[2] < len(n[1][2]) and not any(isinstance(a, tuple) and a and a[0] == "star" for a in n[1][2]):
        return n[1][2][n[2]]
    if n and n[0] == "call" and n[1] == ("global", "jax.numpy.broadcast_to") and len(n[2]) == 2 and not n[3]:
        return n[2][0]  # broadcasting replicates its first argument; the shape is not data
    return n


def ctor_wiring(s, rule, cls, necessary_for="", skip=()):
    """Every constructor parameter that has a like-named attribute reaches that attribute, and only it does (no other constructor
    parameter is mixed in). `x if x is not None else <default>` is accepted. Returns the number of attributes examined."""
    from ..vgraph import show
    ci, dc, fn = s.method(cls, "__init__")
    b = s.builder(inline=set())
    loc = s.loc(cls, "__init__")
    own = [a.arg for a in fn.args.posonlyargs + fn.args.args + fn.args.kwonlyargs if a.arg not in ("self",)]
    from ..kinds import BOOL, FLOAT, INT, ann_kind_shape
    numeric = {}
    for a in fn.args.posonlyargs + fn.args.args + fn.args.kwonlyargs:
        ann = a.annotation
        kinds_ = set()
        parts = [ann]
        while parts:
            x = parts.pop()
            if isinstance(x, ast.BinOp) and isinstance(x.op, ast.BitOr):
                parts += [x.left, x.right]
            elif x is not None:
                kinds_.add(ann_kind_shape(x)[0])
        numeric[a.arg] = bool(kinds_ & {FLOAT, INT, BOOL})
    n = 0
    from ..vgraph import Ctx
    paths = live(b.paths(fn, Ctx(dc.module, dc, fn, ci), max_paths=600))
    seen = set()
    for p in paths:
        for name in own:
            if name in skip:
                continue
            v = p.self_attrs.get(name)
            if v is None:
                continue
            v = mapnodes(v, _broadcast_item)
            ps = {x[1] for x in walk(v) if isinstance(x, tuple) and x and x[0] == "param"} - {"self"}
            none_on = any(isinstance(t, tuple) and t[0] == "cmp" and t[3] == NONE and t[2] == ("param", name) and ((t[1] == "IsNot" and not val) or (t[1] == "Is" and val))
                          for t, val in p.conds)
            ok = (name in ps and ps <= {name}) or none_on
            # the value is the argument itself, possibly converted (array / float / int / tuple / broadcast), not a computation on it:
            # `x or default` replaces a legitimate 0 / 0.0 / False by the default, arithmetic rescales what the caller configured
            core = v
            CONV = ("jax.numpy.array", "jax.numpy.asarray", "float", "int", "bool", "tuple", "str", "jax.numpy.broadcast_to", "jax.numpy.float32", "pathlib.Path", "round", "list", "dict",
                    "collections.OrderedDict", "jax.numpy.atleast_1d")
            for _ in range(6):
                if isinstance(core, tuple) and core and core[0] == "call" and isinstance(core[1], tuple) and core[1][0] == "global" and core[1][1] in CONV and core[2]:
                    core = core[2][0]
                elif isinstance(core, tuple) and core and core[0] == "cast":
                    core = core[2]
                else:
                    break
            falsy = [x for x in walk(v) if isinstance(x, tuple) and x and x[0] == "boolop" and x[1] == "Or" and x[2] and x[2][0] == ("param", name)]
            if ok and not none_on and falsy and numeric.get(name, False):
                ok = False
            key = (name, ok, show(v, maxlen=100))
            if key in seen:
                continue
            seen.add(key)
            n += 1
            s.ob(rule, f"{cls}.__init__.{name}", ok, f"attribute `{name}` is set from the constructor argument `{name}` and from no other argument", loc, key=f"ctor-{name}",
                 detail=("`x or default` replaces a configured zero by the default: " if (not ok and not none_on and [x for x in walk(v) if isinstance(x, tuple) and x and x[0] == "boolop"]) else "") + show(v, maxlen=140),
                 necessary_for=necessary_for)
    return n


def _self_assigned(prog, ci, fn, seen=(), depth=0):
    """Names X with `self.X = ...` somewhere in fn, following self.<helper>(...) calls and super().__init__ (may-assign: any path)."""
    out = set()
    for n in ast.walk(fn):
        tg = []
        if isinstance(n, ast.Assign):
            tg = n.targets
        elif isinstance(n, (ast.AnnAssign, ast.AugAssign)):
            tg = [n.target]
        for t in tg:
            for e in (t.elts if isinstance(t, (ast.Tuple, ast.List)) else [t]):
                if isinstance(e, ast.Attribute) and isinstance(e.value, ast.Name) and e.value.id == "self":
                    out.add(e.attr)
        if isinstance(n, ast.Call) and isinstance(n.func, ast.Attribute) and depth < 3:
            f = n.func
            if isinstance(f.value, ast.Name) and f.value.id == "self":
                r = prog.resolve_method(ci, f.attr)
                if r:
                    out |= _self_assigned(prog, ci, r[1], seen, depth + 1)
            if isinstance(f.value, ast.Call) and isinstance(f.value.func, ast.Name) and f.value.func.id == "super" and f.attr == "__init__":
                for k in prog.mro(ci):
                    if "__init__" in k.methods and k.methods["__init__"] is not fn and k.methods["__init__"] not in seen:
                        out |= _self_assigned(prog, ci, k.methods["__init__"], tuple(seen) + (fn,), depth + 1)
                        break
    return out


def fields_initialised(s, rule, classes, necessary_for=""):
    """Every dataclass field (over the MRO) that has no default is assigned by the class's custom __init__ (Equinox raises
    "Field ... was not initialized" otherwise: the class cannot be instantiated). ClassVar declarations are not fields."""
    P = s.prog
    n = 0
    for ci in classes:
        if not P.is_module_class(ci):
            continue
        av, am = P.abstract_members(ci)
        if av or am:
            continue
        r = P.resolve_method(ci, "__init__")
        if r is None:
            continue
        need = set()
        for f in P.dataclass_fields(ci):
            ann = ast.unparse(f.annotation) if f.annotation is not None and not isinstance(f.annotation, ast.Constant) else str(getattr(f.annotation, "value", ""))
            has_default = f.default is not None
            if isinstance(f.default, ast.Call) and ast.unparse(f.default.func).split(".")[-1] == "field":
                # eqx.field(static=True) / dataclasses.field(...) only carries a default when it says so
                has_default = any(k.arg in ("default", "default_factory") for k in f.default.keywords)
            if "ClassVar" in ann or has_default:
                continue
            need.add(f.name)
        got = _self_assigned(P, ci, r[1])
        miss = sorted(need - got)
        n += 1
        s.ob(rule, f"{ci.name}.__init__", not miss, "the constructor assigns every field that has no default (the class can be instantiated)", P.loc(r[0].module, r[1]),
             key="field-not-initialised", detail="never assigned: " + ", ".join(miss) if miss else f"{len(need)} fields", necessary_for=necessary_for)
    return n


def no_late_binding(s, rule, prefixes, necessary_for=""):
    """No function in the named module families creates, inside a loop, a function value that reads a loop-rebound variable freely."""
    from ..effects import cell_var_from_loop, functions_of
    P = s.prog
    n = 0
    for m, ci, qual, fn in functions_of(P, module_filter=lambda m_: m_.name.startswith(tuple(prefixes))):
        hits = cell_var_from_loop(fn)
        if not any(isinstance(x, (ast.For, ast.While)) for x in ast.walk(fn)):
            continue
        n += 1
        s.ob(rule, qual.replace("lerax.", ""), not hits, "functions created inside a loop do not read loop variables late (closures bind at call time)", P.loc(m, fn),
             key="cell-var-from-loop", detail="; ".join(hits[:3]), necessary_for=necessary_for)
    return n


def apply_fn(b, f, args, kwargs=()):
    """Apply a function-valued node to argument nodes, looking THROUGH the way the function is spelled: a local closure, a
    module-level function of the package (inlined even when the builder's policy would leave it uninterpreted), a
    functools.partial of either, or anything else (left to the builder)."""
    from ..vgraph import Ctx
    if isinstance(f, Closure):
        return b.apply(f, tuple(args), tuple(kwargs))
    if isinstance(f, tuple) and f and f[0] == "partial":
        return apply_fn(b, f[1], tuple(f[2]) + tuple(args), tuple(f[3]) + tuple(kwargs))
    if isinstance(f, tuple) and f and f[0] == "global":
        mod, _, fname = f[1].rpartition(".")
        mm = b.prog.modules.get(mod)
        if mm is not None and fname in mm.functions:
            clo = Closure(mm.functions[fname], {}, Ctx(mm, None, mm.functions[fname]), fname, qualname=None)
            return b.apply(clo, tuple(args), tuple(kwargs))
    return b.mk_call(f, tuple(args), tuple(kwargs))
