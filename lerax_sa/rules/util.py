"""Helpers shared by rule modules."""
from __future__ import annotations

import ast

from ..model import AnalysisError
from ..vgraph import NONE, Closure, walk


def bind_args(fn: ast.FunctionDef, args, kwargs, skip_first: bool = True) -> dict:
    """Map call-site argument nodes to the callee's parameter names."""
    a = fn.args
    pos = [p.arg for p in a.posonlyargs + a.args]
    if skip_first and pos:
        pos = pos[1:]
    out = {}
    for n, v in zip(pos, args):
        out[n] = v
    for k, v in kwargs:
        if k is not None:
            out[k] = v
    return out


def params_of(n) -> set[str]:
    """Names of all ("param", x) leaves a node depends on."""
    return {x[1] for x in walk(n) if isinstance(x, tuple) and x and x[0] == "param"}


def attrs_of(n, base) -> set[str]:
    """Names f of all ("attr", base, f) sub-nodes."""
    return {x[2] for x in walk(n) if isinstance(x, tuple) and x and x[0] == "attr" and x[1] == base}


def one(paths, what):
    live = [p for p in paths if p.raised is None]
    if len(live) != 1:
        raise AnalysisError(f"{what}: expected exactly one non-raising static path, found {len(live)}")
    return live[0]


def live(paths):
    return [p for p in paths if p.raised is None]


def fields(node) -> dict:
    """Fields of a record / update node as a dict (update paths of length 1)."""
    if isinstance(node, tuple) and node and node[0] == "record":
        return dict(node[2])
    if isinstance(node, tuple) and node and node[0] == "update":
        return {p[0]: v for p, v in node[2] if len(p) == 1}
    return {}


def subnodes(n, kind):
    return [x for x in walk(n) if isinstance(x, tuple) and x and x[0] == kind]


def calls_named(n, name):
    out = []
    for x in walk(n):
        if isinstance(x, tuple) and x and x[0] == "call":
            f = x[1]
            if isinstance(f, tuple) and ((f[0] == "attr" and f[2] == name) or (f[0] == "global" and (f[1] == name or f[1].endswith("." + name)))):
                out.append(x)
            elif isinstance(f, Closure) and (f.name == name or (f.qualname or "").endswith("." + name)):
                out.append(x)
    return out


def kwargs_of(call) -> dict:
    return {k: v for k, v in call[3] if k is not None}


def ast_calls_of_attr(prog, attr_name):
    """All AST call sites `<expr>.attr_name(...)` in the package: [(module, enclosing qualname, Call)]."""
    out = []
    for m in prog.modules.values():
        stack = [(m.tree, "")]
        while stack:
            node, scope = stack.pop()
            for ch in ast.iter_child_nodes(node):
                sc = scope
                if isinstance(ch, (ast.FunctionDef, ast.ClassDef)):
                    sc = f"{scope}.{ch.name}" if scope else ch.name
                if isinstance(ch, ast.Call) and isinstance(ch.func, ast.Attribute) and ch.func.attr == attr_name:
                    out.append((m, scope, ch))
                if isinstance(ch, ast.Attribute) and ch.attr == attr_name and not isinstance(getattr(ch, "ctx", None), ast.Store):
                    out.append((m, scope, ch))
                stack.append((ch, sc))
    # de-duplicate Attribute nodes that are the func of a recorded Call
    funcs = {id(c.func) for _, _, c in out if isinstance(c, ast.Call)}
    return [(m, s, c) for m, s, c in out if not (isinstance(c, ast.Attribute) and id(c) in funcs)]


# ----------------------------------------------------------------------------- comprehension pairing
POS = ("k", "@pos")


def elementwise(c, dicts=(), level=None):
    """Symbolic element of a single-generator comprehension: the element expression with every bound variable replaced by
    the canonical element it denotes at one iteration -- ("key", D) for the key of dict D at the current position,
    ("sub", D, ("key", D)) for its value, ("sub", S, POS) for the element of any other iterable S, POS for an index.
    Two bound variables that are paired by position across *different* dicts therefore get different key symbols, while
    by-key access (D2[key]) reuses the key symbol. Returns (element, [iterated containers]) or None when the
    comprehension has filters / several generators (nothing is assumed about those)."""
    from ..vgraph import mapnodes

    if not (isinstance(c, tuple) and c and c[0] == "comp"):
        return None
    gens, d = c[3], c[4]
    if len(gens) != 1 or gens[0][1]:
        return None
    domains = []

    def call_of(it, name):
        return isinstance(it, tuple) and it and it[0] == "call" and it[1] == ("global", name)

    def meth_of(it, name):
        return (isinstance(it, tuple) and it and it[0] == "call" and isinstance(it[1], tuple) and it[1][0] == "attr" and it[1][2] == name
                and not it[2] and not it[3])

    def slots(it):
        """list of element terms bound by one iteration of `it` (flattened target order)"""
        if it in dicts:
            domains.append(it)
            return [("key", it)]
        for nm in ("keys", "values", "items"):
            if meth_of(it, nm) and it[1][1] in dicts:
                D = it[1][1]
                domains.append(D)
                k = ("key", D)
                return {"keys": [k], "values": [("sub", D, k)], "items": [k, ("sub", D, k)]}[nm]
        if call_of(it, "zip") and not it[3]:
            out = []
            for a in it[2]:
                out.extend(slots(a))
            return out
        if call_of(it, "enumerate") and len(it[2]) == 1 and not it[3]:
            return [POS] + slots(it[2][0])
        if call_of(it, "range") and len(it[2]) == 1 and call_of(it[2][0], "len") and len(it[2][0][2]) == 1:
            domains.append(it[2][0][2][0])
            return [POS]
        domains.append(it)
        return [("sub", it, POS)]

    sl = slots(gens[0][0])

    def f(n):
        if n and n[0] == "bound" and n[1] == d:
            return sl[n[2]] if n[2] < len(sl) else ("k", "@unbound")
        return n

    return mapnodes(c[2], f), domains
