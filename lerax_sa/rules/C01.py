"""C01 — Gym-style step/reset honours episode boundaries (auto-reset contract)."""
from __future__ import annotations

import ast
import os

from ..model import AnalysisError
from ..norm import Normalizer, show_term
from ..vgraph import KEY, NONE, Closure, Ctx, show, strip_keys, walk
from .util import fields, live, one

EXPLANATION = (
    "Composition rules on AbstractEnvLike.step / reset (the only implementations: C01.6 proves no class in the package overrides "
    "them, with a synthetic positive control), modulo PRNG-key routing: C01.1 the returned reward is self.reward(incoming state, "
    "action, s1) with s1 = self.transition(incoming state, action); C01.2 terminal/truncated are self.terminal(s1)/self.truncate(s1); "
    "C01.3 the returned state is cond(terminal | truncate, self.initial(), s1) (predicate = disjunction of exactly those two nodes, "
    "branch order); C01.4 the returned observation is self.observation of the RETURNED (post-selection) state; info is "
    "transition_info of the transition taken; C01.5 reset returns (S, observation(S), state_info(S)) with S = self.initial(); C01.7 "
    "every wrapper's initial() wraps self.env.initial(key) and sets every other state field to a literal (TimeLimit: step_count = 0); "
    "C01.9 on wrapper stacks the composed signals are the inner environment's: every exported wrapper's initial / transition / observation / reward / "
    "terminal / truncate delegates to the inner method (with only its declared transformation) and TimeLimit's truncate is inner truncate | count >= N with the count "
    "restarting at 0 and advancing by 1; C01.8 the Gymnasium adapter stores element 0 of the same step/reset call whose other elements it returns and advances its running key; the gymnax adapter leaves gymnax's public step / reset in place, its step_env returns the observation / reward / info of ONE Gym-style step with done == terminal | truncated, GymnaxToLeraxEnv hands each cached signal out of the state it belongs to, and no adapter defines an equality that ignores the adapted environment."
)
ASSUMPTIONS = [
    "lax.cond selects its first branch when the predicate is true", "correctness of the functional components (transition, reward, ...) is not decided here",
    "key routing is abstracted (C11)",
]

REF = """
s1 = self.transition(state, action, key=K)
r = self.reward(state, action, s1, key=K)
term = self.terminal(s1, key=K)
trunc = self.truncate(s1)
info = self.transition_info(state, action, s1)
S = lax.cond(term | trunc, lambda: self.initial(key=K), lambda: s1)
obs = self.observation(S, key=K)
"""


def overriders(tree, base_names, meths):
    """Classes in an AST that define one of `meths` and (transitively, within the file) derive from a base in base_names."""
    classes = {n.name: n for n in ast.walk(tree) if isinstance(n, ast.ClassDef)}
    out = []
    for name, node in classes.items():
        seen = set()
        stack = [name]
        derived = False
        while stack:
            c = stack.pop()
            if c in seen:
                continue
            seen.add(c)
            for bexp in classes.get(c, ast.ClassDef(name="", bases=[], keywords=[], body=[], decorator_list=[])).bases:
                bn = bexp
                while isinstance(bn, ast.Subscript):
                    bn = bn.value
                bname = bn.id if isinstance(bn, ast.Name) else (bn.attr if isinstance(bn, ast.Attribute) else None)
                if bname in base_names:
                    derived = True
                if bname in classes:
                    stack.append(bname)
        if derived:
            for st in node.body:
                if isinstance(st, ast.FunctionDef) and st.name in meths:
                    out.append((name, st.name, st.lineno))
    return out


def check_step(s, R=lambda i: f"C01.{i}"):
    """Composition of AbstractEnvLike.step / reset (rule ids through R so that other properties can carry the same obligations)."""
    P = s.prog
    self_ = ("param", "self")
    b = s.builder(inline=set())
    nz = Normalizer(b)
    con = "AbstractEnvLike.step"
    loc = s.loc("AbstractEnvLike", "step")
    p = one(s.paths(b, "AbstractEnvLike", "step"), con)
    ret = strip_keys(p.ret)
    if not (isinstance(ret, tuple) and ret[0] == "tuple" and len(ret[1]) == 6):
        raise AnalysisError(f"{con}: expected a 6-tuple (state, observation, reward, terminal, truncate, info)")
    S, obs, r, term, trunc, info = ret[1]
    ref = s.refprog(b, REF, {"self": self_, "state": ("param", "state"), "action": ("param", "action"), "K": KEY})
    s.eq(R(1), con, nz, r, ref["r"], "reward == self.reward(incoming state, action, self.transition(incoming state, action))", loc, key="reward-of-transition",
         necessary_for="the reward is that of exactly the transition taken from the given state with the given action")
    s.eq(R(2), con, nz, term, ref["term"], "terminal == self.terminal(successor)", loc, key="terminal-of-successor",
         necessary_for="the flags are those of exactly the transition taken")
    s.eq(R(2), con, nz, trunc, ref["trunc"], "truncated == self.truncate(successor)", loc, key="truncate-of-successor")
    s.eq(R(3), con, nz, S, ref["S"], "returned state == cond(terminal | truncate, self.initial(), successor)", loc, key="auto-reset",
         necessary_for="whenever either flag is raised the returned state is a freshly drawn initial state; otherwise the successor")
    s.eq(R(4), con, nz, obs, ref["obs"], "returned observation == self.observation(RETURNED state)", loc, key="observation-of-returned-state",
         necessary_for="the returned observation is that of the returned (possibly reset) state")
    s.eq(R(1), con, nz, info, ref["info"], "info == self.transition_info(incoming state, action, successor)", loc, key="info-of-transition")
    raw = p.ret[1]
    s.ob(R(4), con, isinstance(raw[1], tuple) and raw[1][0] == "call" and raw[1][2][:1] == (raw[0],), "the observed state is the very node returned as state (same key draws)", loc,
         key="observation-same-node", detail=show(raw[1], maxlen=200))
    trans = [c for c in walk(p.ret) if isinstance(c, tuple) and c and c[0] == "call" and c[1] == ("attr", self_, "transition")]
    s.ob(R(1), con, len(trans) == 1, "exactly one transition per step", loc, key="one-transition", detail=str(len(trans)))
    # reset key is not a key used for the transition/reward/terminal (fresh draw)
    raw = p.ret[1][0]
    inits = [c for c in walk(raw) if isinstance(c, tuple) and c and c[0] == "call" and c[1] == ("attr", self_, "initial")]
    others = [dict((k, v) for k, v in c[3] if k).get("key") for c in walk(p.ret) if isinstance(c, tuple) and c and c[0] == "call"
              and isinstance(c[1], tuple) and c[1][0] == "attr" and c[1][1] == self_ and c[1][2] in ("transition", "reward", "terminal")]
    ik = dict((k, v) for k, v in inits[0][3] if k).get("key") if inits else None
    s.ob(R(3), con, len(inits) == 1 and ik is not None and ik not in others, "the reset draws its initial state with a key not used by transition/reward/terminal", loc,
         key="reset-key-fresh", detail=show(ik or NONE))
    # ---------------------------------------------------------------- C01.5
    con5 = "AbstractEnvLike.reset"
    loc5 = s.loc("AbstractEnvLike", "reset")
    p5 = one(s.paths(b, "AbstractEnvLike", "reset"), con5)
    r5 = strip_keys(p5.ret)
    init = ("call", ("attr", self_, "initial"), (), (("key", KEY),))
    want = ("tuple", (init, ("call", ("attr", self_, "observation"), (init,), (("key", KEY),)), ("call", ("attr", self_, "state_info"), (init,), ())))
    raw5 = p5.ret
    same = (isinstance(raw5, tuple) and raw5[0] == "tuple" and len(raw5[1]) == 3 and isinstance(raw5[1][1], tuple) and raw5[1][1][0] == "call"
            and raw5[1][1][2][:1] == (raw5[1][0],) and isinstance(raw5[1][2], tuple) and raw5[1][2][0] == "call" and raw5[1][2][2][:1] == (raw5[1][0],))
    s.ob(R(5), con5, r5 == want and same, "reset == (S, self.observation(S), self.state_info(S)) with S = ONE self.initial() draw", loc5, key="reset-composition",
         detail=show(raw5, maxlen=300), necessary_for="reset returns an initial state together with that state's own observation")
    # the auto-reset selection must not run the reset branch eagerly: lerax.utils.filter_cond evaluates BOTH branch functions before
    # selecting, which is harmless for pure environments but resets a host-side (Gymnasium-backed) environment on every step
    import ast as _ast
    ci_, dc_, fn_ = s.method("AbstractEnvLike", "step")
    eager = []
    for n_ in _ast.walk(fn_):
        if isinstance(n_, _ast.Call):
            f_ = n_.func
            nm = f_.attr if isinstance(f_, _ast.Attribute) else (f_.id if isinstance(f_, _ast.Name) else "")
            if nm == "filter_cond" and any(isinstance(x, _ast.Attribute) and x.attr == "initial" for a_ in n_.args for x in _ast.walk(a_)):
                eager.append(f"line {n_.lineno}: filter_cond(..., self.initial ...)")
    s.ob(R(3), con, not eager, "the reset branch is selected lazily (lax.cond), not evaluated on every step (filter_cond runs both branches)", loc, key="eager-reset-branch",
         detail="; ".join(eager), necessary_for="the transition is taken from the given state also for environments whose `initial` has host-side effects (GymToLeraxEnv resets the wrapped simulator)")
    return b


def check(s):
    P = s.prog
    self_ = ("param", "self")
    b = check_step(s)
    nz = Normalizer(b)
    # ---------------------------------------------------------------- C01.6
    envlike = P.cls("AbstractEnvLike")
    bad = []
    n_sub = 0
    for ci in P.subclasses(envlike):
        n_sub += 1
        for mname in ("step", "reset"):
            if mname in ci.methods:
                bad.append(f"{ci.qualname}.{mname}")
    s.ob("C01.6", "subclasses(AbstractEnvLike)", not bad and n_sub >= 25, "no environment or wrapper class overrides step / reset", s.loc("AbstractEnvLike"), key="step-override",
         detail="; ".join(bad) or f"{n_sub} subclasses checked", necessary_for="the auto-reset contract holds for every environment and wrapper stack")
    ctrl = os.path.join(os.path.dirname(os.path.dirname(os.path.abspath(__file__))), "controls", "step_override.py")
    with open(ctrl) as fh:
        hits = overriders(ast.parse(fh.read()), {"ControlEnvLike"}, {"step", "reset"})
    if len(hits) != 2:
        raise AnalysisError(f"C01.6 positive control not flagged ({hits})")
    s.control(f"C01.6 positive control flagged: {hits}")
    # the same matcher over the real tree (AST level, independent of the class table)
    hits_real = []
    for m in P.modules.values():
        hits_real += [(m.relpath,) + h for h in overriders(m.tree, {"AbstractEnvLike", "AbstractEnv", "AbstractWrapper", "AbstractClassicControlEnv", "AbstractMujocoEnv"}, {"step", "reset"})]
    hits_real = [h for h in hits_real if h[1] not in ("AbstractEnvLike",)]
    s.ob("C01.6", "ast-matcher", not hits_real, "AST-level matcher finds no step/reset definition in a class deriving from the environment bases", "", key="step-override-ast",
         detail=str(hits_real))
    # ---------------------------------------------------------------- C01.7
    wrappers = P.concrete_exported("lerax.wrapper")
    for ci in wrappers:
        r = P.resolve_method(ci, "initial")
        if r is None:
            raise AnalysisError(f"{ci.name}.initial vanished")
        bb = s.builder(inline=set())
        for pp in live(bb.paths(r[1], Ctx(r[0].module, r[0], r[1], ci))):
            f = fields(pp.ret)
            ok = f.get("env_state") == ("call", ("attr", ("attr", self_, "env"), "initial"), (), (("key", ("param", "key")),))
            lits = {k: v for k, v in f.items() if k != "env_state"}
            nzb = Normalizer(bb)
            ok_l = all(isinstance(nzb.canon(v), tuple) and nzb.canon(v)[0] in ("k", "kb") for v in lits.values())
            zero = all(nzb.canon(v) == ("k", 0) for k, v in lits.items() if k == "step_count")
            s.ob("C01.7", f"{ci.name}.initial", ok and ok_l and zero, "a fresh wrapper state wraps self.env.initial(key) and restarts every counter at its literal start value",
                 P.loc(r[0].module, r[1]), key="wrapper-initial", detail=show(pp.ret, maxlen=200), necessary_for="episode clock and wrapper counters restart on reset")
    # ---------------------------------------------------------------- C01.8
    bg = s.builder(inline=set())
    pg = one(s.paths(bg, "LeraxToGymEnv", "step"), "LeraxToGymEnv.step")
    calls = [c for c in walk(pg.ret) if isinstance(c, tuple) and c and c[0] == "call" and c[1] == ("attr", ("attr", self_, "env"), "step")]
    s.ob("C01.8", "LeraxToGymEnv.step", len(calls) == 1 and pg.self_attrs.get("state") == ("item", calls[0], 0) and calls[0][2][0] == ("attr", self_, "state"),
         "the adapter steps from its stored state and stores element 0 of that same call", s.loc("LeraxToGymEnv", "step"), key="gym-adapter-state", detail=show(pg.self_attrs.get("state", NONE), maxlen=120))
    for pr in live(s.paths(bg, "LeraxToGymEnv", "reset")):
        calls = [c for c in walk(pr.ret) if isinstance(c, tuple) and c and c[0] == "call" and c[1] == ("attr", ("attr", self_, "env"), "reset")]
        s.ob("C01.8", "LeraxToGymEnv.reset", len(calls) == 1 and pr.self_attrs.get("state") == ("item", calls[0], 0), "reset stores element 0 of the env.reset call it reports", s.loc("LeraxToGymEnv", "reset"),
             key="gym-adapter-reset", detail=show(pr.self_attrs.get("state", NONE), maxlen=120))
    # (the adapter's running key - one half of jr.split stored back, the other used - is part of check_adapters below)
    # the gymnax adapter relies on gymnax's own public step / reset (which call reset_env and restart its `time` counter when an
    # episode ends): overriding them in the adapter bypasses that
    gx = P.cls("LeraxToGymnaxEnv")
    extra = sorted(m_ for m_ in gx.methods if m_ in ("step", "reset"))
    s.ob("C01.8", "LeraxToGymnaxEnv", not extra, "the gymnax adapter implements step_env / reset_env only and leaves gymnax's step / reset (episode clock restart) in place", P.loc(gx.module, gx.node),
         key="gymnax-step-override", detail=", ".join(extra), necessary_for="after an episode end the returned state is a fresh initial state with its clocks and counters restarted")
    # gymnax jits its public step / reset with `self` as a static argument: two adapters that compare equal share one compiled program,
    # so an adapter's equality must not ignore the environment it adapts (a second adapter around a differently configured environment
    # would otherwise step the FIRST one's transition, flags and reset)
    from ..effects import incomplete_equality
    ie = [x for x in incomplete_equality(P) if x[0].startswith("lerax.compatibility.")]
    s.ob("C01.8", "adapters.__eq__", not ie, "no adapter defines an equality that ignores part of its state (the adapted environment)", ie[0][1] + f":{ie[0][2]}" if ie else gx.module.relpath,
         key="adapter-equality", detail="; ".join(f"{q} ignores {', '.join(ms)}" for q, _, _, ms in ie),
         necessary_for="the reward, flags and successor reported are those of the transition taken by THIS environment")
    # the gymnax adapters hand the same signals across the API boundary: `done` is terminal | truncated of the ONE Gym-style step taken,
    # the reward / observation / info are that step's, and the cached signals of GymnaxToLeraxEnv come out of the state they belong to
    from .C13 import check_adapters, check_gymnax
    check_gymnax(s, rule="C01.8")
    # and the Gymnasium adapters: the flags of an adapted Gymnasium environment are the flags its step() returned, each in its own slot
    check_adapters(s, rule="C01.8")
    # ---------------------------------------------------------------- C01.9 wrapper stacks: the signals step composes
    # step calls self.transition / reward / terminal / truncate / observation / initial; on a wrapper stack these are the wrapper's
    # methods, so "the flags of exactly the transition taken" needs every wrapper to hand the inner signal through (TimeLimit: OR-ed
    # with its own count, which restarts at 0 and advances by one).
    from .C13 import check_delegation, check_rescale, check_timelimit
    check_delegation(s, "C01.9", ["initial", "transition", "observation", "reward", "terminal", "truncate"])
    check_timelimit(s, "C01.9")
    # "with only its declared transformation": the maps the clip / rescale wrappers apply to the action fed in and to the reward / observation
    # reported are the declared ones, built from the constructor's own bounds
    check_rescale(s, "C01.9")
    for r_, n_ in (("C01.1", 3), ("C01.2", 2), ("C01.3", 2), ("C01.4", 2), ("C01.5", 1), ("C01.6", 2), ("C01.7", 11), ("C01.8", 6), ("C01.9", 70)):
        s.floor(r_, n_)
