"""C05 — off-policy collection stores exactly the transitions that happened."""
from __future__ import annotations

from ..model import AnalysisError
from ..norm import Normalizer, show_term
from ..vgraph import KEY, NONE, Closure, show, strip_keys, walk
from .stepref import ACT_BOX, ACT_OTHER, BIND, OFF_POLICY, box_case
from .util import bind_args, fields, live, one

EXPLANATION = (
    "Field-sensitive dataflow on AbstractOffPolicyAlgorithm.step (both static cases of isinstance(action_space, Box)): the "
    "arguments of the single state.buffer.add call are mapped to ReplayBuffer.add's parameter names and compared (modulo key "
    "routing) with a reference dataflow: observation acted on, successor observation of the PRE-reset successor, the chosen "
    "action, reward of env.reward(state, executed=clipped action, successor), done = term|trunc, timeout = trunc & ~term, "
    "policy states before/after acting; env.transition and env.reward receive the same executed action; resets under done. "
    "Warm-up and per-iteration collection: scan lengths learning_starts / num_steps over split keys, warm-up inside reset and "
    "no training reachable from reset; per-environment buffers of size buffer_size // num_envs built under vmap."
)
ASSUMPTIONS = [
    "lax.cond / lax.scan / vmap semantics (JAX)", "key routing is abstracted (C11 decides provenance)",
    "env and policy methods are uninterpreted symbols: the rule holds for every environment and behaviour policy",
]


def check(s):
    P = s.prog
    cls = "AbstractOffPolicyAlgorithm"
    con0 = f"{cls}.step"
    loc = s.loc(cls, "step")
    b = s.builder(inline=set())
    nz = Normalizer(b)
    paths = live(s.paths(b, cls, "step"))
    cases = {box_case(p) for p in paths}
    if cases != {True, False}:
        raise AnalysisError(f"{con0}: expected the two static cases of isinstance(env.action_space, Box), found {cases}")
    _, _, fadd = s.method("ReplayBuffer", "add")
    for p in paths:
        box = box_case(p)
        con = f"{con0}[Box={box}]"
        ref = s.refprog(b, OFF_POLICY.replace("{ACT}", ACT_BOX if box else ACT_OTHER), BIND)
        ret = strip_keys(p.ret)
        st = fields(ret)
        if not st:
            raise AnalysisError(f"{con}: the returned step state is not a record construction")
        buf = st.get("buffer")
        ok_add = isinstance(buf, tuple) and buf[0] == "call" and buf[1] == ("attr", ("attr", ("param", "state"), "buffer"), "add")
        s.ob("C05.1", con, ok_add, "the carried buffer is state.buffer.add(...)", loc, key="buffer-add", detail=show(buf or NONE, maxlen=200))
        if not ok_add:
            continue
        m = bind_args(fadd, buf[2], buf[3])
        adds = [x for x in walk(ret) if isinstance(x, tuple) and x and x[0] == "call" and isinstance(x[1], tuple) and x[1][0] == "attr" and x[1][2] == "add"]
        s.ob("C05.1", con, len(adds) == 1, "exactly one insertion per step", loc, key="one-add", detail=str(len(adds)))

        def eq(rule, pname, want, fact, key, nec=""):
            return s.eq(rule, con, nz, m.get(pname, NONE), want, fact, loc, key=key, necessary_for=nec)

        eq("C05.1", "observation", ref["obs"], "add(observation=) is env.observation(state.env_state), the observation acted on", "add-observation")
        eq("C05.1", "next_observation", ref["next_obs"], "add(next_observation=) is the observation of the PRE-reset successor state",
           "add-next-observation", "the successor observation is that of the pre-reset successor even when the episode ends")
        eq("C05.1", "action", ref["action"], "add(action=) is the action item of the one policy call on that observation", "add-action",
           "the stored action is the action chosen")
        rews0 = [x for x in walk(ret) if isinstance(x, tuple) and x and x[0] == "call" and x[1] == ("attr", ("param", "env"), "reward")]
        eq("C05.1", "reward", rews0[0] if len(rews0) == 1 else ref["r"], "add(reward=) is the result of the step's env.reward call (its arguments: C05.2)",
           "add-reward", "the stored reward is the one the environment produced")
        eq("C05.1", "done", ref["done"], "add(done=) is terminal | truncate", "add-done", "done = terminal or truncated")
        eq("C05.1", "timeout", ref["timeout"], "add(timeout=) is truncate & ~terminal", "add-timeout",
           "timeout raised exactly when the episode was truncated without terminating")
        eq("C05.1", "state", s.ref(b, "state.policy_state", BIND), "add(state=) is the incoming policy state", "add-state")
        eq("C05.1", "next_state", ref["nps"], "add(next_state=) is the pre-reset policy state returned by the policy call", "add-next-state")
        pcs = {x for x in walk(ret) if isinstance(x, tuple) and x and x[0] == "call" and x[1] == ("param", "policy")}
        s.ob("C05.1", con, len(pcs) == 1, "exactly one behaviour-policy call per step", loc, key="one-policy-call", detail=str(len(pcs)))
        trans = [x for x in walk(ret) if isinstance(x, tuple) and x and x[0] == "call" and x[1] == ("attr", ("param", "env"), "transition")]
        rews = [x for x in walk(ret) if isinstance(x, tuple) and x and x[0] == "call" and x[1] == ("attr", ("param", "env"), "reward")]
        s.ob("C05.2", con, len(trans) == 1 and nz.canon(trans[0]) == nz.canon(ref["s1"]),
             "the single env.transition call receives the executed action (" + ("clip(action)" if box else "action") + ")", loc,
             key="transition-action", detail="; ".join(show(x, maxlen=200) for x in trans))
        s.ob("C05.2", con, len(rews) == 1 and nz.canon(rews[0]) == nz.canon(ref["r"]),
             "the single env.reward call receives the same executed action as env.transition", loc, key="reward-action",
             detail="; ".join(show(x, maxlen=260) for x in rews),
             necessary_for="the stored reward is the one the environment produced for the executed (bounds-clipped) action")
        s.eq("C05.3", con, nz, st.get("env_state", NONE), ref["env_next"], "carried env state == cond(done, env.initial(), successor)", loc,
             key="env-reset", necessary_for="the environment restarts after a done step")
        # the comparisons above are made with the PRNG keys erased; a termination test may draw from its key, so the flag that is stored
        # and the flags that gate the two restarts have to be ONE evaluation of env.terminal (and of env.truncate), not two evaluations
        # under different keys that merely look alike
        for fn_ in ("terminal", "truncate"):
            evs = {x for x in walk(p.ret) if isinstance(x, tuple) and x and x[0] == "call" and x[1] == ("attr", ("param", "env"), fn_)}
            s.ob("C05.3", con, len(evs) == 1, f"env.{fn_} is evaluated once per step: the stored flag and the restart gates share that evaluation", loc, key=f"one-{fn_}-evaluation",
                 detail="; ".join(show(x, maxlen=120) for x in sorted(evs, key=repr)), necessary_for="the environment and the policy state restart after exactly the steps stored as done")
        s.eq("C05.3", con, nz, st.get("policy_state", NONE), ref["pol_next"], "carried policy state == cond(done, policy.reset(), post-action state)",
             loc, key="policy-reset", necessary_for="the policy state restarts after a done step")
    # ------------------------------------------------------------ C05.4 scans
    for meth, attr, per_step in (("collect_learning_starts", "learning_starts", False), ("collect_rollout", "num_steps", True)):
        b2 = s.builder(inline=set())
        con4 = f"{cls}.{meth}"
        loc4 = s.loc(cls, meth)
        pc = one(s.paths(b2, cls, meth), con4)
        ok = False
        det = show(pc.ret, maxlen=300)
        r = pc.ret
        if isinstance(r, tuple) and r[0] == "item" and r[2] == 0 and isinstance(r[1], tuple) and r[1][0] == "scan":
            sc = r[1]
            xs = sc[3]
            ok_xs = (isinstance(xs, tuple) and xs[0] == "call" and xs[1] == ("global", "jax.random.split") and len(xs[2]) == 2
                     and xs[2][0] == ("param", "key") and xs[2][1] == ("attr", ("param", "self"), attr))
            s.ob("C05.4", con4, ok_xs, f"scans over jr.split(key, self.{attr}): exactly {attr} steps", loc4, key="scan-length",
                 detail=show(xs, maxlen=160), necessary_for="warm-up stores exactly learning_starts transitions per environment; every iteration adds num_steps")
            s.ob("C05.4", con4, sc[2] == ("param", "step_state"), "the scan starts from the incoming step state", loc4, key="scan-init")
            body = sc[1]
            if isinstance(body, Closure):
                out = b2.apply(body, (("param", "$carry"), ("param", "$k")), ())
                stepc = [x for x in walk(out) if isinstance(x, tuple) and x and x[0] == "call" and x[1] == ("attr", ("param", "self"), "step")]
                okb = False
                if len(stepc) == 1 and isinstance(out, tuple) and out[0] == "tuple" and len(out[1]) == 2:
                    _, _, fs = s.method(cls, "step")
                    m = bind_args(fs, stepc[0][2], stepc[0][3])
                    want_c = ("call", ("attr", ("param", "self"), "per_step"), (stepc[0],), ()) if per_step else stepc[0]
                    okb = (m.get("env") == ("param", "env") and m.get("policy") == ("param", "policy") and m.get("state") == ("param", "$carry")
                           and m.get("key") == ("param", "$k") and m.get("callback") == ("param", "callback") and out[1][0] == want_c)
                s.ob("C05.4", con4, okb, "scan body = one self.step(env, policy, carry, key=k, callback=callback) whose result is the new carry",
                     loc4, key="scan-body", detail=show(out, maxlen=300))
            ok = True
        s.ob("C05.4", con4, ok, "returns the final carry of one scan", loc4, key="returns-scan-carry", detail=det)
    for cname in ("DQN", "SAC"):
        bb = s.builder(inline=set())
        pp = one(s.paths(bb, cname, "per_step"), f"{cname}.per_step")
        s.ob("C05.4", f"{cname}.per_step", pp.ret == ("param", "step_state"), "per_step returns the step state unchanged",
             s.loc(cname, "per_step"), key="per-step-identity")
    # ------------------------------------------------------------ reset: warm-up before return, no train; C05.5 buffers
    b3 = s.builder(inline=set())
    nz3 = Normalizer(b3)
    conr = f"{cls}.reset"
    locr = s.loc(cls, "reset")
    _, _, finit = s.method("AbstractOffPolicyStepState", "initial")
    _, _, fcls = s.method(cls, "collect_learning_starts")
    single_test = nz3.canon(s.ref(b3, "self.num_envs == 1", {"self": ("param", "self")}))
    n_cases = set()
    for pr in live(s.paths(b3, cls, "reset")):
        single = any(nz3.canon(t) == single_test and v for t, v in pr.conds)
        n_cases.add(single)
        tag = "[num_envs==1]" if single else "[num_envs>1]"
        st = fields(pr.ret)
        ss = st.get("step_state")
        trains = [x for x in walk(pr.ret) if isinstance(x, tuple) and x and x[0] == "call" and isinstance(x[1], tuple) and x[1][0] == "attr"
                  and x[1][2] in ("train", "dqn_train", "sac_train")]
        s.ob("C05.4", conr + tag, not trains, "no training call is reachable in reset (warm-up precedes the first update)", locr,
             key="train-in-reset", detail=str(len(trains)))
        if single:
            ok = (isinstance(ss, tuple) and ss[0] == "call" and ss[1] == ("attr", ("param", "self"), "collect_learning_starts"))
            s.ob("C05.4", conr + tag, ok, "the initial step state is the result of collect_learning_starts", locr, key="warmup-in-reset",
                 detail=show(ss or NONE, maxlen=200), necessary_for="warm-up happens before the first update")
            if ok:
                m = bind_args(fcls, ss[2], ss[3])
                init = m.get("step_state")
                oki = isinstance(init, tuple) and init[0] == "call" and isinstance(init[1], Closure) is False
                # initial(...) is a classmethod reference on AbstractOffPolicyStepState
                mi = None
                if isinstance(init, tuple) and init[0] == "call":
                    mi = bind_args(finit, init[2], init[3])
                # on this path num_envs == 1: a per-environment capacity written buffer_size // num_envs IS buffer_size here
                size1 = mi.get("size") if mi is not None else None
                self_b = ("attr", ("param", "self"), "buffer_size")
                per_env = [("bin", "FloorDiv", self_b, ("attr", ("param", "self"), "num_envs")), ("bin", "FloorDiv", self_b, ("const", 1))]
                s.ob("C05.5", conr + tag, size1 is not None and (size1 == self_b or size1 in per_env),
                     "single environment: the buffer is built with size self.buffer_size", locr, key="buffer-size-single",
                     detail=show(init or NONE, maxlen=200))
        else:
            ok = (isinstance(ss, tuple) and ss[0] == "call" and isinstance(ss[1], tuple) and ss[1][0] == "vmapfn"
                  and isinstance(ss[1][1], Closure) and ss[1][1].name == "collect_learning_starts")
            s.ob("C05.4", conr + tag, ok, "the initial step state is vmap(collect_learning_starts)(...)", locr, key="warmup-in-reset",
                 detail=show(ss or NONE, maxlen=200))
            if ok:
                m = bind_args(fcls, ss[2], ss[3])
                axes = dict(ss[1][2]).get("in_axes")
                want_axes = s.ref(b3, "(None, None, 0, None, 0)", {})
                s.ob("C05.5", conr + tag, axes == want_axes, "warm-up in_axes = (None, None, 0, None, 0): step state and keys are per-environment", locr,
                     key="warmup-in-axes", detail=show(axes or NONE))
                kk = m.get("key")
                okk = isinstance(kk, tuple) and kk[0] == "call" and kk[1] == ("global", "jax.random.split") and len(kk[2]) == 2 \
                    and kk[2][1] == ("attr", ("param", "self"), "num_envs")
                s.ob("C05.5", conr + tag, okk, "warm-up keys are jr.split(k, self.num_envs)", locr, key="warmup-keys", detail=show(kk or NONE, maxlen=120))
                init = m.get("step_state")
                oki = (isinstance(init, tuple) and init[0] == "call" and isinstance(init[1], tuple) and init[1][0] == "vmapfn"
                       and isinstance(init[1][1], Closure) and init[1][1].name == "initial")
                s.ob("C05.5", conr + tag, oki, "the per-environment step states (and their buffers) are built under vmap", locr, key="init-vmapped",
                     detail=show(init or NONE, maxlen=200), necessary_for="each environment adds to its own buffer")
                if oki:
                    mi = bind_args(finit, init[2], init[3])
                    want = s.ref(b3, "self.buffer_size // self.num_envs", {"self": ("param", "self")})
                    s.eq("C05.5", conr + tag, nz3, mi.get("size", NONE), want, "per-environment buffer size == buffer_size // num_envs", locr,
                         key="buffer-size-multi")
                    axes = dict(init[1][2]).get("in_axes")
                    s.ob("C05.5", conr + tag, axes == s.ref(b3, "(None, None, None, None, 0)", {}), "initial in_axes = (None, None, None, None, 0)", locr,
                         key="init-in-axes", detail=show(axes or NONE))
    if n_cases != {True, False}:
        raise AnalysisError(f"{conr}: expected single- and multi-environment cases")
    # initial(): the buffer is built from the env's spaces and the fresh policy state
    b5 = s.builder(inline=set())
    coni = "AbstractOffPolicyStepState.initial"
    pi = one(s.paths(b5, "AbstractOffPolicyStepState", "initial"), coni)
    r = pi.ret
    # cls(env_state, policy_state, callback_state, buffer), positionally or by field name
    order = [f_.name for f_ in s.prog.dataclass_fields(s.prog.cls("AbstractOffPolicyStepState"))]
    argmap = None
    if isinstance(r, tuple) and r[0] == "call" and r[1] == ("param", "cls") and not any(k_ is None for k_, _ in r[3]):
        argmap = dict(zip(order, r[2]))
        for k_, v_ in r[3]:
            argmap = None if (argmap is None or k_ in argmap or k_ not in order) else dict(argmap, **{k_: v_})
    okc = argmap is not None and set(argmap) == set(order) and "buffer" in argmap
    s.ob("C05.5", coni, okc, "initial returns cls(env_state, policy_state, callback_state, buffer)", s.loc("AbstractOffPolicyStepState", "initial"),
         key="initial-shape", detail=show(r, maxlen=200))
    if okc:
        bufn = argmap["buffer"]
        fb = fields(bufn)
        s.ob("C05.5", coni, isinstance(bufn, tuple) and bufn[0] == "record" and bufn[1].endswith("ReplayBuffer")
             and fb.get("size", fb.get("arg:size")) == ("param", "size"), "the buffer is a ReplayBuffer of the requested size",
             s.loc("AbstractOffPolicyStepState", "initial"), key="initial-buffer", detail=show(bufn, maxlen=200))
    # C05.5 what add() does with these arguments: the buffer stores each argument unchanged in the like-named field of one slot
    # (a buffer that rewrites `done` or shifts a flag to another slot makes the stored transition differ from what happened)
    from .C06 import check_add
    check_add(s, "C05.5", "C05.5")
    # C05.6 the counts the collection runs with are the configured ones: learning_starts, num_steps, num_envs and buffer_size reach the
    # like-named attributes unchanged (a constructor that "rounds learning_starts up to a batch" stores more warm-up transitions than asked)
    from .util import ctor_wiring
    for cls_ in ("DQN", "SAC"):
        ctor_wiring(s, "C05.6", cls_, necessary_for="warm-up stores exactly learning_starts transitions per environment; every iteration adds num_steps per environment",
                    skip=tuple(a for a in ("gamma", "tau", "batch_size", "policy_frequency", "autotune", "initial_alpha", "target_update_interval", "max_grad_norm")))
    from .util import no_late_binding
    no_late_binding(s, "C05.5", ("lerax.buffer", "lerax.algorithm.off_policy"))
    # ---------------------------------------------------------------- C05.7 `done = terminal or truncated` and the timeout flag are read off env.terminal /
    # env.truncate of whatever stack the collector is given: every wrapper hands the inner flags through and TimeLimit ORs its own
    # count with the inner truncation (closed form), so a truncation raised inside the stack reaches the stored flags
    from .C13 import check_delegation, check_timelimit
    check_delegation(s, "C05.7", ["terminal", "truncate"])
    check_timelimit(s, "C05.7")

    for r_, n in (("C05.7", 20), ("C05.1", 20), ("C05.2", 4), ("C05.3", 4), ("C05.4", 10), ("C05.5", 7), ("C05.5", 40)):
        s.floor(r_, n)
