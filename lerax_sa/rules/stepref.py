"""Reference dataflow of one collection step, shared by C04 (on-policy), C05 (off-policy) and C19."""
from __future__ import annotations

from ..vgraph import KEY

BIND = {k: ("param", k) for k in ("env", "policy", "state", "self", "callback")}
BIND["K"] = KEY

COMMON = """
obs = env.observation(state.env_state, key=K)
"""

ON_POLICY = COMMON + """
mask = env.action_mask(state.env_state, key=K)
av = policy.action_and_value(state.policy_state, obs, key=K, action_mask=mask)
nps = av[0]
action = av[1]
value = av[2]
logp = av[3]
act_env = {ACT}
s1 = env.transition(state.env_state, act_env, key=K)
r = env.reward(state.env_state, act_env, s1, key=K)
term = env.terminal(s1, key=K)
trunc = env.truncate(s1)
done = term | trunc
boot_pred = trunc & ~term
boot_val = r + self.gamma * policy.value(nps, env.observation(s1, key=K))[1]
env_next = lax.cond(done, lambda: env.initial(key=K), lambda: s1)
pol_next = lax.cond(done, lambda: policy.reset(key=K), lambda: nps)
"""

OFF_POLICY = COMMON + """
pa = policy(state.policy_state, obs, key=K)
nps = pa[0]
action = pa[1]
act_env = {ACT}
s1 = env.transition(state.env_state, act_env, key=K)
r = env.reward(state.env_state, act_env, s1, key=K)
term = env.terminal(s1, key=K)
trunc = env.truncate(s1)
done = term | trunc
timeout = trunc & ~term
next_obs = env.observation(s1, key=K)
env_next = lax.cond(done, lambda: env.initial(key=K), lambda: s1)
pol_next = lax.cond(done, lambda: policy.reset(key=K), lambda: nps)
"""

ACT_BOX = "jnp.clip(action, env.action_space.low, env.action_space.high)"
ACT_OTHER = "action"


def box_case(path):
    """True/False for the static case isinstance(env.action_space, Box); None if the path has no such split."""
    for t, v in path.conds:
        if isinstance(t, tuple) and t[0] == "call" and t[1] == ("global", "isinstance") and len(t[2]) == 2 \
                and t[2][0] == ("attr", ("param", "env"), "action_space") and t[2][1] == ("global", "lerax.space.box.Box"):
            return v
    return None
