"""Reference dataflow of one collection step, shared by C04 (on-policy), C05 (off-policy) and C19."""
from __future__ import annotations

from ..vgraph import KEY

BIND = {k: ("param", k) for k in ("env", "policy", "state", "self", "callback")}
BIND["K"] = KEY

COMMON = """
obs = env.observation(state.env_state, key=K)
"""

ON_POLICY = COMMON + """
mask = env.action_mask(state.env_state, key=K)
av = policy.action_and_value(state.policy_state, obs, key=K, action_mask=mask)
nps = av[0]
action = av[1]
value = av[2]
logp = av[3]
act_env = {ACT}
s1 = env.transition(state.env_state, act_env, key=K)
r = env.reward(state.env_state, act_env, s1, key=K)
term = env.terminal(s1, key=K)
trunc = env.truncate(s1)
done = term | trunc
boot_pred = trunc & ~term
boot_val = r + self.gamma * policy.value(nps, env.observation(s1, key=K))[1]
env_next = lax.cond(done, lambda: env.initial(key=K), lambda: s1)
pol_next = lax.cond(done, lambda: policy.reset(key=K), lambda: nps)
"""

OFF_POLICY = COMMON + """
pa = policy(state.policy_state, obs, key=K)
nps = pa[0]
action = pa[1]
act_env = {ACT}
s1 = env.transition(state.env_state, act_env, key=K)
r = env.reward(state.env_state, act_env, s1, key=K)
term = env.terminal(s1, key=K)
trunc = env.truncate(s1)
done = term | trunc
timeout = trunc & ~term
next_obs = env.observation(s1, key=K)
env_next = lax.cond(done, lambda: env.initial(key=K), lambda: s1)
pol_next = lax.cond(done, lambda: policy.reset(key=K), lambda: nps)
"""

ACT_BOX = "jnp.clip(action, env.action_space.low, env.action_space.high)"
ACT_OTHER = "action"


def box_case(path):
    """True/False for the static case isinstance(env.action_space, Box); None if the path has no such split."""
    for t, v in path.conds:
        if isinstance(t, tuple) and t[0] == "call" and t[1] == ("global", "isinstance") and len(t[2]) == 2 \
                and t[2][0] == ("attr", ("param", "env"), "action_space") and t[2][1] == ("global", "lerax.space.box.Box"):
            return v
    # the split is there but tests another object (e.g. env.unwrapped.action_space): still the Box / non-Box case split; the
    # comparison with the reference (which clips to env.action_space's bounds) then shows what is different
    for t, v in path.conds:
        if isinstance(t, tuple) and t[0] == "call" and t[1] == ("global", "isinstance") and len(t[2]) == 2 and t[2][1] == ("global", "lerax.space.box.Box"):
            return v
    return None


# ----------------------------------------------------------------------------- shared producer-side facts
def on_policy_rows(s):
    """Per static case of AbstractActorCriticOnPolicyAlgorithm.step: the buffer row written and the reference dataflow.
    Used by the consumers of the rollout (C03 estimator, C08 losses) for the clauses that compose producer and consumer."""
    from ..model import AnalysisError
    from ..norm import Normalizer
    from ..vgraph import strip_keys
    from .util import fields, live

    cls = "AbstractActorCriticOnPolicyAlgorithm"
    b = s.builder(inline=set())
    nz = Normalizer(b)
    out = []
    for p in live(s.paths(b, cls, "step")):
        box = box_case(p)
        if box is None:
            raise AnalysisError(f"{cls}.step: static case split on isinstance(env.action_space, Box) vanished")
        ref = s.refprog(b, ON_POLICY.replace("{ACT}", ACT_BOX if box else ACT_OTHER), BIND)
        ret = strip_keys(p.ret)
        if not (isinstance(ret, tuple) and ret[0] == "tuple" and len(ret[1]) == 2):
            raise AnalysisError(f"{cls}.step[Box={box}]: step does not return (step state, buffer row)")
        row = fields(ret[1][1])
        if not row:
            raise AnalysisError(f"{cls}.step[Box={box}]: buffer row is not a record construction")
        from ..vgraph import walk
        raw_row = fields(p.ret[1][1]) or {}
        avs_raw = {x for x in walk(("tuple", tuple(v for v in raw_row.values() if v is not None))) if isinstance(x, tuple) and x and x[0] == "call"
                   and isinstance(x[1], tuple) and x[1][0] == "attr" and x[1][2] == "action_and_value"}
        out.append({"con": f"{cls}.step[Box={box}]", "box": box, "row": row, "ref": ref, "b": b, "nz": nz, "loc": s.loc(cls, "step"),
                    "policy_calls": len(avs_raw)})
    if {o["box"] for o in out} != {True, False}:
        raise AnalysisError(f"{cls}.step: expected both static action-space cases")
    return out


def off_policy_adds(s):
    """Per static case of AbstractOffPolicyAlgorithm.step: the arguments of the one buffer.add call and the reference dataflow."""
    from ..model import AnalysisError
    from ..norm import Normalizer
    from ..vgraph import strip_keys
    from .util import bind_args, fields, live

    cls = "AbstractOffPolicyAlgorithm"
    b = s.builder(inline=set())
    nz = Normalizer(b)
    _, _, fadd = s.method("ReplayBuffer", "add")
    out = []
    for p in live(s.paths(b, cls, "step")):
        box = box_case(p)
        ref = s.refprog(b, OFF_POLICY.replace("{ACT}", ACT_BOX if box else ACT_OTHER), BIND)
        st = fields(strip_keys(p.ret))
        buf = st.get("buffer") if st else None
        if not (isinstance(buf, tuple) and buf[0] == "call" and buf[1] == ("attr", ("attr", ("param", "state"), "buffer"), "add")):
            raise AnalysisError(f"{cls}.step[Box={box}]: the carried buffer is not state.buffer.add(...)")
        out.append({"con": f"{cls}.step[Box={box}]", "box": box, "args": bind_args(fadd, buf[2], buf[3]), "ref": ref, "b": b, "nz": nz, "loc": s.loc(cls, "step")})
    if {o["box"] for o in out} != {True, False}:
        raise AnalysisError(f"{cls}.step: expected both static action-space cases")
    return out
