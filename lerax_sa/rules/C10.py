"""C10 — training schedule: step budget, iteration counter, target-network updates."""
from __future__ import annotations

from ..model import AnalysisError
from ..norm import Normalizer, show_term
from ..vgraph import NONE, Closure, show, walk
from .util import bind_args, fields, live, one

EXPLANATION = (
    "Counters and gating on the value graph. C10.1 num_iterations == total_timesteps // (num_envs*num_steps) in both families "
    "and learn scans self.iteration over jr.split(learn_key, num_iterations(total_timesteps)) and returns the final state's policy; "
    "C10.2 every iteration implementation (on-policy, off-policy, DQN, SAC; state.next and with_callback_states inlined) returns "
    "self.per_iteration(S) where S.iteration_count == state.iteration_count + 1 (exactly one increment), S.step_state is the "
    "collection result and S.policy/opt_state the training result; C10.3 AbstractAlgorithmState.next; C10.4 DQN hard update: "
    "target' = cond(count % interval == 0, policy, target) on the post-increment count, reset seeds target with the online policy; "
    "C10.5 SAC polyak tau*online + (1-tau)*target with (qf1,qf1_target)/(qf2,qf2_target) pairing and aligned write-back; C10.6 SAC "
    "actor/temperature gating by count % policy_frequency == 0, temperature only in the autotune case, write-back alignment of "
    "sac_train's result tuple; SAC.reset seeds each target critic with its own online critic, the two online critics built from different keys."
)
ASSUMPTIONS = [
    "lax.scan runs the body once per row of xs; lax.cond / filter_cond select as documented",
    "jax.tree.map applies the leaf function leaf-wise; eqx.partition/combine are inverse on the same filter",
]

ITER_INLINE = {"next", "with_callback_states"}


def check_iteration(s, cls, train_name):
    P = s.prog
    b = s.builder(inline=ITER_INLINE)
    nz = Normalizer(b)
    con = f"{cls}.iteration"
    loc = s.loc(cls, "iteration")
    state = ("param", "state")
    self_ = ("param", "self")
    single_t = nz.canon(s.ref(b, "self.num_envs == 1", {"self": self_}))
    cases = set()
    for p in live(s.paths(b, cls, "iteration")):
        single = any(nz.canon(t) == single_t and v for t, v in p.conds)
        cases.add(single)
        tag = "[num_envs==1]" if single else "[num_envs>1]"
        r = p.ret
        ok = isinstance(r, tuple) and r[0] == "call" and r[1] == ("attr", self_, "per_iteration") and len(r[2]) == 1
        s.ob("C10.2", con + tag, ok, "iteration returns self.per_iteration(<new state>)", loc, key="per-iteration-applied", detail=show(r, maxlen=160),
             necessary_for="target-network bookkeeping happens exactly once per iteration")
        if not ok:
            continue
        S = r[2][0]
        if isinstance(S, tuple) and S and S[0] == "ite":
            # a run-time selection between two successor states: the selection is pushed into the fields that differ, so that a field
            # that is only conditionally advanced (the counter, say) shows as such
            from .util import merge_nodes
            S = merge_nodes(S[1], S[2], S[3])
        okS = isinstance(S, tuple) and S and S[0] == "update" and S[1] == state
        s.ob("C10.2", con + tag, okS, "the new state is the old one with fields replaced (one functional update of `state`)", loc, key="state-update", detail=show(S, maxlen=200),
             necessary_for="each iteration advances the iteration counter by one")
        if not okS:
            continue
        f = fields(S)
        s.eq("C10.2", con + tag, nz, f.get("iteration_count", NONE), s.ref(b, "state.iteration_count + 1", {"state": state}),
             "the iteration counter advances by exactly one", loc, key="count-increment",
             necessary_for="each iteration advances the iteration counter by one")
        trains = [x for x in walk(S) if isinstance(x, tuple) and x and x[0] == "call" and x[1] == ("attr", self_, train_name)]
        s.ob("C10.2", con + tag, len(trains) == 1, f"one self.{train_name} call per iteration", loc, key="one-train", detail=str(len(trains)))
        if len(trains) != 1:
            continue
        T = trains[0]
        s.ob("C10.2", con + tag, f.get("policy") == ("item", T, 0) and f.get("opt_state") == ("item", T, 1),
             "the new state's policy / opt_state are elements 0 / 1 of the training call", loc, key="train-writeback",
             detail=f"{show(f.get('policy', NONE), maxlen=100)} / {show(f.get('opt_state', NONE), maxlen=100)}")
        ss = f.get("step_state")
        src = ss[1] if isinstance(ss, tuple) and ss[0] == "item" and ss[2] == 0 else ss  # on-policy returns (step_state, buffer)
        if single:
            okc = isinstance(src, tuple) and src[0] == "call" and src[1] == ("attr", self_, "collect_rollout")
            args = src[2] if okc else ()
        else:
            okc = (isinstance(src, tuple) and src[0] == "call" and isinstance(src[1], tuple) and src[1][0] == "vmapfn"
                   and isinstance(src[1][1], Closure) and src[1][1].name == "collect_rollout")
            args = src[2] if okc else ()
        s.ob("C10.2", con + tag, okc, "the new step state comes from " + ("collect_rollout" if single else "vmap(collect_rollout)"), loc,
             key="collection-source", detail=show(ss or NONE, maxlen=200), necessary_for="each iteration consumes num_envs*num_steps environment steps")
        if okc:
            want = [("attr", state, "env"), ("attr", state, "policy"), ("attr", state, "step_state"), ("param", "callback")]
            s.ob("C10.2", con + tag, list(args[:4]) == want, "collection receives (state.env, state.policy, state.step_state, callback)", loc,
                 key="collection-args", detail=show(("tuple", tuple(args[:4])), maxlen=200))
            if not single:
                k = args[4] if len(args) > 4 else NONE
                okk = isinstance(k, tuple) and k[0] == "call" and k[1] == ("global", "jax.random.split") and len(k[2]) == 2 \
                    and k[2][1] == ("attr", self_, "num_envs")
                s.ob("C10.2", con + tag, okk, "one collection key per environment: jr.split(k, self.num_envs)", loc, key="collection-keys",
                     detail=show(k, maxlen=120))
        # the training call consumes this iteration's data and the pre-update policy
        _, _, ft = s.method(cls, train_name)
        m = bind_args(ft, T[2], T[3])
        s.ob("C10.2", con + tag, m.get("policy") == ("attr", state, "policy") and m.get("opt_state") == ("attr", state, "opt_state"),
             "training starts from state.policy / state.opt_state", loc, key="train-inputs", detail=show(T, maxlen=200))
        if isinstance(ss, tuple) and ss[0] == "item":
            want_buf = ("item", ss[1], 1)  # on-policy: the rollout returned by the same collection call
        else:
            want_buf = ("attr", ss, "buffer")  # off-policy: the replay buffer of the NEW step state
        s.ob("C10.2", con + tag, m.get("buffer") == want_buf, "training consumes the data of this iteration's collection (not the previous state's)", loc, key="train-data",
             detail=show(m.get("buffer", NONE), maxlen=160), necessary_for="each iteration learns from the steps it just consumed")
        yield tag, f, T, m
    if cases != {True, False}:
        raise AnalysisError(f"{con}: expected single- and multi-environment cases")


def check_sac_gates(s, rule="C10.6", necessary=None):
    """SAC.sac_train: the actor (and, with autotune, the temperature) is replaced exactly under `iteration_count % policy_frequency == 0`
    and returned unchanged otherwise; without autotune the temperature is returned unchanged."""
    self_ = ("param", "self")
    b = s.builder(inline=set())
    nz = Normalizer(b)
    con7 = "SAC.sac_train"
    loc7 = s.loc("SAC", "sac_train")
    gate = nz.canon(s.ref(b, "iteration_count % self.policy_frequency == 0", {"iteration_count": ("param", "iteration_count"), "self": self_}))
    ngate = nz.boolean(("un", "Invert", s.ref(b, "iteration_count % self.policy_frequency == 0", {"iteration_count": ("param", "iteration_count"), "self": self_})))
    seen = set()
    for p in live(s.paths(b, "SAC", "sac_train")):
        auto = any(v for t, v in p.conds if t == ("attr", self_, "autotune"))
        seen.add(auto)
        tag = f"[autotune={auto}]"
        from .util import tuple_elems
        ret = tuple_elems(b, p.ret)
        if ret is None or len(ret) != 8:
            raise AnalysisError(f"{con7}: expected an 8-tuple return")
        names = ["policy", "opt_state", "qf1", "qf2", "q_opt_state", "log_alpha", "alpha_opt_state", "log"]
        out = dict(zip(names, ret))

        def gated(nm):
            c = nz.canon(out[nm])
            if not (isinstance(c, tuple) and c and c[0] == "ite"):
                return False, show_term(c, 200)
            old = ("p", nm)
            ok_ = (c[1] == gate and c[3] == old and c[2] != old) or (c[1] == ngate and c[2] == old and c[3] != old)
            return ok_, show_term(c, 300)

        for nm in ("policy", "opt_state"):
            ok_, det = gated(nm)
            s.ob(rule, con7 + tag, ok_, f"{nm}' == cond(iteration_count % policy_frequency == 0, updated, unchanged input)", loc7, key=f"gate-{nm}",
                 detail=det, necessary_for="the actor changes only on every policy_frequency-th iteration")
        for nm in ("log_alpha", "alpha_opt_state"):
            if auto:
                ok_, det = gated(nm)
                s.ob(rule, con7 + tag, ok_, f"{nm}' == cond(gate, updated, unchanged input)", loc7, key=f"gate-{nm}", detail=det,
                     necessary_for="the temperature changes only on every policy_frequency-th iteration")
            else:
                s.ob(rule, con7 + tag, out[nm] == ("param", nm), f"without autotune {nm} is returned unchanged", loc7, key=f"frozen-{nm}",
                     detail=show(out[nm], maxlen=160), necessary_for="the temperature changes only when autotuning is on")
    if seen != {True, False}:
        raise AnalysisError(f"{con7}: expected both autotune cases")


def check_sac_target_init(s, rule="C10.6", necessary=None):
    """SAC.reset: each target critic starts as its own online critic (target_i == online_i as values), the two online critics are
    distinct values (their keys differ), and the critic optimiser is initialised over the parameters of exactly these two critics.
    Polyak averaging keeps (1 - tau)^n of the initial target: a target seeded with the other critic is not the average of its own."""
    b = s.builder()
    nz = Normalizer(b)
    con = "SAC.reset"
    loc = s.loc("SAC", "reset")
    ps = live(s.paths(b, "SAC", "reset"))
    if not ps:
        raise AnalysisError(f"{con}: no returning path")
    nec = necessary or "each target critic is the Polyak average of its own online critic from the first update on"
    for p in ps:
        f = fields(p.ret)
        if not {"qf1", "qf2", "qf1_target", "qf2_target"} <= set(f):
            raise AnalysisError(f"{con}: the returned state has no critic fields")
        c = {k: nz.canon(f[k]) for k in ("qf1", "qf2", "qf1_target", "qf2_target")}
        for i in ("1", "2"):
            s.ob(rule, con, c[f"qf{i}_target"] == c[f"qf{i}"], f"qf{i}_target starts as the online critic qf{i}", loc, key=f"target-init-qf{i}",
                 detail=show(f[f"qf{i}_target"], maxlen=200), necessary_for=nec)
        s.ob(rule, con, c["qf1"] != c["qf2"], "the two online critics are built from different keys", loc, key="critics-distinct",
             detail=show(f["qf2"], maxlen=200), necessary_for="the minimum over two critics is over two independently initialised estimators")


def check(s):
    P = s.prog
    self_ = ("param", "self")
    state = ("param", "state")
    # ---------------------------------------------------------------- C10.1
    for cls in ("AbstractOnPolicyAlgorithm", "AbstractOffPolicyAlgorithm"):
        b = s.builder(inline=set())
        nz = Normalizer(b)
        p = one(s.paths(b, cls, "num_iterations"), f"{cls}.num_iterations")
        s.eq("C10.1", f"{cls}.num_iterations", nz, p.ret, s.ref(b, "total_timesteps // (self.num_envs * self.num_steps)",
                                                                 {"self": self_, "total_timesteps": ("param", "total_timesteps")}),
             "num_iterations == total_timesteps // (num_envs·num_steps)", s.loc(cls, "num_iterations"), key="num-iterations",
             necessary_for="exactly floor(total_timesteps / (num_envs*num_steps)) iterations")
    for sub in P.subclasses("AbstractAlgorithm"):
        if "num_iterations" in sub.methods and sub.name not in ("AbstractOnPolicyAlgorithm", "AbstractOffPolicyAlgorithm"):
            s.ob("C10.1", f"{sub.name}.num_iterations", False, "no other class overrides num_iterations", P.loc(sub.module, sub.node), key="override")
    b = s.builder(inline={"with_callback_states"})
    nz = Normalizer(b)
    con = "AbstractAlgorithm.learn"
    loc = s.loc("AbstractAlgorithm", "learn")
    for p in live(s.paths(b, "PPO", "learn")):
        r = p.ret
        scans = [x for x in walk(r) if isinstance(x, tuple) and x and x[0] == "scan"]
        s.ob("C10.1", con, len(scans) == 1, "learn contains one scan over iterations", loc, key="one-scan", detail=str(len(scans)))
        if len(scans) != 1:
            continue
        sc = scans[0]
        xs = sc[3]
        okx = (isinstance(xs, tuple) and xs[0] == "call" and xs[1] == ("global", "jax.random.split") and len(xs[2]) == 2
               and xs[2][1] == ("call", ("attr", self_, "num_iterations"), (("param", "total_timesteps"),), ()))
        s.ob("C10.1", con, okx, "the scan runs over jr.split(learn_key, self.num_iterations(total_timesteps))", loc, key="scan-length",
             detail=show(xs, maxlen=160))
        body = sc[1]
        if isinstance(body, Closure):
            out = b.apply(body, (("param", "$s"), ("param", "$k")), ())
            want = ("tuple", (("call", ("attr", self_, "iteration"), (("param", "$s"),), (("key", ("param", "$k")), ("callback", None))), ("const", None)))
            okb = (isinstance(out, tuple) and out[0] == "tuple" and len(out[1]) == 2 and isinstance(out[1][0], tuple) and out[1][0][0] == "call"
                   and out[1][0][1] == ("attr", self_, "iteration") and out[1][0][2] == (("param", "$s"),)
                   and dict((k, v) for k, v in out[1][0][3] if k).get("key") == ("param", "$k"))
            s.ob("C10.1", con, okb, "scan body == self.iteration(state, key=<scanned key>, callback=...) exactly once", loc, key="scan-body",
                 detail=show(out, maxlen=200))
        # return value: policy of the final scan carry (modulo callback-state updates)
        base = r
        s.ob("C10.1", con, isinstance(r, tuple) and ("item", sc, 0) in set(walk(r)) and nz.canon(r) == nz.canon(("attr", ("item", sc, 0), "policy")),
             "learn returns the policy field of the final scan carry", loc, key="returns-final-policy", detail=show(r, maxlen=200))
        # initial carry: self.reset(env, policy, ...) with callback-state update only
        init = sc[2]
        rs = [x for x in walk(init) if isinstance(x, tuple) and x and x[0] == "call" and x[1] == ("attr", self_, "reset")]
        s.ob("C10.1", con, len(rs) == 1 and rs[0][2][:2] == (("param", "env"), ("param", "policy")), "the scan starts from self.reset(env, policy, ...)",
             loc, key="scan-init", detail=show(init, maxlen=200))
    # ---------------------------------------------------------------- C10.3
    b = s.builder(inline=set())
    nz = Normalizer(b)
    p = one(s.paths(b, "AbstractAlgorithmState", "next"), "AbstractAlgorithmState.next")
    f = fields(p.ret)
    con3 = "AbstractAlgorithmState.next"
    loc3 = s.loc("AbstractAlgorithmState", "next")
    s.eq("C10.3", con3, nz, f.get("iteration_count", NONE), s.ref(b, "self.iteration_count + 1", {"self": self_}), "iteration_count' == iteration_count + 1",
         loc3, key="next-increment", necessary_for="the counter advances by one per iteration")
    s.ob("C10.3", con3, set(f) == {"iteration_count", "step_state", "policy", "opt_state"} and f.get("step_state") == ("param", "step_state")
         and f.get("policy") == ("param", "policy") and f.get("opt_state") == ("param", "opt_state"),
         "next replaces exactly (iteration_count, step_state, policy, opt_state), each by its like-named argument", loc3, key="next-fields",
         detail=str(sorted(f)))
    # ---------------------------------------------------------------- C10.2
    for cls, tn in (("PPO", "train"), ("A2C", "train"), ("REINFORCE", "train")):
        for _ in check_iteration(s, cls, tn):
            pass
    # the generic off-policy iteration is analysed through a class that does not override it: none exists (DQN and SAC both do),
    # so analyse it on the abstract class itself
    for _ in check_iteration(s, "AbstractOffPolicyAlgorithm", "train"):
        pass
    # ---------------------------------------------------------------- C10.4 DQN
    for tag, f, T, m in check_iteration(s, "DQN", "dqn_train"):
        s.ob("C10.4", "DQN.iteration" + tag, m.get("target_policy") == ("attr", state, "target_policy") and m.get("buffer") is not None,
             "dqn_train receives state.target_policy", s.loc("DQN", "iteration"), key="train-target", detail=show(T, maxlen=200))
    b = s.builder(inline=set())
    nz = Normalizer(b)
    con4 = "DQN.per_iteration"
    loc4 = s.loc("DQN", "per_iteration")
    p = one(s.paths(b, "DQN", "per_iteration"), con4)
    f = fields(p.ret)
    ok = isinstance(p.ret, tuple) and p.ret[0] == "update" and p.ret[1] == state and set(f) == {"target_policy"}
    s.ob("C10.4", con4, ok, "per_iteration replaces exactly state.target_policy", loc4, key="target-field", detail=show(p.ret, maxlen=200))
    if ok:
        want = s.ref(b, "lax.cond(state.iteration_count % self.target_update_interval == 0, lambda: state.policy, lambda: state.target_policy)",
                     {"state": state, "self": self_})
        s.eq("C10.4", con4, nz, f["target_policy"], want,
             "target' == cond(iteration_count % target_update_interval == 0, online policy, old target)", loc4, key="hard-update",
             necessary_for="the target equals the online network as of the most recent multiple of the interval and is unchanged in between")
    b = s.builder(inline=ITER_INLINE | {"per_iteration"})
    nz = Normalizer(b)
    n = 0
    for p in live(s.paths(b, "DQN", "iteration")):
        f = fields(p.ret)
        tp = f.get("target_policy")
        ctp = nz.canon(tp) if tp is not None else None
        ok = isinstance(ctp, tuple) and ctp and ctp[0] == "ite"
        if ok:
            cnt = nz.canon(s.ref(b, "(state.iteration_count + 1) % self.target_update_interval == 0", {"state": state, "self": self_}))
            ncnt = nz.boolean(("un", "Invert", s.ref(b, "(state.iteration_count + 1) % self.target_update_interval == 0", {"state": state, "self": self_})))
            pol = nz.canon(f.get("policy", NONE))
            old = ("attr", ("p", "state"), "target_policy")
            ok = (ctp[1] == cnt and ctp[2] == pol and ctp[3] == old) or (ctp[1] == ncnt and ctp[3] == pol and ctp[2] == old)
        s.ob("C10.4", "DQN.iteration∘per_iteration", bool(ok),
             "within an iteration the copy test reads the post-increment count and copies the just-trained online policy", s.loc("DQN", "iteration"),
             key="post-increment-copy", detail=show_term(ctp, 400) if ctp else "no target_policy update")
        n += 1
    if n == 0:
        raise AnalysisError("DQN.iteration: no path")
    b = s.builder(inline=set())
    con5 = "DQN.reset"
    for p in live(s.paths(b, "DQN", "reset")):
        f = fields(p.ret)
        s.ob("C10.4", con5, f.get("target_policy") == ("param", "policy"), "reset initialises the target network with the online policy", s.loc("DQN", "reset"),
             key="reset-target", detail=show(f.get("target_policy", NONE), maxlen=120))
        base = [x for x in walk(p.ret) if isinstance(x, tuple) and x and x[0] == "call" and isinstance(x[1], Closure) is False
                and isinstance(x[1], tuple) and x[1][0] == "attr" and x[1][2] == "reset"]
    # ---------------------------------------------------------------- C10.5 SAC polyak
    b = s.builder(inline={"_soft_update_targets"})
    nz = Normalizer(b)
    con6 = "SAC.per_iteration"
    loc6 = s.loc("SAC", "per_iteration")
    p = one(s.paths(b, "SAC", "per_iteration"), con6)
    f = fields(p.ret)
    ok = isinstance(p.ret, tuple) and p.ret[0] == "update" and p.ret[1] == state and set(f) == {"qf1_target", "qf2_target"}
    s.ob("C10.5", con6, ok, "per_iteration replaces exactly (qf1_target, qf2_target)", loc6, key="target-fields", detail=show(p.ret, maxlen=240),
         necessary_for="the soft update happens exactly once per iteration")
    if ok:
        for i in ("1", "2"):
            ref = s.refprog(b, f"""
oa = eqx.partition(state.qf{i}, eqx.is_inexact_array)
ta = eqx.partition(state.qf{i}_target, eqx.is_inexact_array)
out = eqx.combine(jax.tree.map(lambda o, t: self.tau * o + (1 - self.tau) * t, oa[0], ta[0]), oa[1])
""", {"state": state, "self": self_})
            s.eq("C10.5", con6 + f".qf{i}_target", nz, f[f"qf{i}_target"], ref["out"],
                 f"qf{i}_target' == τ·qf{i} + (1−τ)·qf{i}_target leaf-wise (own pair, τ = self.tau)", loc6, key=f"polyak-qf{i}",
                 necessary_for="theta' <- tau*theta + (1-tau)*theta'")
    # ---------------------------------------------------------------- C10.6 SAC gating
    pos = {"policy": 0, "opt_state": 1, "qf1": 2, "qf2": 3, "q_opt_state": 4, "log_alpha": 5, "alpha_opt_state": 6}
    for tag, f, T, m in check_iteration(s, "SAC", "sac_train"):
        conI = "SAC.iteration" + tag
        for fld, i in pos.items():
            s.ob("C10.6", conI, f.get(fld) == ("item", T, i), f"state.{fld}' is element {i} of the sac_train result", s.loc("SAC", "iteration"),
                 key=f"writeback-{fld}", detail=show(f.get(fld, NONE), maxlen=120))
        for an in ("qf1", "qf2", "qf1_target", "qf2_target", "q_opt_state", "log_alpha", "alpha_opt_state", "target_entropy", "iteration_count"):
            s.ob("C10.6", conI, m.get(an) == ("attr", state, an), f"sac_train parameter `{an}` receives state.{an}", s.loc("SAC", "iteration"),
                 key=f"arg-{an}", detail=show(m.get(an, NONE), maxlen=100))
    check_sac_gates(s, "C10.6")
    check_sac_target_init(s, "C10.6")
    # C10.7 configuration wiring: update interval, tau, policy_frequency, num_envs, num_steps, learning_starts ... are the configured ones
    from .util import ctor_wiring
    for cls in ("PPO", "A2C", "REINFORCE", "DQN", "SAC"):
        ctor_wiring(s, "C10.7", cls, necessary_for="the schedule (steps per iteration, update interval, tau, policy frequency) is the configured one")
    for r_, n in (("C10.1", 7), ("C10.2", 60), ("C10.3", 2), ("C10.4", 6), ("C10.5", 3), ("C10.6", 40), ("C10.7", 40)):
        s.floor(r_, n)
