"""C16 — masked actions are never chosen; key-less policies act greedily."""
from __future__ import annotations

from ..model import AnalysisError
from ..norm import Normalizer, show_term
from ..vgraph import NONE, Closure, Ctx, show, walk
from .util import bind_args, entails, fields, kwargs_of, live, one

EXPLANATION = (
    "C16.1 every mask() (Categorical, Bernoulli, every MultiCategorical piece) builds its own class from logits whose normal form is "
    "select(mask, logits, -inf) (MultiCategorical: per piece, concatenated in order, with unchanged action_dims); C16.2 ActionLayer "
    "returns dist.mask(action_mask) exactly when a mask is given and the distribution is maskable, and every self.action_head(...) call "
    "in every policy entry point forwards the method's own action_mask; C16.3 the distribution class built for Discrete / MultiBinary / "
    "MultiDiscrete action spaces derives from AbstractMaskableDistribution; C16.4 in each policy __call__ the key-less case returns "
    "dist.mode() and the keyed case dist.sample(key) of the same (masked) distribution node; C16.5 epsilon-greedy: the masked "
    "distribution dominates both selections, exploration is taken under uniform(k) < epsilon (orientation and branch order), greedy "
    "when key is None or epsilon <= 0."
)
ASSUMPTIONS = [
    "distreqx Categorical / Bernoulli give probability 0 to entries with logit -inf and never sample or mode them while one finite logit exists",
    "jr.uniform is uniform on [0, 1)",
]


def check_mask_laws(s, rule="C16.1"):
    """mask() of the maskable laws returns a NEW law of the same class built through its constructor from
    select(mask, logits, -inf) only - which is what renormalises it (the wrapped distreqx law normalises in its constructor, nowhere
    else): a masked law is a probability law again, with the masked classes at probability zero."""
    self_ = ("param", "self")
    mask = ("param", "mask")
    for cls in ("Categorical", "Bernoulli"):
        b = s.builder(inline={"logits"})  # self.logits is read through to the wrapped law's logits (the property forwards them)
        nz = Normalizer(b)
        p = one(s.paths(b, cls, "mask"), f"{cls}.mask")
        loc = s.loc(cls, "mask")
        r = p.ret
        ok = isinstance(r, tuple) and r[0] == "record" and r[1].endswith("." + cls)
        s.ob(rule, f"{cls}.mask", ok, f"mask() returns a new {cls}", loc, key="mask-class", detail=show(r, maxlen=160))
        if not ok:
            continue
        f = fields(r)
        lg = f.get("arg:logits", f.get("logits"))
        want = s.ref(b, "jnp.where(mask, self.logits, -jnp.inf)", {"mask": mask, "self": self_})
        s.eq(rule, f"{cls}.mask", nz, lg if lg is not None else NONE, want, "masked logits == select(mask, logits, −inf)", loc, key="masked-logits",
             necessary_for="masked actions get probability zero and the remaining probabilities are renormalised proportionally")
        s.ob(rule, f"{cls}.mask", set(f) <= {"arg:logits", "logits"}, "the masked law is built from logits only (no stale probs)", loc, key="mask-args", detail=str(sorted(f)))
    b = s.builder(inline=set())
    nz = Normalizer(b)
    p = one(s.paths(b, "MultiCategorical", "mask"), "MultiCategorical.mask")
    loc = s.loc("MultiCategorical", "mask")
    r = p.ret
    ok = isinstance(r, tuple) and r[0] == "record" and r[1].endswith(".MultiCategorical")
    s.ob(rule, "MultiCategorical.mask", ok, "mask() returns a new MultiCategorical", loc, key="mask-class", detail=show(r, maxlen=160))
    if ok:
        f = fields(r)
        ref = s.refprog(b, """
pieces = self._split_or_unpack_params(mask, self.action_dims)[0]
lg = jnp.concatenate(tuple(jnp.where(m, d.logits, -jnp.inf) for d, m in zip(self.distribution, pieces)), axis=-1)
""", {"self": self_, "mask": mask})
        s.eq(rule, "MultiCategorical.mask", nz, f.get("arg:logits", NONE), ref["lg"],
             "masked logits == concatenate(select(mask_i, logits_i, −inf) per component, in component order)", loc, key="masked-logits",
             necessary_for="each component's masked actions get probability zero")
        s.ob(rule, "MultiCategorical.mask", f.get("arg:action_dims") == ("attr", self_, "action_dims"), "action_dims is carried over unchanged", loc, key="mask-action-dims",
             detail=show(f.get("arg:action_dims", NONE)))


def check_mask_gate(s, rule="C16.2"):
    """ActionLayer applies the mask exactly when one is given and the law is maskable (whatever kind of maskable law it is), and the
    policy forwards its own action_mask to the head when acting and when re-evaluating."""
    P = s.prog
    self_ = ("param", "self")
    # ---------------------------------------------------------------- C16.2
    b = s.builder(inline=set())
    nz = Normalizer(b)
    loc = s.loc("ActionLayer", "__call__")
    n_masked = n_plain = 0
    amask = ("param", "action_mask")
    for p in live(s.paths(b, "ActionLayer", "__call__")):
        # the gate is decided on the truth table of the path's decisions, so `if m is not None and isinstance(d, M): return d.mask(m)`,
        # the early-return De Morgan spelling, nested ifs and inverted branches are one and the same
        roots = [p.ret] + [t_ for t_, _ in p.conds]
        dists = {c for r_ in roots for c in walk(r_) if isinstance(c, tuple) and c and c[0] == "call" and c[1] == ("attr", self_, "action_dist")}
        s.ob(rule, "ActionLayer.__call__", len(dists) == 1, "dist = self.action_dist(features), one distribution per path", loc,
             key="dist-source", detail="; ".join(show(d_, maxlen=120) for d_ in dists) or "None")
        if len(dists) != 1:
            continue
        dist = next(iter(dists))
        gate = s.ref(b, "action_mask is not None and isinstance(dist, AbstractMaskableDistribution)",
                     {"action_mask": amask, "AbstractMaskableDistribution": ("global", P.cls("AbstractMaskableDistribution").qualname), "dist": dist})
        e = entails(nz, p.conds, gate)
        shown = f"conditions: {[(show(t_, maxlen=80), v_) for t_, v_ in p.conds]}; returns {show(p.ret, maxlen=120)}"
        if e is None:
            uses_mask = amask in set(walk(p.ret))
            s.ob(rule, "ActionLayer.__call__" + ("" if uses_mask else "[path without the mask gate]"), False,
                 "the mask is applied exactly when (action_mask is not None) and the distribution is maskable: every path decides both" if uses_mask else
                 "every path either applies the mask or has established that action_mask is None", loc, key="mask-gate" if uses_mask else "mask-ignored-path", detail=shown,
                 necessary_for="neither sampling nor the mode ever returns a masked action, for every policy configuration (head depth included)")
            continue
        s.ob(rule, "ActionLayer.__call__", True, "the path decides the gate (action_mask is not None) and isinstance(dist, AbstractMaskableDistribution)", loc, key="mask-gate")
        if e:
            n_masked += 1
            want = ("call", ("attr", dist, "mask"), (amask,), ())
            s.ob(rule, "ActionLayer.__call__[mask]", nz.canon(p.ret) == nz.canon(want), "returns dist.mask(action_mask)", loc, key="mask-applied", detail=shown,
                 necessary_for="neither sampling nor the mode ever returns a masked action, end-to-end through the policy")
        else:
            n_plain += 1
            s.ob(rule, "ActionLayer.__call__[no mask]", nz.canon(p.ret) == nz.canon(dist), "otherwise returns the distribution unchanged", loc, key="nomask-passthrough", detail=shown)
    if not (n_masked and n_plain):
        raise AnalysisError("ActionLayer.__call__: masked / unmasked cases missing")
    pol = "MLPActorCriticPolicy"
    for meth in ("__call__", "action_and_value", "evaluate_action"):
        bb = s.builder(inline=set())
        for p in live(s.paths(bb, pol, meth)):
            heads = [c for c in walk(p.ret) if isinstance(c, tuple) and c and c[0] == "call" and c[1] == ("attr", self_, "action_head")]
            s.ob(rule, f"{pol}.{meth}", len(heads) == 1 and kwargs_of(heads[0]).get("action_mask", heads[0][2][1] if len(heads[0][2]) > 1 else None) == ("param", "action_mask"),
                 "the single self.action_head(...) call forwards this method's own action_mask", s.loc(pol, meth), key="head-mask-forwarded",
                 detail="; ".join(show(h, maxlen=160) for h in heads), necessary_for="masks are honoured when acting and when re-evaluating stored actions")


def check(s):
    P = s.prog
    self_ = ("param", "self")
    mask = ("param", "mask")
    # ---------------------------------------------------------------- C16.1
    check_mask_laws(s, "C16.1")
    # ---------------------------------------------------------------- C16.2
    check_mask_gate(s, "C16.2")
    # ---------------------------------------------------------------- C16.3 registry
    b = s.builder(inline=set())
    m, fn = s.function("lerax.policy.actor", "make_action_layer")
    loc = P.loc(m, fn)
    maskable = P.cls("AbstractMaskableDistribution")
    seen = {}
    # the dispatcher is evaluated once per concrete space kind (the argument is an instance of that class, so isinstance chains, `match`
    # statements and dispatch tables probed in order all decide statically)
    kinds = [c for c in P.concrete_exported("lerax.space") if P.is_subclass(c, P.cls("AbstractSpace"))]
    for kc in kinds:
        space_kind = kc.name
        bk = s.builder(inline=set())
        ps = [p for p in s.fpaths(bk, "lerax.policy.actor", "make_action_layer", binding={"action_space": ("record", kc.qualname, ())}) if p.raised is None]
        if len(ps) != 1 or ps[0].conds or not (isinstance(ps[0].ret, tuple) and ps[0].ret[0] == "record" and ps[0].ret[1] in P.classes):
            continue
        p = ps[0]
        layer = P.classes[p.ret[1]]
        bl = s.builder(inline=set())
        call = P.resolve_method(layer, "__call__")
        dist_classes = set()
        for lp in live(bl.paths(call[1], Ctx(call[0].module, call[0], call[1], layer))):
            if isinstance(lp.ret, tuple) and lp.ret[0] == "record":
                dist_classes.add(lp.ret[1])
        seen[space_kind] = (layer.name, dist_classes)
        if space_kind in ("Discrete", "MultiBinary", "MultiDiscrete"):
            ok = bool(dist_classes) and all(P.is_subclass(P.classes[d], maskable) for d in dist_classes)
            s.ob("C16.3", f"make_action_layer[{space_kind}]", ok, f"the law built for {space_kind} actions derives from AbstractMaskableDistribution", loc, key="maskable-law",
                 detail=f"{layer.name} -> {sorted(d.split('.')[-1] for d in dist_classes)}", necessary_for="masks are effective for discrete, multi-discrete and multi-binary actions")
    s.ob("C16.3", "make_action_layer", {"Box", "Discrete", "MultiBinary", "MultiDiscrete"} <= set(seen), "one action layer per supported space kind", loc, key="registry-complete",
         detail=str({k: v[0] for k, v in seen.items()}))
    # ---------------------------------------------------------------- C16.4 key polarity
    for pol_cls in ("MLPActorCriticPolicy", "MLPSACPolicy"):
        b = s.builder(inline=set())
        loc = s.loc(pol_cls, "__call__")
        cases = {}
        for p in live(s.paths(b, pol_cls, "__call__")):
            nokey = [v for t, v in p.conds if t == ("cmp", "Is", ("param", "key"), NONE)] + \
                [not v for t, v in p.conds if t == ("cmp", "IsNot", ("param", "key"), NONE)]
            if len(nokey) != 1:
                raise AnalysisError(f"{pol_cls}.__call__: expected a `key is None` case split")
            act = p.ret[1][1] if isinstance(p.ret, tuple) and p.ret[0] == "tuple" and len(p.ret[1]) == 2 else None
            cases[nokey[0]] = act
        ok = set(cases) == {True, False}
        d0 = d1 = None
        if ok:
            a0, a1 = cases[True], cases[False]
            ok0 = isinstance(a0, tuple) and a0[0] == "call" and isinstance(a0[1], tuple) and a0[1][0] == "attr" and a0[1][2] == "mode" and not a0[2]
            ok1 = isinstance(a1, tuple) and a1[0] == "call" and isinstance(a1[1], tuple) and a1[1][0] == "attr" and a1[1][2] == "sample" and a1[2] == (("param", "key"),)
            s.ob("C16.4", f"{pol_cls}.__call__[key=None]", ok0, "without a key the action is dist.mode()", loc, key="keyless-mode", detail=show(a0 or NONE, maxlen=160),
                 necessary_for="without a key a policy acts deterministically with the mode (greedy) action")
            s.ob("C16.4", f"{pol_cls}.__call__[key]", ok1, "with a key the action is dist.sample(key)", loc, key="keyed-sample", detail=show(a1 or NONE, maxlen=160))
            if ok0 and ok1:
                s.ob("C16.4", f"{pol_cls}.__call__", a0[1][1] == a1[1][1], "mode and sample are taken from the same distribution node", loc, key="same-distribution",
                     detail=f"{show(a0[1][1], maxlen=120)} | {show(a1[1][1], maxlen=120)}")
        else:
            s.ob("C16.4", f"{pol_cls}.__call__", False, "both key cases exist", loc, key="key-cases")
    # MLPActorCriticPolicy: the log-prob reported by action_and_value is that of the distribution sampled (C04.9 covers the sibling agreement)
    # ---------------------------------------------------------------- C16.5 epsilon-greedy
    # (mask / logits are looked through on both sides, so the comparison reads the same whether Categorical defines them itself or
    # inherits them from a base class; what mask() does is C16.1's business)
    b = s.builder(inline={"mask", "logits"})
    nz = Normalizer(b)
    loc = s.loc("AbstractQPolicy", "__call__")
    combos = set()
    qbind = {"self": self_, "state": ("param", "state"), "observation": ("param", "observation"), "action_mask": ("param", "action_mask"),
             "Categorical": ("global", P.cls("Categorical").qualname)}
    want_gate = s.ref(b, "key is None or self.epsilon <= 0.0", {"key": ("param", "key"), "self": self_})
    for p in live(s.paths(b, "AbstractQPolicy", "__call__")):
        masked = entails(nz, p.conds, ("cmp", "IsNot", ("param", "action_mask"), NONE))
        greedy = entails(nz, p.conds, want_gate)
        shown = "; ".join(f"{show(t_, maxlen=80)}={v_}" for t_, v_ in p.conds)
        s.ob("C16.5", "AbstractQPolicy.__call__", masked is not None and greedy is not None,
             "every path decides whether a mask was given and whether it is greedy (`key is None or epsilon <= 0`)", loc, key="greedy-gate", detail=shown,
             necessary_for="without a key a Q policy acts greedily")
        if masked is None or greedy is None:
            continue
        combos.add((masked, greedy))
        tag = f"[mask={'given' if masked else 'None'}, {'greedy' if greedy else 'epsilon-greedy'}]"
        act = p.ret[1][1] if isinstance(p.ret, tuple) and p.ret[0] == "tuple" and len(p.ret[1]) == 2 else None
        qv = ("call", ("attr", self_, "q_values"), (("param", "state"), ("param", "observation")), ())
        base = [c for c in walk(act) if isinstance(c, tuple) and c and c[0] == "record" and c[1].endswith(".Categorical") and fields(c).get("arg:logits") == ("item", qv, 1)]
        okb = len(base) >= 1
        s.ob("C16.5", "AbstractQPolicy.__call__" + tag, okb, "the action law is Categorical(logits = q_values(state, observation)[1])", loc, key="q-logits",
             detail=show(act or NONE, maxlen=200))
        if not okb:
            continue
        D = s.ref(b, "Categorical(logits=self.q_values(state, observation)[1])" + (".mask(action_mask)" if masked else ""), qbind)
        cD = nz.canon(D)

        def on_law(c, meth, nargs):
            return isinstance(c, tuple) and c and c[0] == "call" and isinstance(c[1], tuple) and c[1][0] == "attr" and c[1][2] == meth and len(c[2]) == nargs and not c[3] \
                and nz.canon(c[1][1]) == cD

        if greedy:
            s.ob("C16.5", "AbstractQPolicy.__call__" + tag, on_law(act, "mode", 0), "the greedy action is the mode of the (masked) law", loc, key="greedy-mode", detail=show(act, maxlen=200),
                 necessary_for="masked actions are never chosen in deterministic mode")
        else:
            ok = isinstance(act, tuple) and act[0] == "ite"
            if ok:
                pred, tb, fb = act[1], act[2], act[3]
                okp = (isinstance(pred, tuple) and pred[0] == "cmp" and pred[1] == "Lt" and pred[3] == ("attr", self_, "epsilon")
                       and isinstance(pred[2], tuple) and pred[2][0] == "call" and pred[2][1] == ("global", "jax.random.uniform"))
                okp = okp or (isinstance(pred, tuple) and pred[0] == "cmp" and pred[1] == "Gt" and pred[2] == ("attr", self_, "epsilon")
                              and isinstance(pred[3], tuple) and pred[3][0] == "call" and pred[3][1] == ("global", "jax.random.uniform"))
                s.ob("C16.5", "AbstractQPolicy.__call__" + tag, okp, "exploration is taken under uniform(k) < epsilon", loc, key="explore-predicate", detail=show(pred, maxlen=160),
                     necessary_for="a Q policy departs from the greedy action with probability at most epsilon")
                oks = on_law(tb, "sample", 1)
                s.ob("C16.5", "AbstractQPolicy.__call__" + tag, oks and on_law(fb, "mode", 0), "explore branch samples the (masked) law, otherwise its mode (branch order)", loc, key="explore-branches",
                     detail=f"{show(tb, maxlen=140)} | {show(fb, maxlen=140)}", necessary_for="masked actions are never chosen in epsilon-greedy mode either")
                if okp and oks:
                    ku = pred[2][2][0] if pred[1] == "Lt" else pred[3][2][0]
                    s.ob("C16.5", "AbstractQPolicy.__call__" + tag, ku != tb[2][0], "the exploration coin and the exploratory sample use different keys", loc, key="explore-keys",
                         detail=f"{show(ku)} / {show(tb[2][0])}")
            else:
                s.ob("C16.5", "AbstractQPolicy.__call__" + tag, False, "epsilon-greedy selects between a sample and the mode", loc, key="explore-shape", detail=show(act or NONE, maxlen=200))
    if combos != {(True, True), (True, False), (False, True), (False, False)}:
        raise AnalysisError(f"AbstractQPolicy.__call__: expected four static cases, got {sorted(combos)}")
    # ---------------------------------------------------------------- C16.6 multi-discrete: the sampled law is the product law that is scored
    # "with a key it samples from the same distribution whose log-probability it reports": for multi-discrete actions the reported
    # log-probability is the sum over independent components, so the sample must draw every component with its own key split.
    from .C15 import check_product_law, check_thin_wrappers
    check_product_law(s, "C16.6", methods=("sample", "log_prob", "mode"))
    # the single-factor laws (Categorical, Bernoulli, Normal, ...) sample and score through the one wrapped distreqx law: none overrides
    # sample / log_prob / sample_and_log_prob / mode on its own
    check_thin_wrappers(s, "C16.6")
    # C16.7 the exploration rate a Q policy runs with is the configured one (epsilon=0.0 must stay 0.0: `epsilon or default` does not)
    from .util import ctor_wiring
    for qcls in [c.name for c in P.subclasses("AbstractQPolicy") if "__init__" in c.methods]:
        ctor_wiring(s, "C16.7", qcls, necessary_for="a Q policy departs from the greedy action with probability at most epsilon (the configured one)")
    # C16.3b every policy / action-head class can be instantiated (its constructor assigns every declared field)
    from .util import fields_initialised
    fields_initialised(s, "C16.3", [c for m_ in sorted(P.modules.values(), key=lambda m__: m__.name) if m_.name.startswith("lerax.policy") for c in m_.classes.values()],
                       necessary_for="masked actions are never chosen end-to-end through actor-critic policies for discrete, multi-discrete and multi-binary actions (the head must exist)")
    # C16.8 the greedy action is the most likely class also for large action spaces: the mode / draws handed out are not the wrapped
    # library's int8-narrowed indices (shared rule with C15.7)
    from .C15 import check_index_width
    check_index_width(s, "C16.8")
    for r_, n_ in (("C16.1", 9), ("C16.2", 10), ("C16.3", 4), ("C16.4", 6), ("C16.5", 16), ("C16.6", 4), ("C16.7", 1), ("C16.8", 6)):
        s.floor(r_, n_)
