"""C08 — on-policy losses equal the published objectives (PPO clip, A2C, REINFORCE)."""
from __future__ import annotations

from ..model import AnalysisError
from ..norm import Normalizer, show_term
from ..vgraph import FALSE, NONE, TRUE, Closure, show, walk
from .util import bind_args, fields, live, one

EXPLANATION = (
    "Normal-form equality between the value graph of each on-policy loss function (every static case of "
    "normalize_advantages / clip_value_loss) and reference expressions written from the published objectives: "
    "PPO clipped surrogate, k3 approx-KL, advantage normalisation, (clipped, PPO2 maximum) value error, entropy term, "
    "weighted total, stats field alignment; A2C / REINFORCE -E[log pi * A] + weighted terms; sibling agreement of the "
    "three losses on shared sub-terms. Optimiser discipline: constructors build chain(clip_by_global_norm(max_grad_norm), "
    "adam(learning_rate)) in that order; train/train_batch differentiate the loss w.r.t. the policy (parameter 0), bind "
    "every coefficient argument to the like-named attribute, apply optimizer.update then apply_updates, and return the "
    "updated policy and optimiser state. evaluate_action is fed (states, observations, actions, action_mask=action_masks) "
    "of one buffer. C08.8 composed with the collector: stored actions / log_probs / values are items of one action_and_value call."
)
ASSUMPTIONS = [
    "optax.chain / clip_by_global_norm / adam and eqx.filter_value_and_grad behave as documented (trusted)",
    "normal forms are compared over the reals; eqx.error_if guards are value-identities",
    "jax.vmap(policy.evaluate_action) applies evaluate_action row-wise (JAX contract)",
]

ADV_NORM = "(A0 - jnp.mean(A0)) / (jnp.std(A0) + jnp.finfo(A0.dtype).eps)"
RATIO = "jnp.exp(logp - logp_old)"


def eval_call(ret):
    """The vmapped policy.evaluate_action call the loss is built from."""
    cands = []
    for x in walk(ret):
        if isinstance(x, tuple) and x and x[0] == "call" and isinstance(x[1], tuple) and x[1][0] == "vmapfn":
            f = x[1][1]
            if isinstance(f, tuple) and f[0] == "attr" and f[2] == "evaluate_action":
                cands.append(x)
    return cands


def case_of(path, flag):
    for t, v in path.conds:
        if t == ("param", flag):
            return v
    return None


def check_loss(s, cls, meth, kind):
    P = s.prog
    b = s.builder(inline=set())
    nz = Normalizer(b)
    con = f"{cls}.{meth}"
    loc = s.loc(cls, meth)
    paths = live(s.paths(b, cls, meth))
    _, dce, fne = s.method("AbstractActorCriticPolicy", "evaluate_action")
    rb = ("param", "rollout_buffer")
    seen_cases = set()
    shared = {}
    for p in paths:
        na = case_of(p, "normalize_advantages")
        cv = case_of(p, "clip_value_loss")
        seen_cases.add((na, cv))
        tag = f"[normalize_advantages={na}" + (f", clip_value_loss={cv}]" if kind == "ppo" else "]")
        if not (isinstance(p.ret, tuple) and p.ret[0] == "tuple" and len(p.ret[1]) == 2):
            raise AnalysisError(f"{con}: does not return (loss, stats)")
        loss, stats = p.ret[1]
        ecs = eval_call(p.ret)
        if len(ecs) != 1:
            raise AnalysisError(f"{con}{tag}: expected exactly one vmapped evaluate_action call, found {len(ecs)}")
        ec = ecs[0]
        # C08.7 --------------------------------------------------------
        m = bind_args(fne, ec[2], ec[3])
        for pname, fld in (("state", "states"), ("observation", "observations"), ("action", "actions"), ("action_mask", "action_masks")):
            s.ob("C08.7", con + tag, m.get(pname) == ("attr", rb, fld),
                 f"evaluate_action parameter `{pname}` receives rollout_buffer.{fld}", loc, key=f"eval-arg-{pname}",
                 detail=f"got {show(m.get(pname, NONE), maxlen=160)}",
                 necessary_for="the stored sample is re-evaluated on the observation, state and mask it was drawn under")
        s.ob("C08.7", con + tag, ec[1][1][1] == ("param", "policy"), "the evaluated network is the differentiated `policy` argument",
             loc, key="eval-policy", detail=show(ec[1][1], maxlen=160))
        bind = {
            "v": ("item", ec, 1), "logp": ("item", ec, 2), "H": ("item", ec, 3),
            "logp_old": ("attr", rb, "log_probs"), "A0": ("attr", rb, "advantages"),
            "v_old": ("attr", rb, "values"), "R": ("attr", rb, "returns"),
            "eps": ("param", "clip_coefficient"), "cv": ("param", "value_loss_coefficient"),
            "ce": ("param", "entropy_loss_coefficient"),
        }
        A = f"({ADV_NORM})" if na else "A0"
        if kind == "ppo":
            pol = f"-jnp.mean(jnp.minimum(({A})*{RATIO}, ({A})*jnp.clip({RATIO}, 1 - eps, 1 + eps)))"
            if cv:
                val = ("jnp.mean(jnp.maximum(jnp.square(v - R), "
                       "jnp.square(v_old + jnp.clip(v - v_old, -eps, eps) - R)))/2")
            else:
                val = "jnp.mean(jnp.square(v - R))/2"
            ent = "-jnp.mean(H)"
            total = f"({pol}) + ({val})*cv + ({ent})*ce"
            kl = f"jnp.mean({RATIO} - (logp - logp_old)) - 1"
            want_stats = {"approx_kl": kl, "total_loss": total, "policy_loss": pol, "value_loss": val, "entropy_loss": ent}
        else:
            pol = f"-jnp.mean(logp*({A}))"
            val = "jnp.mean(jnp.square(v - R))/2"
            ent = "-jnp.mean(H)"
            if kind == "a2c":
                total = f"({pol}) + ({val})*cv + ({ent})*ce"
                want_stats = {"total_loss": total, "policy_loss": pol, "value_loss": val, "entropy_loss": ent}
            else:
                total = f"({pol}) + ({val})*cv"
                want_stats = {"total_loss": total, "policy_loss": pol, "value_loss": val}
        sf = fields(stats)
        rule_of = {"policy_loss": "C08.1" if kind == "ppo" else "C08.5", "approx_kl": "C08.1",
                   "value_loss": "C08.3" if kind == "ppo" else "C08.5", "entropy_loss": "C08.4" if kind == "ppo" else "C08.5",
                   "total_loss": "C08.4" if kind == "ppo" else "C08.5"}
        s.ob("C08.4" if kind == "ppo" else "C08.5", con + tag, set(sf) == set(want_stats),
             f"the stats record has exactly the fields {sorted(want_stats)}", loc, key="stats-fields",
             detail=f"fields {sorted(sf)}")
        nec = {
            "policy_loss": "the clipped surrogate -E[min(r·A, clip(r,1−ε,1+ε)·A)] (no policy gradient outside the clip interval)"
            if kind == "ppo" else "-E[log π · A]",
            "value_loss": "the weighted squared value error (with clipping: the larger of the clipped and unclipped errors, as in PPO2)",
            "approx_kl": "approximate KL is 0 on data collected by the current policy",
            "entropy_loss": "weighted negative entropy", "total_loss": "the total is policy + c_v·value + c_e·entropy terms",
        }
        comp_bind = dict(bind)
        comp_bind.update({"POL": sf.get("policy_loss", NONE), "VAL": sf.get("value_loss", NONE), "ENT": sf.get("entropy_loss", NONE)})
        for fld, expr in want_stats.items():
            if fld not in sf:
                continue
            if fld == "total_loss":
                comp = "POL + VAL*cv + ENT*ce" if kind != "reinforce" else "POL + VAL*cv"
                s.eq(rule_of[fld], con + tag, nz, sf[fld], s.ref(b, comp, comp_bind),
                     "stats.total_loss == policy_loss + c_v·value_loss (+ c_e·entropy_loss) of the same record", loc,
                     key="total-composition", necessary_for=nec[fld])
                continue
            s.eq(rule_of[fld], con + tag, nz, sf[fld], s.ref(b, expr, bind),
                 f"stats.{fld} == reference objective term", loc, key=f"{fld}-formula", necessary_for=nec[fld])
            if fld in ("policy_loss", "value_loss") and (kind != "ppo" or cv is False):
                shared.setdefault((fld, na), []).append(nz.canon(sf[fld]))
        s.ob("C08.4" if kind == "ppo" else "C08.5", con + tag, nz.canon(loss) == nz.canon(sf.get("total_loss", NONE)),
             "the differentiated loss is the value reported as stats.total_loss", loc, key="loss-is-total")
    need = {(True, True), (True, False), (False, True), (False, False)} if kind == "ppo" else {(True, None), (False, None)}
    if seen_cases != need:
        raise AnalysisError(f"{con}: static cases found {sorted(map(str, seen_cases))}, expected {sorted(map(str, need))}")
    return shared


def check_train(s, cls, meth, loss_meth, grad_attr):
    """C08.6: optimiser application and argument binding."""
    b = s.builder(inline=set())
    nz = Normalizer(b)
    con = f"{cls}.{meth}"
    loc = s.loc(cls, meth)
    _, dcl, fnl = s.method(cls, loss_meth)
    for p in live(s.paths(b, cls, meth)):
        ret = p.ret
        if not (isinstance(ret, tuple) and ret[0] == "tuple" and len(ret[1]) == 3):
            raise AnalysisError(f"{con}: expected a 3-tuple return")
        pol, opt, _ = ret[1]
        ok_apply = isinstance(pol, tuple) and pol[0] == "call" and pol[1] == ("global", "equinox.apply_updates") and len(pol[2]) == 2
        s.ob("C08.6", con, ok_apply and pol[2][0] == ("param", "policy"),
             "the returned policy is eqx.apply_updates(<input policy>, updates)", loc, key="apply-updates",
             detail=show(pol, maxlen=200), necessary_for="gradient updates are applied to the policy")
        if not ok_apply:
            continue
        upd = pol[2][1]
        U = upd[1] if isinstance(upd, tuple) and upd[0] == "item" and upd[2] == 0 else None
        ok_u = (isinstance(U, tuple) and U[0] == "call" and U[1] == ("attr", ("attr", ("param", "self"), "optimizer"), "update"))
        s.ob("C08.6", con, ok_u, "updates are element 0 of self.optimizer.update(...)", loc, key="optimizer-update",
             detail=show(upd, maxlen=200), necessary_for="updates go through the configured optimiser (global-norm clipping)")
        if not ok_u:
            continue
        s.ob("C08.6", con, opt == ("item", U, 1), "the returned optimiser state is element 1 of the same update call", loc,
             key="opt-state", detail=show(opt, maxlen=160))
        grads = U[2][0] if U[2] else None
        s.ob("C08.6", con, len(U[2]) >= 2 and U[2][1] == ("param", "opt_state"), "update() receives the incoming optimiser state",
             loc, key="opt-state-in", detail=show(U, maxlen=200))
        G = grads[1] if isinstance(grads, tuple) and grads[0] == "item" and grads[2] == 1 else None
        ok_g = isinstance(G, tuple) and G[0] == "call" and isinstance(G[1], tuple) and G[1][0] == "gradfn"
        s.ob("C08.6", con, ok_g, "the gradients are element 1 of a filter_value_and_grad call", loc, key="grads-source",
             detail=show(grads, maxlen=200))
        if not ok_g:
            continue
        lf = G[1][1]
        s.ob("C08.6", con, isinstance(lf, Closure) and lf.name == loss_meth and G[1][2] == TRUE,
             f"the differentiated function is {loss_meth} (has_aux=True)", loc, key="loss-fn", detail=show(G[1], maxlen=160))
        m = bind_args(fnl, G[2], G[3], skip_first=False)
        pnames = [a.arg for a in fnl.args.args]
        s.ob("C08.6", con, m.get(pnames[0]) == ("param", "policy"), "parameter 0 (the differentiated one) is the policy", loc,
             key="grad-wrt", detail=show(m.get(pnames[0], NONE), maxlen=100))
        want_buf = ("param", "rollout_buffer") if meth == "train_batch" else ("call", ("attr", ("param", "buffer"), "flatten_axes"), (), ())
        s.ob("C08.6", con, m.get(pnames[1]) == want_buf,
             "the loss is evaluated on " + ("the minibatch passed in" if meth == "train_batch" else "the whole collected buffer with its (env, step) axes flattened"), loc,
             key="loss-data", detail=show(m.get(pnames[1], NONE), maxlen=120), necessary_for="every collected sample enters the expectation exactly once")
        for pn in pnames[2:]:
            s.ob("C08.6", con, m.get(pn) == ("attr", ("param", "self"), pn),
                 f"loss parameter `{pn}` receives self.{pn}", loc, key=f"coef-{pn}", detail=show(m.get(pn, NONE), maxlen=100),
                 necessary_for="coefficients and flags are not interchanged between configuration and loss")


def check_ctor(s, cls):
    b = s.builder(inline=set())
    nz = Normalizer(b)
    con = f"{cls}.__init__"
    loc = s.loc(cls, "__init__")
    for p in live(s.paths(b, cls, "__init__")):
        opt = p.self_attrs.get("optimizer")
        mg = p.self_attrs.get("max_grad_norm")
        ok = (isinstance(opt, tuple) and opt[0] == "call" and opt[1] == ("global", "optax.chain") and len(opt[2]) == 2)
        s.ob("C08.6", con, ok, "self.optimizer = optax.chain(<2 transformations>)", loc, key="chain", detail=show(opt, maxlen=240))
        if not ok:
            continue
        first, second = opt[2]
        ok1 = (isinstance(first, tuple) and first[0] == "call" and first[1] == ("global", "optax.clip_by_global_norm")
               and len(first[2]) == 1 and first[2][0] == ("param", "max_grad_norm") and mg == ("param", "max_grad_norm"))
        s.ob("C08.6", con, ok1, "the first link is clip_by_global_norm(max_grad_norm) with the constructor's bound", loc,
             key="clip-first", detail=show(first, maxlen=200), necessary_for="global-norm clipping precedes the Adam step")
        adams = [x for x in walk(second) if x == ("global", "optax.adam")]
        lr = [x for x in walk(second) if x == ("param", "learning_rate")]
        s.ob("C08.6", con, bool(adams) and bool(lr), "the second link is adam(learning_rate)", loc, key="adam-second",
             detail=show(second, maxlen=200))


def check(s):
    P8 = s.prog
    sh = {}
    for cls, meth, kind in (("PPO", "ppo_loss", "ppo"), ("A2C", "a2c_loss", "a2c"), ("REINFORCE", "reinforce_loss", "reinforce")):
        r = check_loss(s, cls, meth, kind)
        for k, v in r.items():
            sh.setdefault(k, []).extend((cls, c) for c in v)
    # sibling agreement (C08.5): the unclipped value term is one sub-graph in all three losses;
    # A2C and REINFORCE share the policy term
    for (fld, na), lst in sorted(sh.items(), key=str):
        if fld == "value_loss":
            forms = {c for _, c in lst}
            s.ob("C08.5", f"siblings.value_loss[normalize_advantages={na}]", len(forms) == 1,
                 "PPO (unclipped), A2C and REINFORCE compute the value term by one and the same normal form", "", key="sibling-value",
                 detail="; ".join(f"{c}: {show_term(t, 120)}" for c, t in lst))
        if fld == "policy_loss":
            forms = {c for k_, c in lst if k_ in ("A2C", "REINFORCE")}
            s.ob("C08.5", f"siblings.policy_loss[normalize_advantages={na}]", len(forms) == 1,
                 "A2C and REINFORCE compute the policy term by one and the same normal form", "", key="sibling-policy")
    check_train(s, "PPO", "train_batch", "ppo_loss", "ppo_loss_grad")
    check_train(s, "A2C", "train", "a2c_loss", "a2c_loss_grad")
    check_train(s, "REINFORCE", "train", "reinforce_loss", "reinforce_loss_grad")
    for cls in ("PPO", "A2C", "REINFORCE"):
        check_ctor(s, cls)
    # ---------------------------------------------------------------- C08.8 producer ∘ loss
    # "on data collected by the current policy every ratio is 1 and the approximate KL is 0": the loss re-scores batch.actions and
    # compares with batch.log_probs, so the collector must store the very sample and its own log-probability (one policy call).
    from .stepref import on_policy_rows
    for o in on_policy_rows(s):
        s.eq("C08.8", o["con"], o["nz"], o["row"].get("actions", NONE), o["ref"]["action"],
             "the stored action the loss re-scores is the policy's sample itself (not its clipped or otherwise transformed image)", o["loc"], key="ratio-action-source",
             necessary_for="on data collected by the current policy every ratio is 1 and the approximate KL is 0")
        s.eq("C08.8", o["con"], o["nz"], o["row"].get("log_probs", NONE), o["ref"]["logp"],
             "the stored log-probability is the log-prob item of the same action_and_value call that produced the stored action", o["loc"], key="ratio-logprob-source",
             necessary_for="on data collected by the current policy every ratio is 1 and the approximate KL is 0")
        s.eq("C08.8", o["con"], o["nz"], o["row"].get("states", NONE), s.ref(o["b"], "state.policy_state", {"state": ("param", "state")}),
             "the stored policy state the loss re-evaluates under is the state the action was sampled from (the incoming one)", o["loc"], key="ratio-state-source",
             necessary_for="on data collected by the current policy every ratio is 1 (also for policies with internal state)")
        s.ob("C08.8", o["con"], o["policy_calls"] == 1, "one action_and_value call (one key) feeds the stored action, log-prob and value", o["loc"], key="ratio-one-policy-call",
             detail=f"{o['policy_calls']} calls", necessary_for="the stored log-probability belongs to the stored sample, not to a second draw")
        s.eq("C08.8", o["con"], o["nz"], o["row"].get("values", NONE), o["ref"]["value"],
             "the stored value (centre of the PPO2 value clip) is the value item of that same call", o["loc"], key="old-value-source")
    # ---------------------------------------------------------------- C08.10 the entropy the losses weight is the joint entropy
    # The losses average `entropy` over the batch only if it is one number per sample. Distributions made of independent components
    # (a Bernoulli per bit, an element-wise Normal) report entropy per component; evaluate_action therefore has to reduce it over
    # the components with the same reduction it applies to log_prob (a sum), otherwise the entropy term is H/k.
    for ci_ in [c for c in P8.subclasses("AbstractActorCriticPolicy") if "evaluate_action" in c.methods and not c.is_abstractmethod("evaluate_action")]:
        be = s.builder(inline=set())
        loce = s.loc(ci_.name, "evaluate_action")
        for pe in live(s.paths(be, ci_.name, "evaluate_action")):
            r_ = pe.ret
            ok_t = isinstance(r_, tuple) and r_[0] == "tuple" and len(r_[1]) == 4
            s.ob("C08.10", f"{ci_.name}.evaluate_action", ok_t, "evaluate_action returns (state, value, log_prob, entropy)", loce, key="evaluate-shape", detail=show(r_, maxlen=160))
            if not ok_t:
                continue

            def summed(n, what):
                """is `n` a sum (no axis) over the result of <dist>.<what>(...)?"""
                for c in walk(n):
                    if isinstance(c, tuple) and c and c[0] == "call" and not c[3] and ((isinstance(c[1], tuple) and c[1][0] == "attr" and c[1][2] == "sum" and not c[2])
                                                                                      or (c[1] == ("global", "jax.numpy.sum") and len(c[2]) == 1)):
                        inner = c[1][1] if c[1][0] == "attr" else c[2][0]
                        if any(isinstance(x, tuple) and x and x[0] == "call" and isinstance(x[1], tuple) and x[1][0] == "attr" and x[1][2] == what for x in walk(inner)):
                            return True
                return False

            s.ob("C08.10", f"{ci_.name}.evaluate_action", summed(r_[1][2], "log_prob"), "the log-probability is summed over the action components", loce, key="logprob-summed",
                 detail=show(r_[1][2], maxlen=160))
            s.ob("C08.10", f"{ci_.name}.evaluate_action", summed(r_[1][3], "entropy"), "the entropy is summed over the action components (one number per sample, like log_prob)", loce,
                 key="entropy-summed", detail=show(r_[1][3], maxlen=160), necessary_for="the weighted negative entropy term is the entropy of the action distribution, for every action space kind")
    # C08.11 "on data collected by the current policy every ratio is 1": the log-probability the losses recompute (evaluate_action) and the
    # one stored while collecting (action_and_value) come from identical sub-graphs, mask included
    from .C04 import check_policy_siblings
    check_policy_siblings(s, "C08.11")
    # C08.9 configuration wiring of the learners: each coefficient / flag given to the constructor is the like-named attribute the loss reads
    from .util import ctor_wiring
    for cls in ("PPO", "A2C", "REINFORCE"):
        ctor_wiring(s, "C08.9", cls, necessary_for="the objective is evaluated with the configured clip range, coefficients and flags")
    for r, n in (("C08.1", 8), ("C08.3", 4), ("C08.4", 12), ("C08.5", 20), ("C08.6", 30), ("C08.7", 40), ("C08.8", 10), ("C08.9", 20), ("C08.10", 3)):
        s.floor(r, n)
