"""C06 — replay buffer keeps the most recent transitions and samples only stored ones."""
from __future__ import annotations

from ..model import AnalysisError
from ..norm import Normalizer, show_term
from ..vgraph import FALSE, NONE, TRUE, Closure, show, walk
from .util import fields, live, one

EXPLANATION = (
    "Index discipline on ReplayBuffer.add / sample / current_size and AbstractBuffer.flatten_axes. C06.1 every stored field "
    "is written with `.at[idx].set(value)` at ONE index node idx = position % size and position' = position + 1; C06.2 the "
    "written field, the array it is derived from and the parameter carrying that field's meaning agree name by name, and the "
    "set of written fields is complete; C06.3 sample: valid mask = arange(size) < min(position, size) (strict), probabilities "
    "= mask/sum(mask), jr.choice(total, (batch_size,), replace=False, p=probs), one index node taken on axis 0 of every array "
    "leaf; C06.4 the vectorised mask broadcasts current_size[..., None] and flattens env-major, in agreement with "
    "flatten_axes' moveaxis+reshape."
)
ASSUMPTIONS = [
    "jr.choice(replace=False, p=...) never returns a zero-probability entry and never repeats an index (JAX contract)",
    "jax.tree.map applies the leaf function to every leaf; x.at[i].set(v) writes slot i only",
]

FIELD_PARAM = {
    "observations": "observation", "next_observations": "next_observation", "actions": "action", "rewards": "reward",
    "dones": "done", "timeouts": "timeout", "states": "state", "next_states": "next_state",
}


def parse_at_set(n):
    """x.at[idx].set(v) -> (x, idx, v) or None."""
    if isinstance(n, tuple) and n and n[0] == "call" and isinstance(n[1], tuple) and n[1][0] == "attr" and n[1][2] == "set" and len(n[2]) == 1:
        tgt = n[1][1]
        if isinstance(tgt, tuple) and tgt[0] == "sub" and isinstance(tgt[1], tuple) and tgt[1][0] == "attr" and tgt[1][2] == "at":
            return tgt[1][1], tgt[2], n[2][0]
    return None


def check_add(s, r1="C06.1", r2="C06.2"):
    """ReplayBuffer.add: one ring index for every field, position + 1, field / source array / parameter aligned by name."""
    P = s.prog
    b = s.builder(inline={"current_size"})
    nz = Normalizer(b)
    self_ = ("param", "self")
    con = "ReplayBuffer.add"
    loc = s.loc("ReplayBuffer", "add")
    idx_ref = nz.canon(s.ref(b, "self.position % self.size", {"self": self_}))
    seen = set()
    for p in live(s.paths(b, "ReplayBuffer", "add")):
        # which optional (policy-state) fields does this path take as present? read it off the `... is (not) None` tests
        present = {}
        for t, v in p.conds:
            if not (isinstance(t, tuple) and t[0] == "cmp" and t[1] in ("Is", "IsNot") and t[3] == NONE):
                continue
            subj = t[2]
            fld = None
            if isinstance(subj, tuple) and subj[0] == "attr" and subj[1] == self_ and subj[2] in ("states", "next_states"):
                fld = subj[2]
            elif isinstance(subj, tuple) and subj[0] == "call" and subj[1] == ("global", "getattr") and len(subj[2]) == 2 and subj[2][0] == self_ \
                    and subj[2][1][0] == "const" and subj[2][1][1] in ("states", "next_states"):
                fld = subj[2][1][1]
            if fld is not None:
                present[fld] = (t[1] == "IsNot") == bool(v)
        if len(set(present.values())) > 1:
            continue  # states present but next_states None (or vice versa): the constructor allocates both or neither
        has_states = any(present.values()) if present else any(v for t, v in p.conds)
        seen.add(has_states)
        tag = f"[states={'present' if has_states else 'None'}]"
        if not (isinstance(p.ret, tuple) and p.ret[0] == "update" and p.ret[1] == self_):
            raise AnalysisError(f"{con}: result is not a functional update of self")
        upd = fields(p.ret)
        want_fields = set(FIELD_PARAM) | {"position"} if has_states else (set(FIELD_PARAM) - {"states", "next_states"}) | {"position"}
        s.ob(r2, con + tag, set(upd) == want_fields, f"exactly the fields {sorted(want_fields)} are replaced", loc, key="written-fields",
             detail=f"written: {sorted(upd)}", necessary_for="every field of a transition comes from the same insertion")
        s.eq(r1, con + tag, nz, upd.get("position", NONE), s.ref(b, "self.position + 1", {"self": self_}), "position' == position + 1", loc,
             key="position-increment", necessary_for="the buffer holds the most recent min(n, C) transitions")
        idxs = set()
        for F, pname in FIELD_PARAM.items():
            if F not in upd:
                continue
            v = upd[F]
            base = idx = val = None
            if isinstance(v, tuple) and v[0] == "call" and v[1] == ("global", "jax.tree.map") and len(v[2]) == 3 and isinstance(v[2][0], Closure):
                out = b.apply(v[2][0], (("param", "$leaf"), ("param", "$new")), ())
                r = parse_at_set(out)
                if r and r[0] == ("param", "$leaf") and r[2] == ("param", "$new"):
                    base, idx, val = v[2][1], r[1], v[2][2]
            else:
                r = parse_at_set(v)
                if r:
                    base, idx, val = r
            ok_form = base is not None
            s.ob(r1, f"{con}{tag}.{F}", ok_form, "the field is written by leaf.at[idx].set(new) on every leaf", loc, key=f"write-form-{F}",
                 detail=show(v, maxlen=200))
            if not ok_form:
                continue
            idxs.add(nz.canon(idx))
            s.ob(r1, f"{con}{tag}.{F}", nz.canon(idx) == idx_ref, "write index == position % size", loc, key=f"ring-index-{F}",
                 detail=f"index {show(idx, maxlen=120)}", necessary_for="wrap-around overwrites the oldest slot")
            s.ob(r2, f"{con}{tag}.{F}", base == ("attr", self_, F), f"field {F} is derived from self.{F}", loc, key=f"base-{F}",
                 detail=show(base, maxlen=120))
            s.ob(r2, f"{con}{tag}.{F}", nz.canon(val) == ("p", pname), f"field {F} receives parameter `{pname}`", loc, key=f"value-{F}",
                 detail=f"receives {show(val, maxlen=120)}",
                 necessary_for="observation, successor observation, action, reward, done, timeout and policy states stay aligned")
        s.ob(r1, con + tag, len(idxs) == 1, "all fields are written at one and the same index node", loc, key="one-index",
             detail=f"{len(idxs)} distinct index forms")
    if seen != {True, False}:
        raise AnalysisError(f"{con}: expected the cases states present / None")


def check_sample(s, r3="C06.3", r4="C06.4"):
    """ReplayBuffer.sample: valid mask from the fill level (per environment, env-major), choice without replacement, one index node."""
    P = s.prog
    self_ = ("param", "self")
    # ------------------------------------------------------------------ sample
    con3 = "ReplayBuffer.sample"
    loc3 = s.loc("ReplayBuffer", "sample")
    b3 = s.builder(inline={"current_size", "shape"})
    nz3 = Normalizer(b3)
    cases = set()
    for p in live(s.paths(b3, "ReplayBuffer", "sample")):
        scalar = None
        for t, v in p.conds:
            scalar = v
        cases.add(scalar)
        # no case split: one formula serves both layouts; the per-environment form subsumes the scalar one
        # (current_size[..., None] of a scalar has shape (1,), which broadcasts to the same mask)
        tag = "[scalar fill level]" if scalar else ("[per-environment fill levels]" if scalar is False else "[uniform formula for scalar and per-environment fill levels]")
        r = p.ret
        ok = isinstance(r, tuple) and r[0] == "call" and r[1] == ("global", "jax.tree.map") and len(r[2]) == 2 and isinstance(r[2][0], Closure)
        s.ob(r3, con3 + tag, ok, "the batch is jax.tree.map(take, flattened buffer)", loc3, key="sample-shape", detail=show(r, maxlen=200))
        if not ok:
            continue
        flat = r[2][1]
        s.ob(r3, con3 + tag, flat == ("call", ("attr", self_, "flatten_axes"), (("const", None),), ()),
             "the sampled tree is self.flatten_axes(None) (all (env, slot) axes merged)", loc3, key="flat-source", detail=show(flat, maxlen=120))
        leaf_paths = b3.apply_paths(r[2][0], (("param", "$x"),))
        takes = [lp.ret for lp in leaf_paths if lp.ret != ("param", "$x")]
        keeps = [lp for lp in leaf_paths if lp.ret == ("param", "$x")]
        s.ob(r3, con3 + tag, len(takes) == 1 and len(keeps) >= 1, "array leaves are taken, non-array/scalar leaves pass through", loc3,
             key="leaf-cases", detail=f"{len(takes)} take / {len(keeps)} keep")
        # which leaves pass through untouched: only what has no slot axis by its very nature - a non-array, or a 0-d array. A guard on anything
        # else (the leaf's shape compared with some field's, its dtype, its size) lets a per-slot field through unsampled when its shape
        # happens to coincide (E stacked buffers of capacity 1: rewards have the shape of `position`), pairing it with the sampled fields
        foreign3 = set()
        for lp in leaf_paths:
            for t_, _v in lp.conds:
                bad_attr = any(isinstance(x_, tuple) and x_ and x_[0] == "attr" and x_[1] == ("param", "$x") and x_[2] != "ndim" for x_ in walk(t_))
                other = any(isinstance(x_, tuple) and x_ and x_[0] == "attr" and x_[1] == self_ for x_ in walk(t_))
                if bad_attr or other:
                    foreign3.add(show(t_, maxlen=100))
        s.ob(r3, con3 + tag, not foreign3, "a leaf passes through unsampled only for being a non-array or 0-d (no guard on its shape / dtype / on another field)", loc3,
             key="sample-leaf-guard", detail="; ".join(sorted(foreign3)), necessary_for="a sampled transition has all of its fields from the same insertion; only stored slots are returned")
        if len(takes) != 1:
            continue
        refenv = s.refprog(b3, f"""
flat = self.flatten_axes(None)
total = flat.rewards.shape[0]
cs = jnp.minimum(self.position, self.size)
mask = {'jnp.arange(self.size) < cs' if scalar else '(jnp.arange(self.size) < cs[..., None]).reshape(-1)'}
probs = mask.astype(float) / jnp.sum(mask)
idx = jr.choice(key, total, shape=(batch_size,), replace=False, p=probs)
out = jnp.take(x, idx, axis=0)
""", {"self": self_, "key": ("param", "key"), "batch_size": ("param", "batch_size"), "x": ("param", "$x")})
        s.eq(r3 if scalar else r4, con3 + tag, nz3, takes[0], refenv["out"],
             "leaf batch == take(x, choice(key, total, (batch_size,), replace=False, p=mask/sum(mask)), axis=0), mask = arange(size) < min(position,size)"
             + ("" if scalar else " broadcast as current_size[..., None] and flattened env-major"), loc3,
             key="sample-formula",
             necessary_for="only stored transitions are returned, never unwritten slots, none twice; per-environment fill levels are respected")
        # unconditional sub-clauses
        ch = [x for x in walk(takes[0]) if isinstance(x, tuple) and x and x[0] == "call" and x[1] == ("global", "jax.random.choice")]
        s.ob(r3, con3 + tag, len(ch) == 1, "one index draw (one index node for every leaf)", loc3, key="one-choice", detail=str(len(ch)))
        if len(ch) == 1:
            kw = dict((k, v) for k, v in ch[0][3] if k)
            s.ob(r3, con3 + tag, kw.get("replace") == FALSE, "sampling is without replacement", loc3, key="no-replacement",
                 detail=show(kw.get("replace", NONE)), necessary_for="no transition twice within a batch")
            s.ob(r3, con3 + tag, "p" in kw and ("attr", self_, "position") in set(walk(kw["p"])),
                 "probabilities depend on the fill level (position)", loc3, key="probs-from-fill", detail=show(kw.get("p", NONE), maxlen=160),
                 necessary_for="unwritten slots have probability zero")
            s.ob(r3, con3 + tag, ("param", "$x") not in set(walk(ch[0])), "the index node does not depend on the leaf", loc3, key="index-leaf-independent")
    if cases not in ({True, False}, {None}):
        raise AnalysisError(f"{con3}: expected scalar and vectorised fill-level cases, got {cases}")
    return cases


def check(s):
    P = s.prog
    self_ = ("param", "self")
    check_add(s)
    # ------------------------------------------------------------------ constructor: empty buffer of `size` slots
    bi = s.builder(inline=set())
    nzi = Normalizer(bi)
    for p in live(s.paths(bi, "ReplayBuffer", "__init__")):
        a = p.self_attrs
        loci = s.loc("ReplayBuffer", "__init__")
        s.ob("C06.1", "ReplayBuffer.__init__", nzi.canon(a.get("position", NONE)) == ("k", 0) and a.get("size") == ("param", "size"),
             "a new buffer starts at position 0 with the requested capacity", loci, key="initial-position", detail=f"position={show(a.get('position', NONE))} size={show(a.get('size', NONE))}")
        shapes_ok = all(nzi.canon(a.get(f, NONE)) == nzi.canon(s.ref(bi, f"jnp.zeros((size,), dtype={dt})", {"size": ("param", "size")}))
                        or nzi.canon(a.get(f, NONE)) == nzi.canon(s.ref(bi, f"jnp.zeros((self.size,), dtype={dt})", {"self": ("param", "self")}))
                        for f, dt in (("rewards", "float"), ("dones", "bool"), ("timeouts", "bool")))
        s.ob("C06.2", "ReplayBuffer.__init__", shapes_ok, "rewards / dones / timeouts are allocated with one slot per capacity unit", loci, key="scalar-fields-shape")
        for F, src in (("observations", "observation_space"), ("next_observations", "observation_space"), ("actions", "action_space"), ("states", None), ("next_states", None)):
            v = a.get(F)
            ok = isinstance(v, tuple) and v[0] == "call" and v[1] == ("global", "jax.tree.map") and len(v[2]) == 2 and isinstance(v[2][0], Closure)
            if ok:
                want_src = ("call", ("attr", ("param", src), "canonical"), (), ()) if src else ("param", "state")
                ok = v[2][1] == want_src
                leaf = bi.apply(v[2][0], (("param", "$e"),), ())
                # `self.size` inside the leaf function is the constructor's `size` argument (assigned just before): either reading is the same value
                ok = ok and nzi.canon(leaf) in [nzi.canon(s.ref(bi, "jnp.broadcast_to(jnp.asarray(e), (size,) + jnp.asarray(e).shape)", {"e": ("param", "$e"), "size": sz}))
                                                for sz in (("attr", ("param", "self"), "size"), ("param", "size"))]
            s.ob("C06.2", f"ReplayBuffer.__init__.{F}", ok, f"{F} is allocated as `size` copies of a leaf-shaped example from " + (f"{src}.canonical()" if src else "the policy state"), loci,
                 key=f"alloc-{F}", detail=show(v or NONE, maxlen=160))
    cases = check_sample(s)
    # ------------------------------------------------------------------ flatten_axes (C06.4 / C09.3)
    check_flatten(s, "C06.4")
    from .util import no_late_binding
    no_late_binding(s, "C06.2", ("lerax.buffer",), necessary_for="every field of a stored transition comes from the same insertion (a function value built in a loop must not read the loop variable late)")
    for r_, n in (("C06.1", 30), ("C06.2", 30), ("C06.3", 14 if cases == {True, False} else 7), ("C06.4", 3)):
        s.floor(r_, n)


FLATTEN_REFS = [
    """
moved = jnp.moveaxis(x, axes, tuple(range(len(axes))))
leading = 1
for i in range(len(axes)):
    leading *= moved.shape[i]
out = moved.reshape((leading,) + moved.shape[len(axes):])
""",
    """
moved = jnp.moveaxis(x, axes, tuple(range(len(axes))))
out = moved.reshape((math.prod(moved.shape[:len(axes)]),) + moved.shape[len(axes):])
""",
    """
moved = jnp.moveaxis(x, axes, tuple(range(len(axes))))
out = moved.reshape((-1,) + moved.shape[len(axes):])
""",
]


def check_flatten(s, rule):
    # resolve_axes: negative batch axes are normalised against the BUFFER's batch rank (len(self.shape)). flatten_axes hands the
    # result to moveaxis once per leaf, and leaves have trailing feature axes, so an axis left negative would name a feature axis there
    br = s.builder(inline=set())
    nzr = Normalizer(br)
    locr = s.loc("AbstractBuffer", "resolve_axes")
    n_res = 0
    for pr in live(s.paths(br, "AbstractBuffer", "resolve_axes")):
        first = pr.conds[0] if pr.conds else None
        if first is None:
            continue
        is_none = any(isinstance(t, tuple) and t[0] == "cmp" and t[2] == ("param", "batch_axes") and t[3] == NONE and ((t[1] == "Is" and v) or (t[1] == "IsNot" and not v)) for t, v in pr.conds)
        is_int = any(isinstance(t, tuple) and t[0] == "call" and t[1] == ("global", "isinstance") and t[2][0] == ("param", "batch_axes") and v for t, v in pr.conds)
        A = "tuple(range(len(self.shape)))" if is_none else ("(batch_axes,)" if is_int else "tuple(batch_axes)")
        bindr = {"self": ("param", "self"), "batch_axes": ("param", "batch_axes")}
        wants = [nzr.canon(s.ref(br, f"tuple(a + len(self.shape) if a < 0 else a for a in {A})", bindr)), nzr.canon(s.ref(br, f"tuple(a % len(self.shape) for a in {A})", bindr))]
        if is_none:
            wants.append(nzr.canon(s.ref(br, A, bindr)))
        if is_int:
            # a one-element tuple is unrolled statically, so `batch_axes < 0` is a static case of the path
            lt0 = nzr.canon(s.ref(br, "batch_axes < 0", bindr))
            ge0 = nzr.canon(s.ref(br, "batch_axes >= 0", bindr))
            neg = [v if nzr.canon(t) == lt0 else (not v) for t, v in pr.conds if nzr.canon(t) in (lt0, ge0)]
            if neg:
                wants = [nzr.canon(s.ref(br, "(batch_axes + len(self.shape),)" if neg[0] else "(batch_axes,)", bindr))]
        got = nzr.canon(pr.ret)
        n_res += 1
        s.ob(rule, f"AbstractBuffer.resolve_axes[{'None' if is_none else 'int' if is_int else 'sequence'}]", got in wants,
             "the resolved axes are the requested ones with negative entries normalised against the buffer's batch rank", locr, key="axes-normalised",
             detail=f"code: {show_term(got, 300)}\nreference: {show_term(wants[0], 300)}",
             necessary_for="every field of a row is regrouped along the same (environment, step) axes, whatever trailing feature axes the leaf has")
    if n_res < 3:
        raise AnalysisError(f"AbstractBuffer.resolve_axes: expected the None / int / sequence cases, analysed {n_res}")
    b = s.builder(inline=set())
    nz = Normalizer(b)
    con = "AbstractBuffer.flatten_axes"
    loc = s.loc("AbstractBuffer", "flatten_axes")
    self_ = ("param", "self")
    n = 0
    for p in live(s.paths(b, "AbstractBuffer", "flatten_axes")):
        r = p.ret
        ok = isinstance(r, tuple) and r[0] == "call" and r[1] == ("global", "jax.tree.map") and len(r[2]) == 2 and isinstance(r[2][0], Closure) \
            and r[2][1] == self_
        s.ob(rule, con, ok, "flatten_axes == jax.tree.map(leaf function, self): every leaf is treated by one function", loc, key="flatten-shape",
             detail=show(r, maxlen=160))
        if not ok:
            continue
        axes = ("call", ("attr", self_, "resolve_axes"), (("param", "batch_axes"),), ())
        lps = b.apply_paths(r[2][0], (("param", "$x"),))
        moved = [lp for lp in lps if lp.ret != ("param", "$x")]
        keep = [lp for lp in lps if lp.ret == ("param", "$x")]
        s.ob(rule, con, len(moved) == 1 and len(keep) >= 1, "non-array leaves and leaves of too low rank are returned unchanged; others are reshaped",
             loc, key="flatten-leaf-cases", detail=f"{len(moved)} reshaped / {len(keep)} unchanged")
        # which leaves are left alone: only what cannot carry the batch axes - a non-array, or an array of too low rank. A guard on anything
        # else of the leaf (its dtype, its size, its values) lets some array leaves keep their (environment, step) axes while their
        # siblings are flattened, and a minibatch row then gathers the wrong slab of that field
        foreign = set()
        for lp in lps:
            for t_, _v in lp.conds:
                for x_ in walk(t_):
                    if isinstance(x_, tuple) and x_ and x_[0] == "attr" and x_[1] == ("param", "$x") and x_[2] not in ("ndim", "shape"):
                        foreign.add(show(t_, maxlen=100))
        s.ob(rule, con, not foreign, "a leaf is left unflattened only for being a non-array or of too low rank (no guard on its dtype / size / values)", loc, key="flatten-leaf-guard",
             detail="; ".join(sorted(foreign)), necessary_for="each minibatch row is one collected sample with all of its fields still belonging together")
        if len(moved) != 1:
            continue
        got = nz.canon(moved[0].ret)
        okf = False
        wants = []
        for src in FLATTEN_REFS:
            env = s.refprog(b, src, {"x": ("param", "$x"), "axes": axes})
            w = nz.canon(env["out"])
            wants.append(w)
            if w == got:
                okf = True
        s.ob(rule, con, okf, "reshaped leaf == moveaxis(x, axes, (0..k-1)).reshape((prod of the k leading sizes,) + rest)", loc, key="flatten-formula",
             detail=f"code: {show_term(got, 500)}\nreference: {show_term(wants[0], 500)}",
             necessary_for="flattening the (environment, step/slot) axes neither loses nor duplicates a sample, env-major")
        deps = {x for x in walk(moved[0].ret) if isinstance(x, tuple) and x and x[0] == "param"}
        s.ob(rule, con, deps <= {("param", "$x"), self_, ("param", "batch_axes")}, "the leaf function depends only on the leaf and the axes", loc,
             key="flatten-deps", detail=str(sorted(d[1] for d in deps)))
        n += 1
    if n == 0:
        raise AnalysisError(f"{con}: no analysable path")
