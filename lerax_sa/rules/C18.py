"""C18 — saving and loading a policy (writer/reader agreement only)."""
from __future__ import annotations

import ast
import importlib.util
import os

from ..model import AnalysisError
from ..norm import Normalizer
from ..vgraph import FALSE, NONE, TRUE, Closure, show, walk
from .util import entails, live, one

EXPLANATION = (
    "Writer/reader agreement of Serializable.serialize / deserialize; bit-identical restoration and loud failure on shape mismatch "
    "are Equinox's behaviour and are NOT decided. C18.1 on every path on which the parent directory may be missing, "
    "mkdir(parents=True) is executed before the write; C18.2 the file named by the writer (after its suffix rule and Equinox's) and "
    "the file named by the reader (Equinox's rule on the raw path) coincide for the spellings `name` and `name.eqx` (abstract "
    "evaluation over the suffix domain; Equinox's rule is a frozen fact cross-checked against equinox._serialisation._with_suffix); "
    "C18.3 the reader's skeleton is eqx.filter_eval_shape(cls, *args, **kwargs) of the same class and arguments, neither side passes "
    "filter_spec / is_leaf, the writer serialises self; C18.4 every policy class derives from Serializable and no array-annotated "
    "policy field is static; C18.5 (array-annotated parameters and parameters stored into a dynamic float field count as traced; builtin min/max of two arguments is a truth test) the skeleton can be built at all: no constructor / function of the policy package, and no space member the "
    "policy package reads, forces a jax.numpy value or an array-annotated constructor parameter to a Python truth value / number (it runs under "
    "eqx.filter_eval_shape); C18.6 mapping-valued pytree fields keep their order through unflatten; C18.7 no exception on the save / load path is swallowed."
)
ASSUMPTIONS = [
    "eqx.tree_serialise_leaves / tree_deserialise_leaves round-trip array leaves bit-identically and raise on shape mismatch (Equinox; not decided)",
    "Equinox appends .eqx to a suffix-less path (cross-checked against its source when present)",
]


def equinox_suffix_rule():
    """Parse equinox._serialisation._with_suffix: returns True if it appends .eqx exactly to suffix-less paths."""
    spec = importlib.util.find_spec("equinox")
    if spec is None or not spec.submodule_search_locations:
        return None
    path = os.path.join(list(spec.submodule_search_locations)[0], "_serialisation.py")
    if not os.path.exists(path):
        return None
    with open(path) as f:
        tree = ast.parse(f.read())
    for n in ast.walk(tree):
        if isinstance(n, ast.FunctionDef) and n.name == "_with_suffix":
            src = ast.unparse(n)
            return "path.suffix == ''" in src and "with_suffix('.eqx')" in src
    return None


SER_SIG = ("path_or_file", "pytree", "filter_spec", "is_leaf")
DESER_SIG = ("path_or_file", "like", "filter_spec", "is_leaf")


def eqx_args(call, sig):
    """arguments of an Equinox (de)serialisation call by parameter name, positional or keyword; None when they cannot be named"""
    if any(isinstance(a, tuple) and a and a[0] == "star" for a in call[2]) or any(k is None for k, _ in call[3]) or len(call[2]) > len(sig):
        return None
    out = dict(zip(sig, call[2]))
    for k, v in call[3]:
        if k in out or k not in sig:
            return None
        out[k] = v
    return out


def check(s):
    P = s.prog
    self_ = ("param", "self")
    b = s.builder(inline=set())
    nz = Normalizer(b)
    con = "Serializable.serialize"
    loc = s.loc("Serializable", "serialize")
    P0 = ("call", ("global", "pathlib.Path"), (("param", "path"),), ())
    paths = live(s.paths(b, "Serializable", "serialize"))
    missing_goal = s.ref(b, "not Path(path).parent.exists()", {"path": ("param", "path"), "Path": ("global", "pathlib.Path")})
    table = {}
    n_missing = 0
    for p in paths:
        writes = [(i, e) for i, e in enumerate(p.effects) if isinstance(e[1], tuple) and e[1][0] == "call" and e[1][1] == ("global", "equinox.tree_serialise_leaves")]
        s.ob("C18.3", con, len(writes) == 1, "exactly one tree_serialise_leaves per path", loc, key="one-write", detail=str(len(writes)))
        if len(writes) != 1:
            continue
        wi, (_, w, _ln) = writes[0]
        wa = eqx_args(w, SER_SIG)
        s.ob("C18.3", con, wa is not None and set(wa) == {"path_or_file", "pytree"} and wa["pytree"] == self_, "the writer serialises `self` with the default leaf filters (no filter_spec / is_leaf)", loc,
             key="writer-args", detail=show(w, maxlen=160), necessary_for="writer and reader agree on which leaves are stored")
        if wa is None or "path_or_file" not in wa:
            continue
        pm = entails(nz, p.conds, missing_goal)
        parent_missing, parent_present = pm is True, pm is False
        mk = [(i, e) for i, e in enumerate(p.effects) if isinstance(e[1], tuple) and e[1][0] == "call" and isinstance(e[1][1], tuple) and e[1][1][0] == "attr" and e[1][1][2] == "mkdir"]
        if not parent_present:
            # the directory may be missing on this path (either tested and found missing, or never tested): it has to be created,
            # with all missing ancestors, before the write; an untested mkdir must tolerate an existing directory
            n_missing += 1
            parents_of = (("attr", P0, "parent"), ("attr", ("call", ("attr", P0, "with_suffix"), (("const", ".eqx"),), ()), "parent"))
            good = [m_ for m_ in mk if m_[0] < wi and m_[1][1][1][1] in parents_of and dict((k, v) for k, v in m_[1][1][3] if k).get("parents") == TRUE
                    and (parent_missing or dict((k, v) for k, v in m_[1][1][3] if k).get("exist_ok") == TRUE)]
            s.ob("C18.1", con, len(good) >= 1, "when the parent directory may be missing, path.parent.mkdir(parents=True) runs before the write (with exist_ok=True unless guarded by an existence test)",
                 loc, key="mkdir-before-write", detail="; ".join(show(e[1], maxlen=120) for _, e in mk) or "no mkdir", necessary_for="saving into not-yet-existing directories (any number of missing levels) works")
        # suffix rule of the writer, as a function of the abstract suffix
        target = wa["path_or_file"]
        want_t = s.ref(b, "Path(path).suffix != '.eqx' and not no_suffix", {"path": ("param", "path"), "Path": ("global", "pathlib.Path"), "no_suffix": ("param", "no_suffix")})
        v = entails(nz, p.conds, want_t)
        s.ob("C18.2", con, v is not None, "every path of the writer decides `path.suffix != '.eqx' and not no_suffix` (in any spelling)", loc, key="suffix-test",
             detail="; ".join(f"{show(t_, maxlen=120)}={v_}" for t_, v_ in p.conds))
        if v is None:
            continue
        if v:
            okt = target == ("call", ("attr", P0, "with_suffix"), (("const", ".eqx"),), ())
        else:
            okt = target == P0
        table[v] = okt
        s.ob("C18.2", con + f"[suffix-test={v}]", okt, "the written path is path.with_suffix('.eqx') when the test holds, else the path itself", loc, key="written-path",
             detail=show(target, maxlen=160), necessary_for="`name` and `name.eqx` name the same file for writer and reader")
    if n_missing == 0:
        raise AnalysisError(f"{con}: no path with a missing parent directory")
    # reader (one or several static paths: each is examined; the file it opens is evaluated abstractly below)
    conr = "Serializable.deserialize"
    locr = s.loc("Serializable", "deserialize")
    rpaths = live(s.paths(b, "Serializable", "deserialize"))
    if not rpaths:
        raise AnalysisError(f"{conr}: no non-raising path")
    for pr in rpaths:
        r = pr.ret
        ra = eqx_args(r, DESER_SIG) if isinstance(r, tuple) and r[0] == "call" and r[1] == ("global", "equinox.tree_deserialise_leaves") else None
        ok = ra is not None and set(ra) == {"path_or_file", "like"}
        s.ob("C18.3", conr, ok, "the reader is tree_deserialise_leaves(path, skeleton) with the default leaf filters", locr, key="reader-shape", detail=show(r, maxlen=200))
        if ok:
            sk = ra["like"]
            want = ("call", ("global", "equinox.filter_eval_shape"), (("param", "cls"), ("star", ("param", "*args"))), ((None, ("param", "**kwargs")),))
            s.ob("C18.3", conr, sk == want, "the skeleton is eqx.filter_eval_shape(cls, *args, **kwargs): same class, same constructor arguments", locr, key="skeleton",
                 detail=show(sk, maxlen=200), necessary_for="loading with the same constructor arguments restores the same tree structure")
    # abstract evaluation of the file-name agreement over the suffix domain. The writer's escape `no_suffix=True` keeps a foreign
    # suffix; with the default flag a foreign suffix is rewritten by the writer only (the reader then fails loudly) -- that
    # combination is outside the spellings the property names and is not evaluated.
    fact = equinox_suffix_rule()
    if fact is False:
        raise AnalysisError("equinox._serialisation._with_suffix no longer appends .eqx exactly to suffix-less paths: the frozen fact of C18.2 is stale")
    s.control("Equinox suffix rule cross-checked against its source" if fact else "Equinox source not found: suffix rule taken as frozen fact")

    def eqx_rule(suf):
        return ".eqx" if suf == "" else suf

    PATHS = (("param", "path"), P0)

    def ev_bool(t, suf, flags):
        if isinstance(t, tuple) and t:
            if t[0] == "cmp" and t[1] in ("Eq", "NotEq") and isinstance(t[2], tuple) and t[2][0] == "attr" and t[2][2] == "suffix" and t[2][1] in PATHS \
                    and isinstance(t[3], tuple) and t[3][0] == "const" and isinstance(t[3][1], str):
                return (suf == t[3][1]) == (t[1] == "Eq")
            if t[0] == "un" and t[1] == "Not":
                v = ev_bool(t[2], suf, flags)
                return None if v is None else not v
            if t[0] == "boolop":
                vals = [ev_bool(x, suf, flags) for x in t[2]]
                if None in vals:
                    return None
                return all(vals) if t[1] == "And" else any(vals)
            if t[0] == "param" and t[1] in flags:
                return flags[t[1]]
            if t == TRUE or t == FALSE:
                return t == TRUE
        return None

    def ev_target(t, suf):
        if t in PATHS:
            return suf
        if isinstance(t, tuple) and t and t[0] == "call" and isinstance(t[1], tuple) and t[1][0] == "attr" and t[1][2] == "with_suffix" and t[1][1] in PATHS \
                and len(t[2]) == 1 and t[2][0][0] == "const":
            return t[2][0][1]
        if isinstance(t, tuple) and t and t[0] == "call" and t[1] == ("global", "pathlib.Path") and len(t[2]) == 1:
            return ev_target(t[2][0], suf)
        return None

    def opened(paths_, target_of, suf, flags):
        """suffix of the file a side touches for this spelling, or a reason string when it cannot be named"""
        hits = []
        for p_ in paths_:
            vals = [(ev_bool(t, suf, flags), v) for t, v in p_.conds if any(isinstance(x, tuple) and x and x[0] == "attr" and x[2] == "suffix" for x in walk(t))
                    or any(x == ("param", "no_suffix") for x in walk(t))]
            if any(a is None for a, _ in vals):
                return None, "a path condition on the suffix could not be evaluated"
            if all(a == v for a, v in vals):
                hits.append(p_)
        if len({id(h) for h in hits}) == 0:
            return None, "no path applies"
        outs = set()
        for h in hits:
            tg = target_of(h)
            outs.add(ev_target(tg, suf) if tg is not None else None)
        if len(outs) != 1 or None in outs:
            return None, "the path handed to Equinox is not the raw path or path.with_suffix(<literal>)"
        opened_file = eqx_rule(outs.pop())
        # an existence test the side makes itself (`path.is_file()`, `path.exists()`, `os.path.exists(path)`) looks at the LITERAL spelling:
        # it has to be the file that is opened, or the side refuses names whose suffix Equinox would have completed
        for h in hits:
            for t, v in h.conds:
                for c in walk(t):
                    lit = None
                    if isinstance(c, tuple) and c and c[0] == "call" and isinstance(c[1], tuple) and c[1][0] == "attr" and c[1][2] in ("is_file", "exists") and not c[2]:
                        lit = ev_target(c[1][1], suf)
                    elif isinstance(c, tuple) and c and c[0] == "call" and c[1] in (("global", "os.path.exists"), ("global", "os.path.isfile")) and len(c[2]) == 1:
                        lit = ev_target(c[2][0], suf)
                    if lit is not None and lit != opened_file:
                        return None, f"an existence test on the literal spelling (suffix {lit!r}) guards a file that is opened with suffix {opened_file!r}"
        return opened_file, ""

    def wtarget(p_):
        ws = [e for e in p_.effects if isinstance(e[1], tuple) and e[1][0] == "call" and e[1][1] == ("global", "equinox.tree_serialise_leaves")]
        return (eqx_args(ws[0][1], SER_SIG) or {}).get("path_or_file") if len(ws) == 1 else None

    def rtarget(p_):
        r_ = p_.ret
        return (eqx_args(r_, DESER_SIG) or {}).get("path_or_file") if isinstance(r_, tuple) and r_[0] == "call" and r_[1] == ("global", "equinox.tree_deserialise_leaves") else None

    rows = []
    agree = True
    for suf, no_suffix in (("", False), ("", True), (".eqx", False), (".eqx", True), (".ckpt", True)):
        wfile, wwhy = opened(paths, wtarget, suf, {"no_suffix": no_suffix})
        rfile, rwhy = opened(rpaths, rtarget, suf, {})
        rows.append(f"name{suf} no_suffix={no_suffix}: writer {wfile!r}{' (' + wwhy + ')' if wwhy else ''} reader {rfile!r}{' (' + rwhy + ')' if rwhy else ''}")
        ok_ = wfile is not None and wfile == rfile
        agree = agree and ok_
        s.ob("C18.2", f"writer/reader[name{suf},no_suffix={no_suffix}]", ok_, "writer and reader resolve this spelling to the same file (after Equinox's own suffix rule)", locr,
             key=f"suffix-agreement{suf or '-none'}-{int(no_suffix)}", detail=rows[-1],
             necessary_for="a saved policy is found again under the spelling it was saved with (`name`, `name.eqx`, or a foreign suffix kept by no_suffix=True)")
    # ---------------------------------------------------------------- C18.4
    ser = P.cls("Serializable")
    pols = [c for c in P.subclasses("AbstractPolicy", strict=False)]
    s.ob("C18.4", "AbstractPolicy", P.is_subclass(P.cls("AbstractPolicy"), ser), "AbstractPolicy derives from Serializable", s.loc("AbstractPolicy"), key="policy-serializable")
    n = 0
    for ci in pols:
        for f in ci.fields.values():
            ann = ast.unparse(f.annotation) if f.annotation is not None else ""
            if "Array" in ann:
                n += 1
                s.ob("C18.4", f"{ci.name}.{f.name}", not f.static, "an array-annotated policy field is not static (it is serialised)", P.loc(ci.module, ci.node), key="static-array",
                     detail=ann, necessary_for="every parameter is restored")
    s.notes.append(f"C18.4: {len(pols)} policy classes, {n} array-annotated fields")
    # ---------------------------------------------------------------- C18.5 the skeleton can be built: constructors are shape-evaluable
    check_constructors_traceable(s)
    # C18.7 "or fails loudly": nothing on the save / load path catches an exception without re-raising it (serialize runs inside
    # callback_wrapper's host callback, so a handler there turns a failed save into a silent no-op)
    import ast as _ast
    mu = P.modules["lerax.utils"]
    units = [("callback_wrapper", mu.functions.get("callback_wrapper")), ("Serializable.serialize", P.cls("Serializable").methods.get("serialize")),
             ("Serializable.deserialize", P.cls("Serializable").methods.get("deserialize"))]
    for nm, fn_ in units:
        if fn_ is None:
            raise AnalysisError(f"C18.7: anchor {nm} vanished")
        swallow = []
        for n_ in _ast.walk(fn_):
            if isinstance(n_, _ast.Try):
                for h_ in n_.handlers:
                    reraises = any(isinstance(x, _ast.Raise) for x in _ast.walk(h_))
                    if not reraises:
                        swallow.append(f"line {h_.lineno}: except {_ast.unparse(h_.type) if h_.type is not None else ''} does not re-raise")
            if isinstance(n_, _ast.With):
                for it_ in n_.items:
                    if "suppress" in _ast.unparse(it_.context_expr):
                        swallow.append(f"line {n_.lineno}: {_ast.unparse(it_.context_expr)[:40]}")
        s.ob("C18.7", nm, not swallow, "no exception raised while saving / loading is swallowed", P.loc(mu, fn_), key="swallowed-exception", detail="; ".join(swallow),
             necessary_for="a save that cannot be written and a load that cannot be read fail loudly")
    # C18.6 a loaded policy went through a pytree unflatten: mapping-valued fields (Dict spaces) must keep their order there, or the
    # restored policy feeds its network a permuted observation although every parameter is bit-identical
    from .C12 import check_mapping_fields
    check_mapping_fields(s, "C18.6")
    for r_, n_ in (("C18.1", 1), ("C18.2", 9), ("C18.3", 6), ("C18.4", 1), ("C18.5", 30), ("C18.6", 2), ("C18.7", 3)):
        s.floor(r_, n_)


ARRAY_FREE = {"jax.numpy.shape", "jax.numpy.ndim", "jax.numpy.size", "jax.numpy.issubdtype", "jax.numpy.dtype", "jax.numpy.result_type", "jax.numpy.finfo", "jax.numpy.iinfo",
              "jax.numpy.isscalar"}


def check_constructors_traceable(s):
    """deserialize builds its skeleton with eqx.filter_eval_shape(cls, *args, **kwargs): the constructor runs under tracing, where
    every array (the environment's space bounds included) is an abstract tracer. A Python-level truth test on an array value
    (if / assert / while / `and` / `or` / `not` / bool() over a jnp computation) raises there, so the policy can be built and
    saved but never loaded. Rule: no constructor in the policy package branches on the result of a jax.numpy / jax.lax call."""
    P = s.prog
    n = 0
    # members of the space classes that the policy package reads off a `...space` expression: they run inside the policy's
    # constructor (flat_size, shape) or its jitted call (flatten_sample), so the same rule binds them
    used = set()
    for m in P.modules.values():
        if m.name.startswith("lerax.policy"):
            for a in ast.walk(m.tree):
                if isinstance(a, ast.Attribute) and ast.unparse(a.value).endswith("space"):
                    used.add(a.attr)
    owners = {}
    for m in sorted(P.modules.values(), key=lambda m_: m_.name):
        if m.name.startswith("lerax.space"):
            units = [(ci.name, mname, ci.methods[mname]) for ci in m.classes.values() for mname in ci.methods if mname in used]
        elif m.name.startswith("lerax.policy"):
            units = [(ci.name, mname, ci.methods[mname]) for ci in m.classes.values() for mname in ci.methods if mname not in ("render",)]
            owners.update({ci.name: ci for ci in m.classes.values()})
            units += [(m.name.rsplit(".", 1)[-1], fname, fn_) for fname, fn_ in m.functions.items()]
        else:
            continue
        for owner, mname, fn in units:
            if True:
                n += 1
                bad = []

                def array_calls(expr):
                    out = []
                    for c in ast.walk(expr):
                        if isinstance(c, ast.Call):
                            parts = []
                            f = c.func
                            while isinstance(f, ast.Attribute):
                                parts.append(f.attr)
                                f = f.value
                            if isinstance(f, ast.Name):
                                q = P.resolve_name(m, f.id, list(reversed(parts)))
                                if q and q.startswith(("jax.numpy.", "jax.lax.", "jax.nn.", "jax.scipy.")) and q not in ARRAY_FREE:
                                    out.append(q)
                    return out

                # parameters declared array-valued (jaxtyping annotation): deserialize passes them through filter_eval_shape, so
                # inside the constructor they are tracers; only their static metadata may be read at Python level
                aparams = {a.arg for a in fn.args.posonlyargs + fn.args.args + fn.args.kwonlyargs
                           if a.annotation is not None and "Array" in ast.unparse(a.annotation) and "None" not in ast.unparse(a.annotation)}
                # a parameter stored as it is into a dynamic (non-static) float field is a leaf of the module: the field exists as a
                # leaf so that it may hold a JAX scalar (a scheduled epsilon, a learned scale), and deserialize traces it then
                oci = owners.get(owner)
                if mname == "__init__" and oci is not None:
                    for st in ast.walk(fn):
                        if isinstance(st, ast.Assign) and len(st.targets) == 1 and isinstance(st.targets[0], ast.Attribute) and isinstance(st.targets[0].value, ast.Name) \
                                and st.targets[0].value.id == "self":
                            f_ = oci.fields.get(st.targets[0].attr)
                            if f_ is not None and not f_.static and f_.annotation is not None and ast.unparse(f_.annotation) == "float":
                                aparams.update(x.id for x in ast.walk(st.value) if isinstance(x, ast.Name))
                    aparams &= {a.arg for a in fn.args.posonlyargs + fn.args.args + fn.args.kwonlyargs}

                def forced_params(expr):
                    skip = set()
                    for c in ast.walk(expr):
                        if isinstance(c, ast.Attribute) and c.attr in ("shape", "ndim", "dtype", "size") and isinstance(c.value, ast.Name):
                            skip.add(id(c.value))
                        if isinstance(c, ast.Call) and isinstance(c.func, ast.Name) and c.func.id in ("isinstance", "len", "type"):
                            skip.update(id(x) for a in c.args for x in ast.walk(a))
                        if isinstance(c, ast.Call):
                            q = None
                            f, parts = c.func, []
                            while isinstance(f, ast.Attribute):
                                parts.append(f.attr)
                                f = f.value
                            if isinstance(f, ast.Name):
                                q = P.resolve_name(m, f.id, list(reversed(parts)))
                            if q in ARRAY_FREE:
                                skip.update(id(x) for a in c.args for x in ast.walk(a))
                    return [c.id for c in ast.walk(expr) if isinstance(c, ast.Name) and c.id in aparams and id(c) not in skip]

                for node in ast.walk(fn):
                    tests = []
                    if isinstance(node, (ast.If, ast.While, ast.IfExp)):
                        tests.append(node.test)
                    elif isinstance(node, ast.Assert):
                        tests.append(node.test)
                    elif isinstance(node, ast.BoolOp):
                        tests.extend(node.values[:-1])
                    elif isinstance(node, ast.UnaryOp) and isinstance(node.op, ast.Not):
                        tests.append(node.operand)
                    elif isinstance(node, ast.Call) and isinstance(node.func, ast.Name) and node.func.id in ("bool", "float", "int") and node.args:
                        tests.append(node.args[0])
                    elif isinstance(node, ast.Call) and isinstance(node.func, ast.Name) and node.func.id in ("min", "max") and len(node.args) >= 2:
                        tests.extend(node.args)  # the builtin compares its arguments: a truth test on each pair
                    for t in tests:
                        ac = array_calls(t)
                        if ac:
                            bad.append(f"line {getattr(t, 'lineno', '?')}: `{ast.unparse(t)[:80]}` forces the value of {ac[0]}")
                        elif mname == "__init__" and forced_params(t):
                            bad.append(f"line {getattr(t, 'lineno', '?')}: `{ast.unparse(t)[:80]}` forces the value of the array-valued parameter {forced_params(t)[0]}")
                s.ob("C18.5", f"{owner}.{mname}", not bad, "the constructor / policy function never forces an array value to a Python truth value / number (it can run under eqx.filter_eval_shape and jit)",
                     P.loc(m, fn), key="constructor-forces-array", detail="; ".join(sorted(set(bad))[:4]),
                     necessary_for="a saved policy of every class can be loaded again: deserialize builds its skeleton by tracing the constructor")
    if n == 0:
        raise AnalysisError("C18.5: no policy constructor found")
