"""C19 — reported performance numbers are faithful to what happened."""
from __future__ import annotations

from ..model import AnalysisError
from ..norm import Normalizer, show_term
from ..vgraph import FALSE, KEY, NONE, TRUE, Closure, show, strip_keys, walk
from .stepref import box_case
from .util import bind_args, dict_items, fields, live, one

EXPLANATION = (
    "Accumulator algebra and plumbing. C19.1 LoggingCallbackStepState.next: return' = return*(1-done_prev) + r, length' = "
    "length*(1-done_prev) + 1, average' = select(done, alpha*x' + (1-alpha)*average, average), episode_done' = done, step' = "
    "step+1 (normal forms with selections expanded over Boolean atoms, so where/select/multiplication spellings agree); C19.2 "
    "on_step passes (ctx.reward, ctx.done, self.alpha) to (reward, done, alpha); C19.3 both algorithm families build StepContext "
    "with done = term|trunc and reward = the step's env.reward(...) node; C19.4 on_iteration logs means over the environment "
    "axis, the summed step counter, and every backend call goes through jax.debug.callback(ordered=True); C19.5 evaluation "
    "helpers: rollout_scan emits select(done_carry, 0, r) and carries done' = terminal|truncate, rollout_while continues under "
    "~(terminal|truncate), average_reward = mean over vmap(episode)(split(key, num_episodes)), deterministic => key-less policy; "
    "C19.6 a CallbackList hands callback i its own state (and step state) and its own split of the key in every hook and stores its "
    "result at position i."
)
ASSUMPTIONS = [
    "rewards and accumulators are finite (selections are expanded as c*a + (1-c)*b)",
    "jax.debug.callback(ordered=True) delivers in program order (JAX contract)",
    "lax.scan / lax.while_loop / vmap semantics",
]


def check_average_reward(s, rule="C19.5"):
    """average_reward == mean over vmap(episode)(jr.split(key, num_episodes)); each episode helper gets ITS episode key."""
    envp, polp = ("param", "env"), ("param", "policy")
    con8 = "lerax.benchmark.average_reward"
    m8, f8 = s.function("lerax.benchmark", "average_reward")
    loc8 = s.prog.loc(m8, f8)
    b8 = s.builder(inline=set())
    nz8 = Normalizer(b8)
    kinds = set()
    for p8 in live(s.fpaths(b8, "lerax.benchmark", "average_reward")):
        ret = p8.ret
        ok = isinstance(ret, tuple) and ret[0] == "call" and ret[1] == ("global", "jax.numpy.mean") and len(ret[2]) == 1
        vm = ret[2][0] if ok else None
        ok = ok and isinstance(vm, tuple) and vm[0] == "call" and isinstance(vm[1], tuple) and vm[1][0] == "vmapfn" and isinstance(vm[1][1], Closure)
        s.ob(rule, con8, ok, "average_reward == mean(vmap(episode)(keys))", loc8, key="mean-of-vmap", detail=show(ret, maxlen=160),
             necessary_for="the mean undiscounted return of the requested number of independent episodes")
        if not ok:
            continue
        want = s.ref(b8, "jr.split(key, num_episodes)", {"key": ("param", "key"), "num_episodes": ("param", "num_episodes")})
        s.ob(rule, con8, len(vm[2]) == 1 and nz8.canon(vm[2][0]) == nz8.canon(want), "episodes use jr.split(key, num_episodes): one independent key each", loc8,
             key="episode-keys", detail=show(vm[2], maxlen=120))
        for ep in b8.apply_paths(vm[1][1], (("param", "$k"),)):
            r = ep.ret
            nm = r[1][1].rsplit(".", 1)[-1] if isinstance(r, tuple) and r[0] == "call" and isinstance(r[1], tuple) and r[1][0] == "global" else None
            kinds.add(nm)
            if nm in ("rollout_while", "rollout_scan"):
                _, fn_r = s.function("lerax.benchmark", nm)
                m = bind_args(fn_r, r[2], r[3], skip_first=False)
                okr = (m.get("env") == envp and m.get("policy") == polp and m.get("key") == ("param", "$k")
                       and m.get("deterministic") == ("param", "deterministic")
                       and (nm == "rollout_while" or m.get("max_steps") == ("param", "max_steps")))
                s.ob(rule, con8 + f"[{nm}]", okr, "the episode helper receives (env, policy, key=episode key, deterministic, max_steps)", loc8,
                     key="episode-args", detail=show(r, maxlen=200))
                # which helper runs is decided by `max_steps is None` alone: the uncapped loop exactly when no cap was given (a truthiness test
                # would send a cap of 0 - "stop before the first step" - to the uncapped loop)
                mp = ("param", "max_steps")
                tests = [(t_, v_) for t_, v_ in list(p8.conds) + list(ep.conds) if mp in set(walk(t_))]
                none_case = [v_ if t_[1] == "Is" else not v_ for t_, v_ in tests if isinstance(t_, tuple) and t_[0] == "cmp" and t_[1] in ("Is", "IsNot") and t_[2] == mp and t_[3] == NONE]
                okc = len(tests) == 1 and len(none_case) == 1 and none_case[0] == (nm == "rollout_while")
                s.ob(rule, con8 + f"[{nm}]", okc, "the uncapped loop runs exactly when max_steps is None, the capped scan for every given cap (0 included)", loc8, key="cap-dispatch",
                     detail="; ".join(f"{show(t_, maxlen=60)} = {v_}" for t_, v_ in tests), necessary_for="each episode ends at its first terminal or truncated state or at the step cap")
    if kinds != {"rollout_while", "rollout_scan"}:
        raise AnalysisError(f"{con8}: expected both helpers to be reachable, got {kinds}")


def check_iteration_context(s, rule="C19.8"):
    """what an iteration shows its observers: on_iteration receives the callback state carried so far, the step statistics of the step
    state collected in THIS iteration (the logger reads its per-environment step counts and episode statistics from there), the
    iteration counter after the increment and the freshly trained policy / optimiser state - i.e. the fields of the state the
    iteration returns, not those of the state it started from."""
    from .util import merge_nodes
    self_ = ("param", "self")
    state = ("param", "state")
    n = 0
    for cls in ("AbstractOnPolicyAlgorithm", "AbstractOffPolicyAlgorithm", "DQN", "SAC"):
        b = s.builder(inline={"next", "with_callback_states"})
        nz = Normalizer(b)
        loc = s.loc(cls, "iteration")
        for p in live(s.paths(b, cls, "iteration")):
            r = p.ret
            S = r[2][0] if isinstance(r, tuple) and r and r[0] == "call" and r[1] == ("attr", self_, "per_iteration") and len(r[2]) == 1 else r
            if isinstance(S, tuple) and S and S[0] == "ite":
                S = merge_nodes(S[1], S[2], S[3])
            if not (isinstance(S, tuple) and S and S[0] == "update" and S[1] == state):
                continue  # the shape of the successor state is C10.2's business
            f = fields(S)
            calls = [x for x in walk(S) if isinstance(x, tuple) and x and x[0] == "call" and x[1] == ("attr", ("param", "callback"), "on_iteration")]
            con = f"{cls}.iteration"
            s.ob(rule, con, len(set(calls)) == 1, "one on_iteration call per iteration", loc, key="one-on-iteration", detail=str(len(set(calls))))
            if len(set(calls)) != 1:
                continue
            n += 1
            c = calls[0]
            ctx = c[2][0] if c[2] else dict((k_, v_) for k_, v_ in c[3] if k_).get("ctx")
            cf = fields(ctx) if isinstance(ctx, tuple) and ctx and ctx[0] == "record" else {}
            cf = {k_[4:] if k_.startswith("arg:") else k_: v_ for k_, v_ in cf.items()}
            ss = f.get("step_state")
            wants = {"state": ("attr", state, "callback_state"),
                     "step_state": ("attr", ss, "callback_state") if ss is not None else None,
                     "policy": f.get("policy"), "opt_state": f.get("opt_state"),
                     "iteration_count": f.get("iteration_count")}
            for nm, want in wants.items():
                got = cf.get(nm)
                ok = got is not None and want is not None and nz.canon(got) == nz.canon(want)
                s.ob(rule, f"{con}.ctx.{nm}", ok, f"on_iteration sees `{nm}` of the state this iteration returns" if nm != "state" else "on_iteration receives the callback state carried so far", loc,
                     key=f"iteration-context-{nm}", detail=f"got {show(got if got is not None else NONE, maxlen=140)}; wanted {show(want if want is not None else NONE, maxlen=140)}",
                     necessary_for="log records reach the backend in iteration order with the cumulative number of environment steps (read from the step state just collected)")
    if n == 0:
        raise AnalysisError("C19.8: no iteration with an on_iteration call found")


def check_callback_list(s, rule):
    """A CallbackList is transparent: callback i is reset / stepped / consulted with ITS OWN state (and step state) and its own split of
    the key, and its result is stored at position i. Otherwise a logging callback inside a list would accumulate another observer's
    state (or none), and what it reports would not be what happened."""
    from .util import POS, element_at_pos
    self_ = ("param", "self")
    ctx = ("param", "ctx")
    b = s.builder(inline=set())
    nz = Normalizer(b)
    cbs = ("attr", self_, "callbacks")
    split = nz.canon(s.ref(b, "jr.split(key, len(self.callbacks))", {"self": self_, "key": ("param", "key")}))
    own_state = ((("state",), ("sub", ("attr", ("attr", ctx, "state"), "states"), POS)),)
    own_both = own_state + ((("step_state",), ("sub", ("attr", ("attr", ctx, "step_state"), "states"), POS)),)
    table = {"reset": (None, "CallbackListState"), "step_reset": (None, "CallbackListStepState"), "on_step": (own_state, "CallbackListStepState"),
             "on_iteration": (own_both, "CallbackListState"), "on_training_start": (own_both, "CallbackListState"), "on_training_end": (own_both, "CallbackListState"),
             "continue_training": (own_both, None)}
    for meth, (upd, rec) in table.items():
        con = f"CallbackList.{meth}"
        loc = s.loc("CallbackList", meth)
        for p in live(s.paths(b, "CallbackList", meth)):
            r = p.ret
            if rec is not None:
                okr = isinstance(r, tuple) and r and r[0] == "record" and r[1].split(".")[-1] == rec
                lst = fields(r).get("states") if okr else None
            else:
                # the verdicts of all callbacks are combined by conjunction
                okr = isinstance(r, tuple) and r and r[0] == "call" and r[1] in (("global", "jax.numpy.all"), ("global", "all"))
                lst = r[2][0] if okr and r[2] else None
                while isinstance(lst, tuple) and lst and lst[0] == "call" and lst[1] in (("global", "jax.numpy.array"), ("global", "jax.numpy.asarray"), ("global", "jax.numpy.stack")) and lst[2]:
                    lst = lst[2][0]
            comp = lst if isinstance(lst, tuple) and lst and lst[0] == "comp" else None
            s.ob(rule, con, okr and comp is not None, f"returns {rec or 'the conjunction'} over one comprehension across the callbacks", loc, key="list-shape", detail=show(r, maxlen=200))
            if comp is None:
                continue
            ew = element_at_pos(comp)
            want_ctx = ctx if upd is None else ("update", ctx, upd)
            ok = False
            if ew is not None:
                elt, _ = ew
                if isinstance(elt, tuple) and elt and elt[0] == "call" and elt[1] == ("attr", ("sub", cbs, POS), meth) and len(elt[2]) == 1:
                    kw = dict((k_, v) for k_, v in elt[3] if k_)
                    kn = kw.get("key")
                    key_ok = isinstance(kn, tuple) and kn and kn[0] == "sub" and kn[2] == POS and nz.canon(kn[1]) == split
                    a0 = elt[2][0]
                    ctx_ok = a0 == want_ctx or (isinstance(a0, tuple) and a0 and a0[0] == "update" and a0[1] == ctx and upd is not None and sorted(a0[2]) == sorted(upd))
                    ok = key_ok and ctx_ok and set(kw) == {"key"}
            s.ob(rule, con, ok, "element i is callbacks[i]." + meth + "(ctx with state := ctx.state.states[i]" + (", step_state := ctx.step_state.states[i]" if upd is own_both else "") + ", key = split(key, n)[i])"
                 if upd is not None else "element i is callbacks[i]." + meth + "(ctx, key = split(key, n)[i])", loc, key="own-state-own-key",
                 detail=show(ew[0], maxlen=400) if ew else "not a single unfiltered generator",
                 necessary_for="each observer in a list sees its own accumulated statistics and nobody else's")
    s.floor(rule, 14)


def check(s):
    self_ = ("param", "self")
    # ---------------------------------------------------------------- C19.1
    b = s.builder(inline=set())
    bools = [("attr", ("p", "self"), "episode_done"), ("p", "done")]
    nz = Normalizer(b, ite_poly=True, bool_terms=bools)
    con = "LoggingCallbackStepState.next"
    loc = s.loc("LoggingCallbackStepState", "next")
    p = one(s.paths(b, "LoggingCallbackStepState", "next"), con)
    f = fields(p.ret)
    if not f:
        raise AnalysisError(f"{con}: does not return a record construction")
    bind = {"self": self_, "r": ("param", "reward"), "done": ("param", "done"), "alpha": ("param", "alpha")}
    ref = s.refprog(b, """
ret = self.episode_return * (1.0 - self.episode_done) + r
length = self.episode_length * (1 - self.episode_done) + 1
avg_ret = lax.select(done, alpha * ret + (1.0 - alpha) * self.average_return, self.average_return)
avg_len = lax.select(done, alpha * length + (1.0 - alpha) * self.average_length, self.average_length)
step = self.step + 1
""", bind)
    nec = {
        "episode_return": "the episode return is the sum of rewards since the previous episode end",
        "episode_length": "the episode length is the number of steps since the previous episode end",
        "average_return": "at an episode end the statistic is blended with the smoothing factor, and unchanged otherwise",
        "average_length": "at an episode end the statistic is blended with the smoothing factor, and unchanged otherwise",
    }
    for fld, key in (("episode_return", "ret"), ("episode_length", "length"), ("average_return", "avg_ret"), ("average_length", "avg_len"), ("step", "step")):
        s.eq("C19.1", f"{con}.{fld}", nz, f.get(fld, NONE), ref[key], f"{fld}' == reference accumulator", loc, key=f"{fld}-formula",
             necessary_for=nec.get(fld, "the step counter counts environment steps"))
    s.ob("C19.1", f"{con}.episode_done", nz.canon(f.get("episode_done", NONE)) == ("p", "done"), "episode_done' == done", loc, key="episode_done-formula",
         detail=show(f.get("episode_done", NONE)), necessary_for="the accumulators restart on the step after an episode end")
    s.ob("C19.1", con, set(f) == {"step", "episode_return", "episode_length", "episode_done", "average_return", "average_length"},
         "all six fields are produced", loc, key="fields", detail=str(sorted(f)))
    bi = s.builder(inline=set())
    pi = one(s.paths(bi, "LoggingCallbackStepState", "initial"), "LoggingCallbackStepState.initial")
    nzi = Normalizer(bi)
    okz = False
    r = pi.ret
    if isinstance(r, tuple) and r[0] == "call" and r[1] == ("param", "cls"):
        _, _, finit = s.method("LoggingCallbackStepState", "__init__")
        m = bind_args(finit, r[2], r[3])
        okz = all(nzi.canon(m.get(k, NONE)) == want for k, want in (("step", ("k", 0)), ("episode_return", ("k", 0)), ("episode_length", ("k", 0)),
                                                                    ("episode_done", ("kb", False)), ("average_return", ("k", 0)), ("average_length", ("k", 0))))
    s.ob("C19.1", "LoggingCallbackStepState.initial", okz, "accumulators start at zero / not-done", s.loc("LoggingCallbackStepState", "initial"),
         key="initial-zero", detail=show(r, maxlen=200))
    # ---------------------------------------------------------------- C19.2
    b2 = s.builder(inline=set())
    con2 = "LoggingCallback.on_step"
    loc2 = s.loc("LoggingCallback", "on_step")
    p2 = one(s.paths(b2, "LoggingCallback", "on_step"), con2)
    r = p2.ret
    ok = isinstance(r, tuple) and r[0] == "call" and r[1] == ("attr", ("attr", ("param", "ctx"), "state"), "next")
    s.ob("C19.2", con2, ok, "on_step returns ctx.state.next(...)", loc2, key="on-step-shape", detail=show(r, maxlen=160))
    if ok:
        _, _, fnext = s.method("LoggingCallbackStepState", "next")
        m = bind_args(fnext, r[2], r[3])
        for pn, want in (("reward", ("attr", ("param", "ctx"), "reward")), ("done", ("attr", ("param", "ctx"), "done")), ("alpha", ("attr", self_, "alpha"))):
            s.ob("C19.2", con2, m.get(pn) == want, f"parameter `{pn}` receives {show(want)}", loc2, key=f"on-step-{pn}", detail=show(m.get(pn, NONE)))
    # ---------------------------------------------------------------- C19.3
    for cls, uses_value in (("AbstractActorCriticOnPolicyAlgorithm", True), ("AbstractOffPolicyAlgorithm", False)):
        b3 = s.builder(inline=set())
        nz3 = Normalizer(b3)
        con3 = f"{cls}.step"
        loc3 = s.loc(cls, "step")
        for p3 in live(s.paths(b3, cls, "step")):
            tag = f"[Box={box_case(p3)}]"
            cbs = [x for x in walk(p3.ret) if isinstance(x, tuple) and x and x[0] == "call" and x[1] == ("attr", ("param", "callback"), "on_step")]
            s.ob("C19.3", con3 + tag, len(cbs) == 1, "one callback.on_step call per step", loc3, key="one-on-step", detail=str(len(cbs)))
            if len(cbs) != 1:
                continue
            ctx = cbs[0][2][0] if cbs[0][2] else dict((k, v) for k, v in cbs[0][3] if k).get("ctx")
            cf = fields(ctx)
            rews = [x for x in walk(p3.ret) if isinstance(x, tuple) and x and x[0] == "call" and x[1] == ("attr", ("param", "env"), "reward")]
            terms = [x for x in walk(p3.ret) if isinstance(x, tuple) and x and x[0] == "call" and x[1] == ("attr", ("param", "env"), "terminal")]
            truncs = [x for x in walk(p3.ret) if isinstance(x, tuple) and x and x[0] == "call" and x[1] == ("attr", ("param", "env"), "truncate")]
            if len(rews) != 1 or len(terms) != 1 or len(truncs) != 1:
                raise AnalysisError(f"{con3}{tag}: expected single env.reward/terminal/truncate calls")
            s.ob("C19.3", con3 + tag, cf.get("reward") == rews[0], "StepContext.reward is the step's env.reward(...) result (not a bootstrapped or shaped value)",
                 loc3, key="ctx-reward", detail=show(cf.get("reward", NONE), maxlen=260),
                 necessary_for="logged episode returns are sums of the rewards the environment produced")
            # ... and that reward is the one of the transition taken: evaluated on (state.env_state, the successor produced by THIS step's
            # env.transition) - not on the state the auto-reset put in the successor's place
            trans3 = [x for x in walk(p3.ret) if isinstance(x, tuple) and x and x[0] == "call" and x[1] == ("attr", ("param", "env"), "transition")]
            from .util import bind_args as _ba
            ok_rw = len(trans3) == 1 and len(rews[0][2]) >= 3 and rews[0][2][0] == ("attr", ("param", "state"), "env_state") and rews[0][2][2] == trans3[0]
            s.ob("C19.3", con3 + tag, ok_rw, "the reported reward is env.reward(state.env_state, action, successor of this step's transition)", loc3, key="ctx-reward-transition",
                 detail=show(rews[0], maxlen=260), necessary_for="the episode return is the sum of the rewards of the transitions taken (the last one included, before the auto-reset)")
            s.ob("C19.3", con3 + tag, nz3.canon(cf.get("done", NONE)) == nz3.canon(("bin", "BitOr", terms[0], truncs[0])),
                 "StepContext.done == terminal | truncate of the successor", loc3, key="ctx-done", detail=show(cf.get("done", NONE), maxlen=200),
                 necessary_for="statistics are updated at every episode end and only there")
            s.ob("C19.3", con3 + tag, cf.get("state") == ("attr", ("param", "state"), "callback_state"),
                 "StepContext.state is the carried per-environment callback state", loc3, key="ctx-state", detail=show(cf.get("state", NONE)))
            st = fields(p3.ret[1][0]) if uses_value else fields(p3.ret)
            s.ob("C19.3", con3 + tag, st.get("callback_state") == cbs[0], "the callback's result becomes the carried callback state", loc3,
                 key="callback-state-carried", detail=show(st.get("callback_state", NONE), maxlen=120))
    # ---------------------------------------------------------------- C19.4
    b4 = s.builder(inline={"callback_with_numpy_wrapper", "callback_wrapper"})
    nz4 = Normalizer(b4)
    con4 = "LoggingCallback.on_iteration"
    loc4 = s.loc("LoggingCallback", "on_iteration")
    ctxp = ("param", "ctx")
    ss = ("attr", ctxp, "step_state")
    n_paths = 0
    for p4 in live(s.paths(b4, "LoggingCallback", "on_iteration")):
        n_paths += 1
        dbg = []
        for kind, node, ln in p4.effects:
            for x in walk(node):
                if isinstance(x, tuple) and x and x[0] == "call" and x[1] == ("global", "jax.debug.callback"):
                    dbg.append(x)
        scal = [x for x in dbg if any(dict_items(a) for a in x[2][1:])]
        s.ob("C19.4", con4, len(scal) >= 1, "the scalar log goes through jax.debug.callback", loc4, key="debug-callback", detail=f"{len(dbg)} debug callbacks")
        for x in dbg:
            kw = dict((k, v) for k, v in x[3] if k)
            s.ob("C19.4", con4, kw.get("ordered") == TRUE, "jax.debug.callback(..., ordered=True)", loc4, key="ordered",
                 detail=show(kw.get("ordered", NONE)), necessary_for="log records reach the backend in iteration order")
        for x in scal[:1]:
            args = x[2][1:]
            # (scalars, last_step)
            if len(args) != 2:
                s.ob("C19.4", con4, False, "log_scalars(scalars, step)", loc4, key="log-args", detail=show(x, maxlen=200))
                continue
            scalars, last = args
            s.eq("C19.4", con4, nz4, last, s.ref(b4, "ctx.step_state.step.sum()", {"ctx": ctxp}),
                 "the logged step is the sum of the per-environment step counters", loc4, key="step-sum",
                 necessary_for="records carry the cumulative number of environment steps")
            items = dict_items(scalars)
            for k_, fld in (("episode/return", "average_return"), ("episode/length", "average_length")):
                s.eq("C19.4", con4, nz4, items.get(k_, NONE), s.ref(b4, f"ctx.step_state.{fld}.mean()", {"ctx": ctxp}),
                     f"scalar '{k_}' is the mean over environments of {fld}", loc4, key=f"scalar-{fld}",
                     necessary_for="statistics are kept separately per environment and averaged for reporting")
    if n_paths == 0:
        raise AnalysisError(f"{con4}: no path")
    # utils: ordered is threaded to jax.debug.callback
    b5 = s.builder(inline=set())
    m5, f5 = s.function("lerax.utils", "callback_wrapper")
    p5 = one(s.fpaths(b5, "lerax.utils", "callback_wrapper"), "callback_wrapper")
    okw = False
    if isinstance(p5.ret, Closure):
        b5.effects = []
        b5.apply(p5.ret, (("param", "$a"),), ())
        for kind, node, ln in b5.effects:
            for x in walk(node):
                if isinstance(x, tuple) and x and x[0] == "call" and x[1] == ("global", "jax.debug.callback"):
                    okw = dict((k, v) for k, v in x[3] if k).get("ordered") == ("param", "ordered")
    s.ob("C19.4", "lerax.utils.callback_wrapper", okw, "callback_wrapper forwards its `ordered` argument to jax.debug.callback", s.prog.loc(m5, f5),
         key="ordered-forwarded")
    # ---------------------------------------------------------------- C19.7 the statistics run through warm-up
    # An off-policy learner steps its environments during warm-up (collect_learning_starts); the per-environment logging state has to be
    # the one those steps produced - rewinding it while the environments stay mid-episode logs the first episode after warm-up with only
    # part of its return and length, and every cumulative step count short by the warm-up steps.
    b7 = s.builder(inline=set())
    loc7 = s.loc("AbstractOffPolicyAlgorithm", "reset")
    n7 = 0
    for pr in live(s.paths(b7, "AbstractOffPolicyAlgorithm", "reset")):
        n7 += 1
        st7 = fields(pr.ret) if isinstance(pr.ret, tuple) and pr.ret and pr.ret[0] in ("record", "call") else {}
        ss7 = st7.get("step_state", st7.get("arg:step_state"))
        if ss7 is None and isinstance(pr.ret, tuple) and pr.ret and pr.ret[0] == "call" and len(pr.ret[2]) >= 2:
            ss7 = pr.ret[2][1]
        direct = isinstance(ss7, tuple) and ss7 and ss7[0] == "call" and (ss7[1] == ("attr", self_, "collect_learning_starts") or (
            isinstance(ss7[1], tuple) and ss7[1] and ss7[1][0] == "vmapfn" and isinstance(ss7[1][1], Closure) and ss7[1][1].name == "collect_learning_starts"))
        s.ob("C19.7", "AbstractOffPolicyAlgorithm.reset", direct, "the step state training starts from is exactly what (vmapped) collect_learning_starts returned (callback state included)",
             loc7, key="warmup-statistics-kept", detail=show(ss7 if ss7 is not None else NONE, maxlen=200),
             necessary_for="statistics are updated with the rewards and steps since the previous episode end, warm-up steps included; records carry the cumulative number of environment steps")
    if n7 == 0:
        raise AnalysisError("AbstractOffPolicyAlgorithm.reset: no path")
    # ---------------------------------------------------------------- C19.6 callback lists are transparent
    check_callback_list(s, "C19.6")
    # ---------------------------------------------------------------- C19.5
    b6 = s.builder(inline=set())
    nz6 = Normalizer(b6)
    envp, polp = ("param", "env"), ("param", "policy")
    con6 = "lerax.benchmark.rollout_scan"
    m6, f6 = s.function("lerax.benchmark", "rollout_scan")
    loc6 = s.prog.loc(m6, f6)
    seen = set()
    for p6 in live(s.fpaths(b6, "lerax.benchmark", "rollout_scan")):
        ret = p6.ret
        ok = isinstance(ret, tuple) and ret[0] == "call" and ret[1] == ("global", "jax.numpy.sum") and len(ret[2]) == 1 \
            and isinstance(ret[2][0], tuple) and ret[2][0][0] == "item" and ret[2][0][2] == 1 and ret[2][0][1][0] == "scan"
        s.ob("C19.5", con6, ok, "the episode return is jnp.sum of the scan's per-step outputs", loc6, key="scan-sum", detail=show(ret, maxlen=160))
        if not ok:
            continue
        sc = ret[2][0][1]
        want_xs = s.ref(b6, "jr.split(key, max_steps)", {"key": ("param", "key"), "max_steps": ("param", "max_steps")})
        s.ob("C19.5", con6, nz6.canon(sc[3]) == nz6.canon(want_xs), "the scan runs for max_steps steps (the step cap)", loc6, key="scan-cap",
             detail=show(sc[3], maxlen=120))
        init = sc[2]
        ok_init = isinstance(init, tuple) and init[0] == "tuple" and len(init[1]) == 3 and nz6.canon(init[1][2]) == ("kb", False) \
            and strip_keys(init[1][0]) == ("call", ("attr", envp, "initial"), (), (("key", KEY),))
        s.ob("C19.5", con6, ok_init, "the carry starts as (env.initial(), policy.reset(), done=False)", loc6, key="scan-init", detail=show(init, maxlen=200))
        body = sc[1]
        if not isinstance(body, Closure):
            raise AnalysisError(f"{con6}: scan body is not a local function")
        carry = ("tuple", (("param", "$s"), ("param", "$ps"), ("param", "$done")))
        for bp in b6.apply_paths(body, (carry, ("param", "$k")), fixed=dict(p6.conds)):
            det = any(v for t, v in list(p6.conds) + list(bp.conds) if t == ("param", "deterministic"))
            seen.add(det)
            tag = f"[deterministic={det}]"
            out = strip_keys(bp.ret)
            emitted = b6.item(out, 1)
            ncarry = b6.item(out, 0)
            ndone = b6.item(ncarry, 2)
            pol_kw = "" if det else ", key=K"
            ref = s.refprog(b6, f"""
obs = env.observation(s, key=K)
pa = policy(ps, obs{pol_kw})
s1 = env.transition(s, pa[1], key=K)
r = env.reward(s, pa[1], s1, key=K)
d1 = env.terminal(s1, key=K) | env.truncate(s1)
emit = lax.select(done, 0.0, r)
ndone = lax.select(done, True, d1)
nenv = lax.cond(done, lambda: s, lambda: s1)
""", {"env": envp, "policy": polp, "s": ("param", "$s"), "ps": ("param", "$ps"), "done": ("param", "$done"), "K": KEY})
            s.eq("C19.5", con6 + tag, nz6, emitted, ref["emit"], "per-step output == select(done_so_far, 0, reward of the step taken)", loc6,
                 key="emit-formula", necessary_for="rewards stop accumulating at the first terminal or truncated state")
            s.eq("C19.5", con6 + tag, nz6, ndone, ref["ndone"], "done' == done_so_far ? True : terminal(s1) | truncate(s1)", loc6, key="done-formula",
                 necessary_for="each episode ends at its first terminal or truncated state")
            s.eq("C19.5", con6 + tag, nz6, b6.item(ncarry, 0), ref["nenv"], "the environment state advances only while the episode is running", loc6,
                 key="env-advance")
            # independent episodes need independent noise: within a step the policy's draw and the environment's draws (observation,
            # transition, reward, terminal) each consume their own split of the step key - a shared sub-key couples the action noise to
            # the transition noise and biases the estimate for stochastic policies on stochastic environments
            consumers = {}
            for x in walk(bp.ret):
                if isinstance(x, tuple) and x and x[0] == "call":
                    nm = None
                    if x[1] == polp:
                        nm = "policy"
                    elif isinstance(x[1], tuple) and x[1][0] == "attr" and x[1][1] == envp and x[1][2] in ("observation", "transition", "reward", "terminal"):
                        nm = "env." + x[1][2]
                    kk = dict((k_, v) for k_, v in x[3] if k_).get("key") if nm else None
                    if nm and kk is not None:
                        consumers.setdefault(nm, set()).add(kk)
            flat_keys = [k_ for ks_ in consumers.values() for k_ in ks_]
            want_n = 4 if det else 5
            s.ob("C19.5", con6 + tag, len(flat_keys) == len(set(flat_keys)) == want_n and all(
                isinstance(k_, tuple) and k_ and k_[0] == "item" and isinstance(k_[1], tuple) and k_[1] and k_[1][0] == "call" and k_[1][1] == ("global", "jax.random.split")
                and k_[1][2] and k_[1][2][0] == ("param", "$k") for k_ in flat_keys),
                "the policy and each environment function called in a step consume distinct elements of one split of the step key", loc6, key="step-keys-distinct",
                detail="; ".join(f"{n_}: {', '.join(show(k_, maxlen=60) for k_ in ks_)}" for n_, ks_ in sorted(consumers.items())),
                necessary_for="the mean undiscounted return of independent episodes (action noise independent of transition noise)")
            pcs = [x for x in walk(bp.ret) if isinstance(x, tuple) and x and x[0] == "call" and x[1] == polp]
            s.ob("C19.5", con6 + tag, len(pcs) == 1 and (("key" in dict((k, v) for k, v in pcs[0][3] if k)) != det),
                 "deterministic evaluation calls the policy without a key; stochastic evaluation with one", loc6, key="deterministic-key",
                 detail="; ".join(show(x, maxlen=120) for x in pcs))
    if seen != {True, False}:
        raise AnalysisError(f"{con6}: expected deterministic and stochastic cases, got {seen}")
    con7 = "lerax.benchmark.rollout_while"
    m7, f7 = s.function("lerax.benchmark", "rollout_while")
    loc7 = s.prog.loc(m7, f7)
    seen = set()
    for p7 in live(s.fpaths(b6, "lerax.benchmark", "rollout_while")):
        ret = p7.ret
        wl = ret[1] if isinstance(ret, tuple) and ret[0] == "item" and ret[2] == 3 else None
        ok = isinstance(wl, tuple) and wl[0] == "while"
        s.ob("C19.5", con7, ok, "returns element 3 (the cumulative reward) of the while-loop carry", loc7, key="while-shape", detail=show(ret, maxlen=120))
        if not ok:
            continue
        _, condf, bodyf, init = wl
        carry = ("tuple", (("param", "$s"), ("param", "$ps"), ("param", "$k"), ("param", "$cum")))
        nt_init = b6.namedtuple_fields(init)
        if nt_init is not None and len(nt_init) == 4:
            # a NamedTuple carry: the symbolic carry is an instance of the same class (fields by declared position), the initial carry its tuple
            order7 = [f_.name for f_ in s.prog.dataclass_fields(s.prog.classes[init[1]])]
            carry = ("record", init[1], tuple(zip(order7, carry[1])))
            init = ("tuple", nt_init)
        c = strip_keys(b6.apply(condf, (carry,), ()))
        want = s.ref(b6, "~(env.terminal(s, key=K) | env.truncate(s))", {"env": envp, "s": ("param", "$s"), "K": KEY})
        s.eq("C19.5", con7, nz6, c, want, "the loop continues exactly while ~(terminal(state) | truncate(state))", loc7, key="while-cond",
             necessary_for="the episode ends at its first terminal or truncated state")
        ok_init = isinstance(init, tuple) and init[0] == "tuple" and len(init[1]) == 4 and nz6.canon(init[1][3]) == ("k", 0)
        s.ob("C19.5", con7, ok_init, "the cumulative reward starts at 0", loc7, key="while-init", detail=show(init, maxlen=160))
        for bp in b6.apply_paths(bodyf, (carry,), fixed=dict(p7.conds)):
            det = any(v for t, v in list(p7.conds) + list(bp.conds) if t == ("param", "deterministic"))
            seen.add(det)
            out = strip_keys(bp.ret)
            pol_kw = "" if det else ", key=K"
            ref = s.refprog(b6, f"""
obs = env.observation(s, key=K)
pa = policy(ps, obs{pol_kw})
s1 = env.transition(s, pa[1], key=K)
cum1 = cum + env.reward(s, pa[1], s1, key=K)
""", {"env": envp, "policy": polp, "s": ("param", "$s"), "ps": ("param", "$ps"), "cum": ("param", "$cum"), "K": KEY})
            s.eq("C19.5", con7 + f"[deterministic={det}]", nz6, b6.item(out, 3), ref["cum1"], "cumulative' == cumulative + reward of the step taken", loc7,
                 key="while-accumulate", necessary_for="undiscounted return")
            s.eq("C19.5", con7 + f"[deterministic={det}]", nz6, b6.item(out, 0), ref["s1"], "the carried state is the successor", loc7, key="while-state")
            s.eq("C19.5", con7 + f"[deterministic={det}]", nz6, b6.item(out, 1), ("item", ref["pa"], 0), "the carried policy state is the one the policy call returned", loc7,
                 key="while-policy-state", necessary_for="the mean return of the GIVEN policy (a policy with internal state advances it from step to step)")
    if seen != {True, False}:
        raise AnalysisError(f"{con7}: expected deterministic and stochastic cases")
    check_average_reward(s)
    check_iteration_context(s)
    from .util import no_late_binding
    no_late_binding(s, "C19.4", ("lerax.callback", "lerax.benchmark"), necessary_for="every record reaches the backend it was meant for (a helper defined in the backend loop must not read the loop variable late)")
    for r_, n in (("C19.1", 8), ("C19.2", 4), ("C19.3", 16), ("C19.4", 6), ("C19.5", 20), ("C19.8", 40)):
        s.floor(r_, n)
