"""C17 — built-in environments realise their Gymnasium reference MDPs (cross-source agreement, partial)."""
from __future__ import annotations

import ast

from .. import gymref
from ..model import AnalysisError
from ..norm import Normalizer, freeze, padd, patom, pconst, pmul, pneg, show_term, thaw
from ..vgraph import FALSE, NONE, TRUE, Closure, Ctx, mapnodes, replace_nodes, show, walk
from .util import fields, kwargs_of, live, one

EXPLANATION = (
    "Cross-source agreement between lerax's sources and the parsed (never imported) Gymnasium sources that ship in the repository's "
    "environment. Classic control (CartPole, MountainCar, ContinuousMountainCar, Acrobot): C17.1 constructor defaults vs the reference's "
    "constants under a name map; C17.2 termination predicate normal forms (total order on comparisons); C17.3 reward as a function of "
    "(action, which state) with the reference's constants; C17.4 post-integration state limits (clamps lowered to clip, wall-stop "
    "predicate) and the MountainCar/ContinuousMountainCar sibling check; C17.5 initial-state range; C17.6 vector field (increments of the "
    "reference's explicit-Euler update); C17.17 the step integrates that field from (state.t, state.y) over one control interval under "
    "the action taken with the configured solver / dt0 / controller, clips the solution at t+dt and advances the clock by dt. MuJoCo (11 environments vs Gymnasium v5): C17.7 constructor defaults by parameter name; C17.8 "
    "reset noise law of qpos/qvel; C17.9 kinematics typestate: an environment that reads a derived mjx.Data field at reset time or on the "
    "pre-state must run mjx.forward after the last qpos/qvel write in initial(); C17.10 observation composition (parts, slices, clip "
    "bounds) per flag combination; C17.11 reward terms against the reference's reward_info terms; C17.12 body-position field (xpos vs "
    "xipos) decided with the MJCF asset; C17.13 reward()/transition_info() sibling agreement and info keys. NOT decided: that MJX and "
    "MuJoCo integrate identically; trajectories; anything outside these descriptors."
)
ASSUMPTIONS = [
    "the Gymnasium sources found through importlib.util.find_spec are the reference the property names (version recorded in the evidence)",
    "actions are in range (clip(action) is the identity on the reference side); states are not NaN (a<=b is not(b<a))",
    "MJX and MuJoCo integrate identically (not decided); mjx.forward recomputes every derived field",
]

PRIMARY = {"qpos", "qvel", "ctrl", "time", "act", "qacc_warmstart", "xfrc_applied", "mocap_pos", "mocap_quat"}
DERIVED = {"xpos", "xipos", "xmat", "ximat", "xquat", "site_xpos", "site_xmat", "cinert", "cvel", "cfrc_ext", "cfrc_int", "qfrc_actuator", "qfrc_constraint", "qfrc_bias",
           "ten_length", "ten_velocity", "subtree_com", "sensordata", "actuator_force", "qacc", "geom_xpos", "geom_xmat", "contact"}

CLASSIC = {
    "CartPole": ("CartPoleEnv", {"gravity": "gravity", "masscart": "cart_mass", "masspole": "pole_mass", "length": "half_length", "force_mag": "force_mag", "tau": "dt",
                                 "theta_threshold_radians": "theta_threshold_radians", "x_threshold": "x_threshold"}),
    "MountainCar": ("MountainCarEnv", {"min_position": "min_position", "max_position": "max_position", "max_speed": "max_speed", "goal_position": "goal_position", "force": "force",
                                       "gravity": "gravity"}),
    "ContinuousMountainCar": ("Continuous_MountainCarEnv", {"min_action": "min_action", "max_action": "max_action", "min_position": "min_position", "max_position": "max_position",
                                                            "max_speed": "max_speed", "goal_position": "goal_position", "power": "power"}),
    "Acrobot": ("AcrobotEnv", {"dt": "dt", "LINK_LENGTH_1": "link_length_1", "LINK_LENGTH_2": "link_length_2", "LINK_MASS_1": "link_mass_1", "LINK_MASS_2": "link_mass_2",
                               "LINK_COM_POS_1": "link_com_pos_1", "LINK_COM_POS_2": "link_com_pos_2", "LINK_MOI": "link_moi", "MAX_VEL_1": "max_vel_1", "MAX_VEL_2": "max_vel_2",
                               "torque_noise_max": "torque_max_noise", "AVAIL_TORQUE": "torques"}),
}
MUJOCO = {"Ant": "AntEnv", "HalfCheetah": "HalfCheetahEnv", "Hopper": "HopperEnv", "Humanoid": "HumanoidEnv", "HumanoidStandup": "HumanoidStandupEnv",
          "InvertedDoublePendulum": "InvertedDoublePendulumEnv", "InvertedPendulum": "InvertedPendulumEnv", "Pusher": "PusherEnv", "Reacher": "ReacherEnv", "Swimmer": "SwimmerEnv",
          "Walker2d": "Walker2dEnv"}


def lerax_defaults(P, cls):
    ci = P.cls(cls)
    r = P.resolve_method(ci, "__init__")
    a = r[1].args
    out = {}
    pos = a.posonlyargs + a.args
    for p_, d in zip(pos[len(pos) - len(a.defaults):], a.defaults):
        out[p_.arg] = d
    for p_, d in zip(a.kwonlyargs, a.kw_defaults):
        if d is not None:
            out[p_.arg] = d
    return r[0].module, out


def const_canon(nz, builder, module, expr, extra_env=None):
    return nz.canon(builder.ev(expr, dict(extra_env or {}), Ctx(module, None, None)))


# ----------------------------------------------------------------------------- classic control
def check_classic(s):
    P = s.prog
    G = gymref.load()
    self_ = ("param", "self")
    lb = s.builder(inline=set())
    gb = gymref.builder(inline_all=False)
    nz = Normalizer(None)
    # ---- C17.1 constants
    for cls, (gcls, names) in CLASSIC.items():
        lmod, ldef = lerax_defaults(P, cls)
        gci = gymref.cls(gcls)
        gass = gymref.init_assigns(gcls)
        gdef = gymref.init_defaults(gcls)
        loc = s.loc(cls, "__init__")
        for gname, lname in names.items():
            gexpr = gass.get(gname)
            if gexpr is None or lname not in ldef:
                raise AnalysisError(f"C17.1 {cls}: reference constant {gname} or parameter {lname} vanished")
            gv = const_canon(nz, gb, gci.module, gexpr)
            lv = const_canon(nz, lb, lmod, ldef[lname])
            s.ob("C17.1", f"{cls}.{lname}", gv == lv, f"default of `{lname}` equals the reference's `{gname}`", loc, key=f"default-{lname}",
                 detail=f"lerax {show_term(lv, 80)} vs Gymnasium {show_term(gv, 80)}", necessary_for="the same MDP as the Gymnasium namesake")
        if "goal_velocity" in ldef and "goal_velocity" in gdef:
            gv, lv = const_canon(nz, gb, gci.module, gdef["goal_velocity"]), const_canon(nz, lb, lmod, ldef["goal_velocity"])
            s.ob("C17.1", f"{cls}.goal_velocity", gv == lv, "default of `goal_velocity` equals the reference's", loc, key="default-goal_velocity", detail=f"{show_term(lv)} vs {show_term(gv)}")
    # Acrobot gravity is a local constant of the reference's _dsdt
    _, _, gfn = gymref.method("AcrobotEnv", "_dsdt")
    gg = [st.value for st in gfn.body if isinstance(st, ast.Assign) and isinstance(st.targets[0], ast.Name) and st.targets[0].id == "g"]
    lmod, ldef = lerax_defaults(P, "Acrobot")
    s.ob("C17.1", "Acrobot.gravity", bool(gg) and const_canon(nz, gb, gymref.cls("AcrobotEnv").module, gg[0]) == const_canon(nz, lb, lmod, ldef["gravity"]),
         "default of `gravity` equals the reference's g", s.loc("Acrobot", "__init__"), key="default-gravity")
    # ---- C17.2 termination
    specs = {
        "CartPole": ("CartPoleEnv", "step", "terminated", ["x", "x_dot", "theta", "theta_dot"]),
        "MountainCar": ("MountainCarEnv", "step", "terminated", ["position", "velocity"]),
        "ContinuousMountainCar": ("Continuous_MountainCarEnv", "step", "terminated", ["position", "velocity"]),
    }
    for cls, (gcls, gm, var, comps) in specs.items():
        gci, gdc, gfn = gymref.method(gcls, gm)
        st = [x for x in gfn.body if isinstance(x, ast.Assign) and isinstance(x.targets[0], ast.Name) and x.targets[0].id == var]
        if not st:
            raise AnalysisError(f"reference {gcls}.{gm}: `{var} =` vanished")
        syms = {c: ("param", f"${c}") for c in comps}
        gbb = gymref.builder(inline_all=False)
        gnode = gymref.to_common(gbb.ev(st[0].value, dict(syms, self=self_), Ctx(gdc.module, gdc, gfn)))
        gnode = rename_attrs(gnode, CLASSIC[cls][1])
        lbb = s.builder(inline=set())
        nzt = Normalizer(lbb, total_order=True)
        y = ("call", ("global", "jax.numpy.array"), (("list", tuple(syms[c] for c in comps)),), ())
        state = ("record", P.cls(cls + "State").qualname, (("y", y), ("t", ("param", "$t"))))
        pl = one(s.paths(lbb, cls, "terminal", binding={"state": state}), f"{cls}.terminal")
        s.eq("C17.2", f"{cls}.terminal", nzt, pl.ret, gnode, "termination predicate == the reference's `terminated`", s.loc(cls, "terminal"), key="termination-predicate",
             necessary_for="the same termination predicate as the Gymnasium namesake")
    # Acrobot: _terminal
    gci, gdc, gfn = gymref.method("AcrobotEnv", "_terminal")
    gbb = gymref.builder(inline_all=False)
    gp = [p for p in gbb.paths(gfn, Ctx(gdc.module, gdc, gfn, gci)) if p.raised is None][0]
    comps = ["t1", "t2", "d1", "d2"]
    syms = [("param", f"${c}") for c in comps]
    y = ("call", ("global", "jax.numpy.array"), (("list", tuple(syms)),), ())
    gnode = replace_nodes(gp.ret, {("attr", self_, "state"): ("tuple", tuple(syms))})
    gnode = reindex(gbb, gnode)
    lbb = s.builder(inline=set())
    nzt = Normalizer(lbb, total_order=True)
    state = ("record", P.cls("AcrobotState").qualname, (("y", y), ("t", ("param", "$t"))))
    pl = one(s.paths(lbb, "Acrobot", "terminal", binding={"state": state}), "Acrobot.terminal")
    s.eq("C17.2", "Acrobot.terminal", nzt, pl.ret, gnode, "termination predicate == the reference's _terminal()", s.loc("Acrobot", "terminal"), key="termination-predicate")
    # ---- C17.3 reward
    check_classic_rewards(s)
    # ---- C17.4 limits
    check_limits(s)
    # ---- C17.5 initial range
    for cls, (gcls, _) in CLASSIC.items():
        gci, gdc, gfn = gymref.method(gcls, "reset")
        calls = [n for n in ast.walk(gfn) if isinstance(n, ast.Call) and isinstance(n.func, ast.Attribute) and n.func.attr == "maybe_parse_reset_bounds"]
        if len(calls) != 1 or len(calls[0].args) != 3:
            raise AnalysisError(f"reference {gcls}.reset: maybe_parse_reset_bounds(options, lo, hi) vanished")
        glo, ghi = (const_canon(nz, gb, gdc.module, a) for a in calls[0].args[1:])
        lbb = s.builder(inline=set())
        pl = one(s.paths(lbb, cls, "initial"), f"{cls}.initial")
        us = [c for c in walk(pl.ret) if isinstance(c, tuple) and c and c[0] == "call" and c[1] == ("global", "jax.random.uniform")]
        ok = len(us) == 1
        det = "; ".join(show(u, maxlen=120) for u in us)
        if ok:
            kw = kwargs_of(us[0])
            ok = nz.canon(kw.get("minval", NONE)) == glo and nz.canon(kw.get("maxval", NONE)) == ghi
        s.ob("C17.5", f"{cls}.initial", ok, "the initial state is drawn uniformly from the reference's reset bounds", s.loc(cls, "initial"), key="initial-range",
             detail=f"{det} vs reference ({show_term(glo)}, {show_term(ghi)})", necessary_for="the same initial-state range as the Gymnasium namesake")
        # which components are random
        gsrc = ast.unparse(gfn)
        scalar_first = "np.array([self.np_random.uniform(low=low, high=high), 0])" in gsrc
        y = fields(pl.ret).get("y")
        if scalar_first:
            comps_ = y[2][0][1] if isinstance(y, tuple) and y[0] == "call" and y[2] and isinstance(y[2][0], tuple) and y[2][0][0] in ("list", "tuple") else None
            okc = comps_ is not None and len(comps_) == 2 and comps_[0] in us and nz.canon(comps_[1]) == ("k", 0)
            s.ob("C17.5", f"{cls}.initial", okc, "only the position is random; the initial velocity is 0", s.loc(cls, "initial"), key="initial-components", detail=show(y or NONE, maxlen=160))
        else:
            okc = y in us and nz.canon(kwargs_of(y).get("shape", y[2][1] if len(y[2]) > 1 else NONE)) == ("tuple", ("k", 4))
            s.ob("C17.5", f"{cls}.initial", okc, "all four state components are drawn (size 4)", s.loc(cls, "initial"), key="initial-components", detail=show(y or NONE, maxlen=160))


def rename_attrs(n, names):
    self_ = ("param", "self")
    rn = {g: l for g, l in names.items()}
    # lerax stores half_length as `length`, dt as `dt`
    rn.update({"length": "length", "tau": "dt", "masscart": "cart_mass", "masspole": "pole_mass"})

    def f(x):
        if x and x[0] == "attr" and x[1] == self_ and x[2] in rn:
            return ("attr", self_, rn[x[2]])
        return x

    return mapnodes(n, f)


def reindex(b, n):
    """Resolve x[i] on tuple nodes introduced by substitution."""
    def f(x):
        if x and x[0] == "item" and isinstance(x[1], tuple) and x[1] and x[1][0] in ("tuple", "list") and isinstance(x[2], int) and 0 <= x[2] < len(x[1][1]):
            return x[1][1][x[2]]
        if x and x[0] == "sub" and isinstance(x[1], tuple) and x[1] and x[1][0] in ("tuple", "list") and x[2][0] == "const" and isinstance(x[2][1], int):
            try:
                return x[1][1][x[2][1]]
            except IndexError:
                return x
        return x

    return mapnodes(n, f)


def check_classic_rewards(s):
    P = s.prog
    self_ = ("param", "self")
    # MountainCar / CartPole: constants
    for cls, gcls in (("MountainCar", "MountainCarEnv"), ("CartPole", "CartPoleEnv")):
        gci, gdc, gfn = gymref.method(gcls, "step")
        gb = gymref.builder(inline_all=False)
        fixed = {}
        vals = set()
        nzg = Normalizer(None)
        for p in gb.paths(gfn, Ctx(gdc.module, gdc, gfn, gci), max_paths=4096):
            if p.raised is not None or "reward" not in p.env:
                continue
            conds = {show(t, maxlen=200): v for t, v in p.conds}
            # reference defaults: sutton_barto_reward False; episode not yet terminated before this step
            if any("_sutton_barto_reward" in k and v for k, v in conds.items()):
                continue
            if any("steps_beyond_terminated is None" in k and not v for k, v in conds.items()):
                continue
            vals.add(nzg.canon(p.env["reward"]))
        lb = s.builder(inline=set())
        nz = Normalizer(lb)
        pl = one(s.paths(lb, cls, "reward"), f"{cls}.reward")
        s.ob("C17.3", f"{cls}.reward", len(vals) == 1 and nz.canon(pl.ret) in vals, "the per-step reward constant equals the reference's (including the terminal step)", s.loc(cls, "reward"),
             key="reward-constant", detail=f"lerax {show_term(nz.canon(pl.ret))} vs reference {[show_term(v) for v in vals]}",
             necessary_for="the same reward for every transition including the goal/terminal step")
    # Acrobot: -1 unless the NEW state is terminal
    lb = s.builder(inline={"terminal"})
    comps = [("param", f"${c}") for c in ("t1", "t2", "d1", "d2")]
    comps0 = [("param", f"${c}0") for c in ("t1", "t2", "d1", "d2")]
    mk = lambda cs: ("record", P.cls("AcrobotState").qualname, (("y", ("call", ("global", "jax.numpy.array"), (("list", tuple(cs)),), ())), ("t", ("param", "$t"))))
    nz = Normalizer(lb, ite_poly=True, total_order=True)
    pl = one(s.paths(lb, "Acrobot", "reward", binding={"state": mk(comps0), "next_state": mk(comps)}), "Acrobot.reward")
    pt = one(s.paths(lb, "Acrobot", "terminal", binding={"state": mk(comps)}), "Acrobot.terminal")
    want = ("ite", pt.ret, ("const", 0.0), ("const", -1.0))
    s.eq("C17.3", "Acrobot.reward", nz, pl.ret, want, "reward == 0 if the NEW state is terminal else −1 (the reference's `-1.0 if not terminated else 0.0`)", s.loc("Acrobot", "reward"),
         key="reward-formula", necessary_for="the same reward on the terminal step")
    gci, gdc, gfn = gymref.method("AcrobotEnv", "step")
    src = [ast.unparse(st) for st in gfn.body]
    if "reward = -1.0 if not terminated else 0.0" not in src or "terminated = self._terminal()" not in src:
        raise AnalysisError("reference AcrobotEnv.step: reward statement changed")
    # ContinuousMountainCar
    gci, gdc, gfn = gymref.method("Continuous_MountainCarEnv", "step")
    gb = gymref.builder(inline_all=False, merge_ifs=True)
    stmts = gymref.stmts_between(gfn, "terminated", lambda st: isinstance(st, ast.Assign) and isinstance(st.targets[0], ast.Attribute))
    P1, V1, A = ("param", "$p1"), ("param", "$v1"), ("param", "$a")
    env = {"position": P1, "velocity": V1, "action": ("tuple", (A,)), "self": self_}
    gb.decisions, gb.trace, gb.effects, gb.asserts = {}, [], [], []
    gb.run(stmts, env, Ctx(gdc.module, gdc, gfn, gci))
    gr = reindex(gb, gymref.to_common(env["reward"]))
    lb = s.builder(inline={"terminal"})
    nz = Normalizer(lb, ite_poly=True, total_order=True)
    mk2 = lambda a, b_: ("record", P.cls("ContinuousMountainCarState").qualname, (("y", ("call", ("global", "jax.numpy.array"), (("list", (a, b_)),), ())), ("t", ("param", "$t"))))
    pl = one(s.paths(lb, "ContinuousMountainCar", "reward", binding={"state": mk2(("param", "$p0"), ("param", "$v0")), "next_state": mk2(P1, V1), "action": A}), "ContinuousMountainCar.reward")
    lr = inrange_action(pl.ret, A)
    gr = mapnodes(gr, lambda x: ("bin", "Pow", x[2][0], x[2][1]) if x and x[0] == "call" and x[1] == ("global", "math.pow") and len(x[2]) == 2 else x)
    s.eq("C17.3", "ContinuousMountainCar.reward", nz, lr, gr, "reward == 100·[NEW state reaches the goal] − 0.1·action² (the reference reads the post-step position/velocity)",
         s.loc("ContinuousMountainCar", "reward"), key="reward-formula", necessary_for="the same reward for every transition including the goal step")


def inrange_action(n, A):
    """clip(A, lo, hi) -> A under the in-range-action assumption."""
    return mapnodes(n, lambda x: A if x and x[0] == "call" and x[1] == ("global", "jax.numpy.clip") and x[2] and x[2][0] == A else x)


def boundary_normalise(nz, poly):
    """v * [0 < v]  ==  v * (1 - [v < 0])  (they differ only where v == 0, where the factor v vanishes)."""
    out = {}
    for m, c in poly.items():
        atoms = dict(m)
        repl = None
        for a, e in m:
            if isinstance(a, tuple) and a and a[0] == "cmp" and a[1] == "Lt" and a[2] == ("k", 0) and a[3] in atoms and atoms[a[3]] >= 1:
                repl = a
                break
        if repl is None:
            out = padd(out, {m: c})
            continue
        rest = tuple(x for x in m if x[0] != repl)
        neg_atom = ("cmp", "Lt", repl[3], ("k", 0))
        out = padd(out, pmul({rest: c}, padd(pconst(1), pneg(patom(neg_atom)))))
    return out


def check_limits(s):
    P = s.prog
    self_ = ("param", "self")
    Pn, Vn = ("param", "$x"), ("param", "$v")
    res = {}
    for cls, gcls in (("MountainCar", "MountainCarEnv"), ("ContinuousMountainCar", "Continuous_MountainCarEnv")):
        gci, gdc, gfn = gymref.method(gcls, "step")
        body = list(gfn.body)
        i0 = next(i for i, st in enumerate(body) if isinstance(st, ast.AugAssign) and isinstance(st.target, ast.Name) and st.target.id == "velocity")
        i1 = next(i for i, st in enumerate(body) if isinstance(st, ast.Assign) and isinstance(st.targets[0], ast.Name) and st.targets[0].id == "terminated")
        stmts = [st for st in body[i0 + 1:i1] if not (isinstance(st, ast.AugAssign) and isinstance(st.target, ast.Name) and st.target.id == "position")]
        gb = gymref.builder(inline_all=False, merge_ifs=True)
        env = {"position": Pn, "velocity": Vn, "self": self_}
        gb.decisions, gb.trace, gb.effects, gb.asserts = {}, [], [], []
        gb.run(stmts, env, Ctx(gdc.module, gdc, gfn, gci))
        gpos, gvel = gymref.to_common(env["position"]), gymref.to_common(env["velocity"])
        lb = s.builder(inline=set())
        nz = Normalizer(lb, ite_poly=True, total_order=True, minmax=True)
        y = ("call", ("global", "jax.numpy.array"), (("list", (Pn, Vn)),), ())
        pl = one(s.paths(lb, cls, "clip", binding={"y": y}), f"{cls}.clip")
        comps = pl.ret[2][0][1] if isinstance(pl.ret, tuple) and pl.ret[0] == "call" and pl.ret[2] and pl.ret[2][0][0] in ("list", "tuple") else None
        if comps is None or len(comps) != 2:
            raise AnalysisError(f"{cls}.clip: does not return a 2-vector literal")
        loc = s.loc(cls, "clip")
        s.eq("C17.4", f"{cls}.clip[position]", nz, comps[0], gpos, "position limit == the reference's clamp to [min_position, max_position]", loc, key="position-limit",
             necessary_for="the same state limits as the Gymnasium namesake")
        lv = freeze(boundary_normalise(nz, nz.poly(comps[1])))
        gv = freeze(boundary_normalise(nz, nz.poly(gvel)))
        ok = lv == gv
        s.ob("C17.4", f"{cls}.clip[velocity]", ok, "velocity limit == the reference's clamp to ±max_speed followed by the left-wall stop (velocity zeroed at min_position when moving left)",
             loc, key="velocity-limit", detail=f"lerax:     {show_term(lv, 500)}\nreference: {show_term(gv, 500)}", necessary_for="the same state limits, including the inelastic left wall")
        res[cls] = (nz.canon(comps[0]), lv)
    s.ob("C17.4", "siblings(MountainCar.clip, ContinuousMountainCar.clip)", res["MountainCar"] == res["ContinuousMountainCar"],
         "the two mountain-car environments apply the same limit function (their Gymnasium references do)", s.loc("ContinuousMountainCar", "clip"), key="sibling-limits",
         detail=f"MountainCar velocity {show_term(res['MountainCar'][1], 200)} | Continuous {show_term(res['ContinuousMountainCar'][1], 200)}")
    # Acrobot: wrap to [-pi, pi] and bound velocities — reference statement table
    gci, gdc, gfn = gymref.method("AcrobotEnv", "step")
    src = {ast.unparse(st) for st in gfn.body}
    want = {"ns[0] = wrap(ns[0], -pi, pi)", "ns[1] = wrap(ns[1], -pi, pi)", "ns[2] = bound(ns[2], -self.MAX_VEL_1, self.MAX_VEL_1)", "ns[3] = bound(ns[3], -self.MAX_VEL_2, self.MAX_VEL_2)"}
    if not want <= src:
        raise AnalysisError("reference AcrobotEnv.step: wrap/bound statements changed")
    lb = s.builder(inline=set())
    nz = Normalizer(lb)
    ys = [("param", f"$y{i}") for i in range(4)]
    pl = one(s.paths(lb, "Acrobot", "clip", binding={"y": ("call", ("global", "jax.numpy.array"), (("list", tuple(ys)),), ())}), "Acrobot.clip")
    comps = pl.ret[2][0][1]
    refs = ["(y + jnp.pi) % (2 * jnp.pi) - jnp.pi", "(y + jnp.pi) % (2 * jnp.pi) - jnp.pi", "jnp.clip(y, -self.max_vel_1, self.max_vel_1)", "jnp.clip(y, -self.max_vel_2, self.max_vel_2)"]
    for i, (c, r) in enumerate(zip(comps, refs)):
        s.eq("C17.4", f"Acrobot.clip[{i}]", nz, c, s.ref(lb, r, {"y": ys[i], "self": self_}), "angles wrap to [−π, π]; velocities are bounded by ±MAX_VEL_i (the reference's wrap / bound)",
             s.loc("Acrobot", "clip"), key=f"limit-{i}")
    bc = s.builder(inline=set())
    pc = one(s.paths(bc, "CartPole", "clip"), "CartPole.clip")
    s.ob("C17.4", "CartPole.clip", pc.ret == ("param", "y"), "CartPole applies no state limit (the reference has none)", s.loc("CartPole", "clip"), key="no-limit", detail=show(pc.ret))


# ----------------------------------------------------------------------------- MuJoCo
def check_mujoco_defaults(s):
    P = s.prog
    nz = Normalizer(None)
    lb = s.builder(inline=set())
    gb = gymref.builder(inline_all=False)
    for cls, gcls in MUJOCO.items():
        lmod, ldef = lerax_defaults(P, cls)
        gdef = gymref.init_defaults(gcls)
        gmod = gymref.cls(gcls).module
        loc = s.loc(cls, "__init__")
        common = [k for k in ldef if k in gdef]
        if len(common) < 2:
            raise AnalysisError(f"C17.7 {cls}: fewer than 2 common constructor parameters with the reference")
        for k in common:
            lv, gv = const_canon(nz, lb, lmod, ldef[k]), const_canon(nz, gb, gmod, gdef[k])
            s.ob("C17.7", f"{cls}.{k}", lv == gv, f"default of `{k}` equals Gymnasium v5's", loc, key=f"default-{k}", detail=f"lerax {show_term(lv, 80)} vs Gymnasium {show_term(gv, 80)}",
                 necessary_for="Gymnasium v5 semantics by default")
        missing = [k for k in gdef if k not in ldef and k not in ("default_camera_config", "main_body", "render_mode", "width", "height", "camera_id", "camera_name", "max_geom", "visual_options")]
        if missing:
            s.notes.append(f"C17.7 {cls}: reference parameters without a lerax counterpart: {missing}")


# attributes that select / tune the numerical constraint solver, not the model: MJX has no PGS solver, so lerax's
# humanoid assets name Newton where Gymnasium's name PGS; both solve the same constraint problem to tolerance
SOLVER_ONLY = {("option", "solver")}


def xml_canon(text, what):
    """Canonical form of an MJCF document: (tag, sorted attributes with numbers normalised, children in order); comments and
    whitespace are dropped, solver-selection attributes are ignored."""
    import xml.etree.ElementTree as ET
    try:
        root = ET.fromstring(text)
    except ET.ParseError as e:
        raise AnalysisError(f"{what}: does not parse as XML: {e}") from e

    def num(v):
        toks = v.split()
        out = []
        for t in toks:
            try:
                out.append(repr(float(t)))
            except ValueError:
                out.append(t)
        return " ".join(out)

    def canon(el, path):
        attrs = tuple(sorted((k, num(v)) for k, v in el.attrib.items() if (el.tag, k) not in SOLVER_ONLY))
        return (el.tag, attrs, tuple(canon(c, path + "/" + el.tag) for c in el))

    return canon(root, "")


def xml_diff(a, b, path=""):
    """First few differences between two canonical trees, as readable strings."""
    out = []
    here = f"{path}/{a[0]}"
    if a[0] != b[0]:
        return [f"{here}: element <{a[0]}> vs <{b[0]}>"]
    da, db = dict(a[1]), dict(b[1])
    nm = da.get("name") or da.get("joint") or ""
    if nm:
        here += f"[{nm}]"
    for k in sorted(set(da) | set(db)):
        if da.get(k) != db.get(k):
            out.append(f"{here}@{k}: lerax {da.get(k)!r} vs Gymnasium {db.get(k)!r}")
    if len(a[2]) != len(b[2]):
        out.append(f"{here}: {len(a[2])} children vs {len(b[2])}")
    for ca, cb in zip(a[2], b[2]):
        out.extend(xml_diff(ca, cb, here))
        if len(out) > 6:
            break
    return out


def check_assets(s):
    """C17.14: the MJCF model each MuJoCo environment loads by default is Gymnasium's model of the reference class's default."""
    P = s.prog
    for cls, gcls in MUJOCO.items():
        lmod, ldef = lerax_defaults(P, cls)
        gdef = gymref.init_defaults(gcls)
        lx, gx = ldef.get("xml_file"), gdef.get("xml_file")
        loc = s.loc(cls, "__init__")
        if not (isinstance(lx, ast.Constant) and isinstance(lx.value, str) and isinstance(gx, ast.Constant) and isinstance(gx.value, str)):
            raise AnalysisError(f"C17.14 {cls}: xml_file default is not a literal on both sides")
        ltext = P.data_text(f"lerax/env/mujoco/assets/{lx.value}")
        gtext = gymref.asset_text(gx.value)
        if gtext is None:
            raise AnalysisError(f"C17.14 {cls}: Gymnasium asset {gx.value} not found")
        s.ob("C17.14", f"{cls}.asset", ltext is not None, f"the default asset {lx.value} exists in lerax/env/mujoco/assets", loc, key="asset-present")
        if ltext is None:
            continue
        a, b = xml_canon(ltext, f"lerax asset {lx.value}"), xml_canon(gtext, f"Gymnasium asset {gx.value}")
        diffs = [] if a == b else xml_diff(a, b)
        s.ob("C17.14", f"{cls}.asset", a == b,
             f"the model {lx.value} equals Gymnasium's {gx.value} element by element (bodies, joints, geoms, actuators, options; solver selection aside)", f"src/lerax/env/mujoco/assets/{lx.value}",
             key="asset-model", detail="; ".join(diffs[:6]), necessary_for="transition dynamics, masses, gears, joint ranges and the integration timestep are the reference MDP's")


def reads(node, base):
    """Field names F of all (attr base F) sub-nodes."""
    return {x[2] for x in walk(node) if isinstance(x, tuple) and x and x[0] == "attr" and x[1] == base}


def check_typestate(s):
    """C17.9: derived fields read at reset time / on the pre-state require mjx.forward in initial()."""
    P = s.prog
    self_ = ("param", "self")
    for cls in MUJOCO:
        ci = P.cls(cls)
        inl = lambda kind, name, c: kind in ("method", "property") and not name.endswith(("__init__", ".transition", ".initial"))
        need = {}
        D0, D1 = ("param", "$data0"), ("param", "$data1")
        st0 = ("record", P.cls("MujocoEnvState").qualname, (("sim_state", D0), ("t", ("param", "$t0"))))
        st1 = ("record", P.cls("MujocoEnvState").qualname, (("sim_state", D1), ("t", ("param", "$t1"))))
        for meth, binding, which in (("observation", {"state": st0}, "reset observation"), ("terminal", {"state": st0}, "terminal(initial state)"),
                                     ("state_info", {"state": st0}, "reset info"), ("reward", {"state": st0, "next_state": st1}, "reward on the pre-state"),
                                     ("transition_info", {"state": st0, "next_state": st1}, "transition_info on the pre-state")):
            r = P.resolve_method(ci, meth)
            if r is None:
                continue
            b = s.builder(inline=inl, max_depth=3)
            for p in live(b.paths(r[1], Ctx(r[0].module, r[0], r[1], ci), binding, max_paths=600)):
                d = reads(p.ret, D0) & DERIVED
                if d:
                    need.setdefault(which, set()).update(d)
            s.functions.add(f"{r[0].qualname}.{meth}")
        bi = s.builder(inline=set())
        pi = one(s.paths(bi, cls, "initial"), f"{cls}.initial")
        sim = fields(pi.ret).get("sim_state")
        forwarded = isinstance(sim, tuple) and sim[0] == "call" and sim[1] == ("global", "mujoco.mjx.forward")
        inner_ok = False
        if forwarded and len(sim[2]) == 2:
            inner = sim[2][1]
            inner_ok = isinstance(inner, tuple) and inner[0] == "call" and isinstance(inner[1], tuple) and inner[1][0] == "attr" and inner[1][2] == "replace" and {"qpos", "qvel"} <= set(kwargs_of(inner))
        loc = s.loc(cls, "initial")
        if need:
            detail = "; ".join(f"{k} reads {sorted(v)}" for k, v in sorted(need.items()))
            s.ob("C17.9", f"{cls}.initial", forwarded and inner_ok,
                 "the initial mjx.Data passes through mjx.forward after qpos/qvel are written (the reference's set_state does), because derived fields are read from it", loc,
                 key="no-forward-at-reset", detail=detail + f"; initial sim_state = {show(sim or NONE, maxlen=120)}",
                 necessary_for="the same observation at reset and the same reward/termination on the first step as Gymnasium v5 (derived fields are zero without forward kinematics)")
        else:
            s.ob("C17.9", f"{cls}.initial", True, "no derived field is read from the initial data: forward kinematics at reset are not required", loc)
    # C17.9b force-related fields (cfrc_ext, cacc, cfrc_int) are produced only by the post-constraint RNE pass, which neither mj_step
    # nor mjx.step runs: the reference's _step_mujoco_simulation calls mj_rnePostConstraint after stepping, and an environment that
    # reads such a field from the successor data must run mjx's rne_postconstraint after its last step (they are identically 0 otherwise)
    POST = {"cfrc_ext", "cacc", "cfrc_int"}
    gci, gdc, gfn = gymref.method("MujocoEnv", "_step_mujoco_simulation")
    ref_calls = [ast.unparse(n_.func) for n_ in ast.walk(gfn) if isinstance(n_, ast.Call)]
    if not any(c.endswith("mj_rnePostConstraint") for c in ref_calls):
        raise AnalysisError("C17.9b: the reference's _step_mujoco_simulation no longer calls mj_rnePostConstraint (premise of the rule)")
    bt = s.builder(inline=set())
    for cls in MUJOCO:
        ci = P.cls(cls)
        readers = []
        for meth in ("observation", "reward", "transition_info", "terminal", "state_info"):
            r = P.resolve_method(ci, meth)
            if r is None:
                continue
            for c2 in P.mro(ci):
                pass
            flds = set()
            todo = [r[1]]
            seen_fn = set()
            while todo:
                f_ = todo.pop()
                if id(f_) in seen_fn:
                    continue
                seen_fn.add(id(f_))
                for n_ in ast.walk(f_):
                    if isinstance(n_, ast.Attribute) and n_.attr in POST:
                        flds.add(n_.attr)
                    if isinstance(n_, ast.Call) and isinstance(n_.func, ast.Attribute) and isinstance(n_.func.value, ast.Name) and n_.func.value.id == "self":
                        rr = P.resolve_method(ci, n_.func.attr)
                        if rr is not None:
                            todo.append(rr[1])
            if flds:
                readers.append(f"{meth} reads {sorted(flds)}")
        rt = P.resolve_method(ci, "transition")
        pt = one(bt.paths(rt[1], Ctx(rt[0].module, rt[0], rt[1], ci)), f"{cls}.transition")
        upd = pt.ret
        post_calls = [c for c in walk(upd) if isinstance(c, tuple) and c and c[0] == "call" and isinstance(c[1], tuple) and c[1][0] == "global" and c[1][1].endswith("rne_postconstraint")]
        outer_ok = False
        if post_calls:
            # the post-constraint pass must wrap the result of the stepping scan (run after the last step), not precede it
            pc = post_calls[0]
            outer_ok = any(isinstance(x, tuple) and x and x[0] == "scan" for x in walk(pc[2][1] if len(pc[2]) > 1 else NONE))
        loc = P.loc(rt[0].module, rt[1])
        if readers:
            s.ob("C17.9", f"{cls}.transition", bool(post_calls) and outer_ok,
                 "force-related fields are read, so the transition runs rne_postconstraint on the data after its last simulation step (as the reference's mj_rnePostConstraint)", loc,
                 key="no-postconstraint-pass", detail="; ".join(readers) + f"; post-constraint calls in transition: {len(post_calls)}",
                 necessary_for="contact / impact costs and the contact-force part of the observation equal Gymnasium v5's (they are identically zero without the pass)")
        else:
            s.ob("C17.9", f"{cls}.transition", True, "no force-related field is read: the post-constraint pass is not required", loc)
    # sibling evidence: the G1 environments do forward
    for cls in ("G1Locomotion", "G1Standing", "G1Standup"):
        bi = s.builder(inline=set())
        pi = one(s.paths(bi, cls, "initial"), f"{cls}.initial")
        n_fw = len([c for c in walk(pi.ret) if isinstance(c, tuple) and c and c[0] == "call" and c[1] == ("global", "mujoco.mjx.forward")])
        s.control(f"sibling {cls}.initial calls mjx.forward {n_fw}x")


def gym_residual(gcls):
    """Constant (reward − Σ reward_info values) of the reference's _get_rew, or None if not a constant."""
    try:
        gci, gdc, gfn = gymref.method(gcls, "_get_rew")
    except AnalysisError:
        return None
    gb = gymref.builder(inline_all=True)
    nz = Normalizer(gb)
    out = None
    try:
        for p in gb.paths(gfn, Ctx(gdc.module, gdc, gfn, gci), max_paths=64):
            if p.raised is not None or not (isinstance(p.ret, tuple) and p.ret[0] == "tuple" and len(p.ret[1]) == 2):
                continue
            rew, info = p.ret[1]
            if not (isinstance(info, tuple) and info[0] == "dict"):
                continue
            total = None
            for k, v in info[1]:
                if k[0] == "const" and isinstance(k[1], str):
                    total = v if total is None else ("bin", "Add", total, v)
            if total is None:
                continue
            r = freeze(nz.poly(("bin", "Sub", rew, total)))
            if not (isinstance(r, tuple) and r[0] == "k"):
                return None
            out = r
    except AnalysisError:
        return None
    return out


def check_info_siblings(s):
    """C17.13: reward() and transition_info() agree on every shared term; reward == signed sum of the info terms."""
    P = s.prog
    self_ = ("param", "self")
    for cls, gcls in MUJOCO.items():
        ci = P.cls(cls)
        inl = lambda kind, name, c: kind in ("method", "property") and not name.endswith(("__init__", ".transition", ".initial"))
        D0, D1 = ("param", "$data0"), ("param", "$data1")
        st0 = ("record", P.cls("MujocoEnvState").qualname, (("sim_state", D0), ("t", ("param", "$t0"))))
        st1 = ("record", P.cls("MujocoEnvState").qualname, (("sim_state", D1), ("t", ("param", "$t1"))))
        b = s.builder(inline=inl, max_depth=3)
        nz = Normalizer(b)
        rr, ri = P.resolve_method(ci, "reward"), P.resolve_method(ci, "transition_info")
        binding = {"state": st0, "next_state": st1}
        rps = live(b.paths(rr[1], Ctx(rr[0].module, rr[0], rr[1], ci), binding, max_paths=600))
        ips = live(b.paths(ri[1], Ctx(ri[0].module, ri[0], ri[1], ci), binding, max_paths=600))
        loc = s.loc(cls, "transition_info")
        # reference reward_info keys
        try:
            _, _, gfn = gymref.method(gcls, "_get_rew")
        except AnalysisError:
            gfn = None
        gkeys = set()
        if gfn is not None:
            for n in ast.walk(gfn):
                if isinstance(n, ast.Dict):
                    gkeys |= {k.value for k in n.keys if isinstance(k, ast.Constant) and isinstance(k.value, str)}
        for ip in ips:
            d = ip.ret
            if not (isinstance(d, tuple) and d[0] == "dict"):
                continue
            items = {k[1]: v for k, v in d[1] if k[0] == "const"}
            rkeys = {k for k in items if k.startswith("reward_") or k in gkeys}
            if not rkeys:
                continue
            conds = dict(ip.conds)
            match = [rp for rp in rps if all(conds.get(t, v) == v for t, v in rp.conds)]
            for rp in match[:1]:
                total = None
                for k in sorted(rkeys):
                    total = items[k] if total is None else ("bin", "Add", total, items[k])
                resid = freeze(nz.poly(("bin", "Sub", rp.ret, total)))
                gres = gym_residual(gcls)
                okr = isinstance(resid, tuple) and resid[0] == "k" and (gres is None or resid == gres)
                s.ob("C17.13", f"{cls}.transition_info", okr,
                     "reward() − Σ reward_* terms of transition_info() is the same constant as in the reference (0 for most environments)", loc, key="reward-vs-info",
                     detail=f"lerax residual {show_term(resid, 300)}; reference residual {show_term(gres) if gres is not None else 'n/a'}",
                     necessary_for="the same reward components as Gymnasium v5's reward_info")
            if gkeys:
                s.ob("C17.13", f"{cls}.transition_info", rkeys == gkeys, "the reward_* keys equal the reference's reward_info keys", loc, key="info-keys",
                     detail=f"lerax {sorted(rkeys)} vs Gymnasium {sorted(gkeys)}", necessary_for="the same reward components as Gymnasium v5")
            break


def check(s):
    s.notes.append(f"Gymnasium reference version {gymref.version()}")
    check_classic(s)
    check_mujoco_defaults(s)
    check_typestate(s)
    check_info_siblings(s)
    check_stage_b(s)
    check_assets(s)
    # C17.6 vector fields of the four classic-control environments (cheap: part of every run, not only of the thorough tier)
    check_vector_fields(s)
    check_integration(s)
    check_model_constants(s)
    # C17.15 configuration wiring: a weight / range / flag given to the constructor is the one the like-named attribute holds
    from .util import ctor_wiring
    n15 = 0
    for cls in list(MUJOCO) + ["CartPole", "MountainCar", "ContinuousMountainCar", "Acrobot", "Pendulum"]:
        n15 += ctor_wiring(s, "C17.15", cls, necessary_for="the reward weights, limits and flags of the reference MDP are the ones configured (defaults equal Gymnasium's: C17.7)")
    # C17.16 the Gym-style step through which the reference MDP is observed (env.step, used by the Gymnasium / gymnax adapters) reports the
    # reward, flags and info of the transition taken and resets lazily: the same composition rules as C01, carried here because a
    # reward computed against the auto-reset state pays the wrong terminal-step reward in every environment
    from .C01 import check_step
    check_step(s, lambda i: "C17.16")
    for r_, n_ in (("C17.14", 22), ("C17.15", 100), ("C17.1", 30), ("C17.2", 4), ("C17.3", 4), ("C17.4", 9), ("C17.5", 8), ("C17.7", 88), ("C17.8", 18), ("C17.9", 11), ("C17.10", 100), ("C17.11", 30),
                   ("C17.12", 5), ("C17.13", 20)):
        s.floor(r_, n_)


# ----------------------------------------------------------------------------- stage B: term-wise cross-source comparison
EMPTY = ("const", "<empty>")
ONE_D_FIELDS = {"qpos", "qvel", "ctrl", "qfrc_actuator", "qfrc_constraint", "qacc", "act"}


def common(n, data=("param", "$data")):
    """Reference-side vocabulary -> common vocabulary (value-preserving rewrites, listed in DESIGN.md C17)."""
    n = gymref.to_common(n, data)
    self_ = ("param", "self")

    def f(x):
        if not x:
            return x
        k = x[0]
        if k == "attr" and x[2] == "flat":
            return x[1]
        # reshape(-1) / flatten() / ravel() of a per-dof (1-D) field is the identity
        if k == "call" and isinstance(x[1], tuple) and x[1][0] == "attr" and x[1][2] in ("reshape", "flatten", "ravel") and x[2] in ((), (("const", -1),)) and not x[3] \
                and isinstance(x[1][1], tuple) and x[1][1][0] == "attr" and x[1][1][2] in ONE_D_FIELDS:
            return x[1][1]
        # after the step the controls stored in the data are the action that was applied (transition writes ctrl=action)
        if k == "attr" and x[2] == "ctrl" and x[1] == data:
            return ("param", "action")
        if k == "call" and isinstance(x[1], tuple) and x[1][0] == "attr" and x[1][2] == "copy" and not x[2] and not x[3]:
            return x[1][1]
        # state_vector()[i] / [k:]  (assumption: the index lies within qpos)
        if k in ("item", "sub") and isinstance(x[1], tuple) and x[1][0] == "call" and x[1][1] in (("global", "numpy.concatenate"), ("global", "jax.numpy.concatenate")) and x[1][2] \
                and isinstance(x[1][2][0], tuple) and x[1][2][0][0] in ("list", "tuple") and len(x[1][2][0][1]) == 2:
            a, b_ = x[1][2][0][1]
            if k == "item" and isinstance(x[2], int):
                return ("item", a, x[2])
            if k == "sub" and isinstance(x[2], tuple) and x[2][0] == "slice" and x[2][2] == NONE and x[2][3] == NONE and x[2][1][0] == "const":
                return ("call", x[1][1], (("list", (("sub", a, x[2]), b_)),), x[1][3])
        # X[a:b][i] -> X[a+i]
        if k == "item" and isinstance(x[1], tuple) and x[1][0] == "sub" and isinstance(x[1][2], tuple) and x[1][2][0] == "slice" and x[1][2][1][0] == "const" \
                and isinstance(x[1][2][1][1], int) and isinstance(x[2], int) and x[1][2][3] == NONE:
            return ("item", x[1][1], x[1][2][1][1] + x[2])
        # empty parts
        if k == "call" and x[1] in (("global", "numpy.array"), ("global", "jax.numpy.array")) and x[2] == (("list", ()),):
            return EMPTY
        if k == "call" and x[1] in (("global", "jax.numpy.zeros"), ("global", "numpy.zeros")) and x[2] and x[2][0] == ("tuple", (("const", 0),)):
            return EMPTY
        # Python all((a, b, c)) -> a and b and c
        if k == "call" and x[1] == ("global", "all") and len(x[2]) == 1 and isinstance(x[2][0], tuple) and x[2][0][0] in ("tuple", "list"):
            return ("boolop", "And", x[2][0][1])
        # body positions
        if k == "call" and x[1] == ("attr", self_, "get_body_com") and len(x[2]) == 1 and x[2][0][0] == "const":
            return ("bodypos", "xpos", x[2][0][1], data)
        if k in ("sub", "item") and isinstance(x[1], tuple) and x[1][0] == "attr" and x[1][2] in ("xpos", "xipos") and isinstance(x[2], tuple) and x[2][0] == "attr" \
                and x[2][1] == self_ and x[2][2].endswith("_body_id"):
            return ("bodypos", x[1][2], x[2][2][: -len("_body_id")], x[1][1])
        # data.body(id).xpos -> data.xpos[id]
        if k == "attr" and x[2] in ("xpos", "xipos") and isinstance(x[1], tuple) and x[1][0] == "call" and isinstance(x[1][1], tuple) and x[1][1][0] == "attr" and x[1][1][2] == "body" \
                and len(x[1][2]) == 1:
            return ("sub", ("attr", x[1][1][1], x[2]), x[1][2][0])
        if k == "attr" and x[1] == self_ and x[2] == "main_body":
            return ("attr", self_, "main_body_id")
        if k == "call" and x[1] == ("global", "int") and len(x[2]) == 1:
            return x[2][0]
        return x

    return mapnodes(n, f)


def gym_inline(kind, name, c):
    return kind in ("method", "property", "function") and not name.endswith(("__init__", ".render", ".step", ".dt", ".get_body_com", ".do_simulation", ".set_state"))


def gym_builder(merge_ifs=False):
    from ..vgraph import Builder
    return Builder(gymref.load(), inline=gym_inline, merge_ifs=merge_ifs, max_depth=4)


def flag_name(t):
    """Name of the configuration flag a static test reads: self.x / self._x / `self._x is True`."""
    if isinstance(t, tuple) and t[0] == "cmp" and t[1] in ("Is", "Eq") and t[3] == TRUE:
        t = t[2]
    if isinstance(t, tuple) and t[0] == "attr" and t[1] == ("param", "self"):
        return t[2].lstrip("_")
    return None


def lerax_env_builder(s):
    return s.builder(inline=lambda kind, name, c: kind in ("method", "property") and not name.endswith(("__init__", ".transition", ".initial")), max_depth=3)


def check_reward_terms(s):
    """C17.11: every reward term reported by the reference equals lerax's term of the same key (velocity symbol abstracted), and the
    velocity is (position functional after − before)/dt with the reference's position functional."""
    P = s.prog
    self_ = ("param", "self")
    D0, D1 = ("param", "$data0"), ("param", "$data")
    ms = P.cls("MujocoEnvState").qualname
    st0 = ("record", ms, (("sim_state", D0), ("t", ("param", "$t0"))))
    st1 = ("record", ms, (("sim_state", D1), ("t", ("param", "$t1"))))
    for cls, gcls in MUJOCO.items():
        try:
            gci, gdc, gfn = gymref.method(gcls, "_get_rew")
        except AnalysisError:
            continue
        gb = gym_builder()
        gpaths = [p for p in gb.paths(gfn, Ctx(gdc.module, gdc, gfn, gci), max_paths=64) if p.raised is None]
        if len(gpaths) != 1:
            raise AnalysisError(f"reference {gcls}._get_rew: expected a single path, found {len(gpaths)}")
        ginfo = gpaths[0].ret[1][1]
        gterms = {k[1]: v for k, v in ginfo[1] if k[0] == "const"}
        gparams = [a.arg for a in gfn.args.args][1:]
        ci = P.cls(cls)
        lb = lerax_env_builder(s)
        nz = Normalizer(lb)
        r = P.resolve_method(ci, "transition_info")
        loc = P.loc(r[0].module, r[1])
        lps = live(lb.paths(r[1], Ctx(r[0].module, r[0], r[1], ci), {"state": st0, "next_state": st1}, max_paths=64))
        if len(lps) > 1:
            # a configuration flag splits the method statically: the paths are merged back into one value (the selection pushed into
            # the terms that differ), so a term that depends on the flag where the reference's does not shows as such
            lps = [one(lps, f"{cls}.transition_info")]
        if len(lps) != 1 or lps[0].ret[0] != "dict":
            raise AnalysisError(f"{cls}.transition_info: expected one path returning a dict literal")
        lterms = {k[1]: v for k, v in lps[0].ret[1] if k[0] == "const"}
        # bind the reference's parameters
        gsub = {}
        lsub = {}
        if "x_velocity" in gparams:
            if "x_velocity" not in lterms:
                s.ob("C17.11", f"{cls}.transition_info", False, "transition_info reports x_velocity", loc, key="no-x-velocity")
                continue
            lsub[lterms["x_velocity"]] = ("param", "x_velocity")
        if "pos_after" in gparams:
            gsub[("param", "pos_after")] = ("item", ("attr", D1, "qpos"), 2)
        if gcls == "InvertedDoublePendulumEnv":
            site = ("item", ("attr", D1, "site_xpos"), 0)
            gsub[("param", "x")] = ("item", site, 0)
            gsub[("param", "y")] = ("item", site, 2)
            gsub[("param", "terminated")] = ("cmp", "LtE", ("item", site, 2), ("const", 1))
        nzb = Normalizer(lb, total_order=(gcls == "InvertedDoublePendulumEnv"))
        keys_g = {k for k in gterms if k.startswith("reward_") or k.endswith("_penalty")}
        keys_l = {k for k in lterms if k.startswith("reward_") or k.endswith("_penalty") or k in ("alive_bonus",)}
        s.ob("C17.13", f"{cls}.transition_info[keys]", keys_g <= set(lterms), "every reward component key of the reference's reward_info is reported", loc, key="info-keys",
             detail=f"missing {sorted(keys_g - set(lterms))}; lerax has {sorted(keys_l)}", necessary_for="the same reward components as Gymnasium v5")
        gass = gymref.init_assigns(gcls)
        gdef = gymref.init_defaults(gcls)
        _, ldef = lerax_defaults(P, cls)
        nzc = Normalizer(None)
        for k in sorted(keys_g & set(lterms)):
            g = replace_nodes(common(gterms[k], D1), gsub)
            g = common(g, D1)
            l_ = common(replace_nodes(lterms[k], lsub), D1)
            # a weight the reference accepts and stores but never applies (documented as a factor with default 1) is neutral at its default
            gattrs = {x[2] for x in walk(g) if isinstance(x, tuple) and x and x[0] == "attr" and x[1] == self_}
            for x in list(walk(l_)):
                if isinstance(x, tuple) and x and x[0] == "attr" and x[1] == self_ and x[2] not in gattrs and x[2].endswith("_weight") and ("_" + x[2]) in gass \
                        and x[2] in gdef and x[2] in ldef:
                    one_ = ("k", 1)
                    if nzc.canon(lb.ev(ldef[x[2]], {}, Ctx(ci.module, None, None))) == one_ and nzc.canon(gymref.builder(False).ev(gdef[x[2]], {}, Ctx(gdc.module, None, None))) == one_:
                        l_ = replace_nodes(l_, {x: ("const", 1)})
                        s.notes.append(f"C17.11 {cls}.{k}: `{x[2]}` is accepted and stored by the reference but never applied; compared at its default 1")
            s.eq("C17.11", f"{cls}.{k}", nzb, field_neutral(l_), field_neutral(g), f"reward component `{k}` == the reference's (same weights, clipping order, time step and operands)", loc,
                 key=f"term-{k}", necessary_for="the same reward and reward components as Gymnasium v5")
        # velocity definition
        if "x_velocity" in gparams:
            _, _, gstep = gymref.method(gcls, "step")
            pos_stmt = [st for st in gstep.body if isinstance(st, ast.Assign) and isinstance(st.targets[0], ast.Name) and st.targets[0].id.endswith("position_before")]
            if len(pos_stmt) != 1:
                raise AnalysisError(f"reference {gcls}.step: `*_position_before =` vanished")
            gbs = gym_builder()
            A_g = common(gbs.ev(pos_stmt[0].value, {"self": self_}, Ctx(gdc.module, gdc, gstep, gci)), D1)
            vel_stmt = [st for st in gstep.body if isinstance(st, ast.Assign) and isinstance(st.targets[0], ast.Name) and st.targets[0].id.endswith("velocity") and isinstance(st.value, ast.BinOp)]
            two_d = pos_stmt[0].targets[0].id.startswith("xy")
            A0 = replace_nodes(A_g, {D1: D0})
            want = ("bin", "Div", ("bin", "Sub", A_g, A0), ("attr", self_, "dt"))
            want = ("item", want, 0) if two_d else want
            want = common(distribute_item(want), D1)
            got = common(distribute_item(common(lterms["x_velocity"], D1)), D1)
            s.eq("C17.11", f"{cls}.x_velocity", nz, field_neutral(got), field_neutral(want), "x_velocity == (position functional after − before) / dt with the reference's position functional", loc,
                 key="velocity-definition", necessary_for="the same forward reward as Gymnasium v5")


def distribute_item(n):
    """((A − B) / s)[i]  ->  (A[i] − B[i]) / s   (element-wise arithmetic commutes with indexing; s is a scalar)."""
    def scalar(t):
        return isinstance(t, tuple) and (t[0] == "const" or (t[0] == "attr" and t[1] == ("param", "self")))

    def f(x):
        if x and x[0] == "item" and isinstance(x[1], tuple):
            b_ = x[1]
            if b_[0] == "bin" and b_[1] in ("Sub", "Add"):
                return ("bin", b_[1], f(("item", b_[2], x[2])), f(("item", b_[3], x[2])))
            if b_[0] == "un" and b_[1] == "USub":
                return ("un", "USub", f(("item", b_[2], x[2])))
            if b_[0] == "bin" and b_[1] in ("Div", "Mult") and scalar(b_[3]):
                return ("bin", b_[1], f(("item", b_[2], x[2])), b_[3])
            if b_[0] == "bin" and b_[1] == "Mult" and scalar(b_[2]):
                return ("bin", b_[1], b_[2], f(("item", b_[3], x[2])))
        return x

    return mapnodes(n, f)


def field_neutral(n):
    """Body-position reads are compared by body name here; which field (xpos / xipos) is decided by C17.12 with the asset."""
    return mapnodes(n, lambda x: ("bodypos", "*", x[2], x[3] if len(x) > 3 else None) if x and x[0] == "bodypos" else x)


def check_observation_composition(s):
    """C17.10: concatenated observation parts per flag combination."""
    P = s.prog
    self_ = ("param", "self")
    D1 = ("param", "$data")
    ms = P.cls("MujocoEnvState").qualname
    st1 = ("record", ms, (("sim_state", D1), ("t", ("param", "$t1"))))
    for cls, gcls in MUJOCO.items():
        gci, gdc, gfn = gymref.method(gcls, "_get_obs")
        gb = gym_builder()
        gpaths = [p for p in gb.paths(gfn, Ctx(gdc.module, gdc, gfn, gci), max_paths=256) if p.raised is None]
        ci = P.cls(cls)
        lb = lerax_env_builder(s)
        nz = Normalizer(lb)
        r = P.resolve_method(ci, "observation")
        loc = P.loc(r[0].module, r[1])
        lps = live(lb.paths(r[1], Ctx(r[0].module, r[0], r[1], ci), {"state": st1}, max_paths=256))

        def parts(ret):
            x = ret
            # trailing .ravel()/.flatten() of the concatenation is the identity on a 1-D result
            while isinstance(x, tuple) and x[0] == "call" and isinstance(x[1], tuple) and x[1][0] == "attr" and x[1][2] in ("ravel", "flatten") and not x[2]:
                x = x[1][1]
            if isinstance(x, tuple) and x[0] == "call" and x[1] in (("global", "numpy.concatenate"), ("global", "jax.numpy.concatenate")) and x[2] and x[2][0][0] in ("list", "tuple"):
                return [p_ for p_ in (common(e, D1) for e in x[2][0][1]) if p_ != EMPTY]
            return None

        n_cmp = 0
        for lp in lps:
            lflags = {flag_name(t): v for t, v in lp.conds if flag_name(t)}
            cand = [gp for gp in gpaths if all(lflags.get(flag_name(t), None) == v for t, v in gp.conds if flag_name(t))
                    and {flag_name(t) for t, v in gp.conds if flag_name(t)} == set(lflags)]
            tag = "[" + ",".join(f"{k}={v}" for k, v in sorted(lflags.items())) + "]"
            if len(cand) != 1:
                s.ob("C17.10", f"{cls}.observation{tag}", False, "the reference's _get_obs branches on the same set of flags", loc, key="obs-flags",
                     detail=f"lerax flags {sorted(lflags)}; reference paths {[sorted(filter(None, (flag_name(t) for t, v in gp.conds))) for gp in gpaths][:3]}")
                continue
            lp_parts, gp_parts = parts(lp.ret), parts(cand[0].ret)
            if lp_parts is None or gp_parts is None:
                raise AnalysisError(f"{cls}: observation is not a concatenation on one side")
            n_cmp += 1
            ok = len(lp_parts) == len(gp_parts)
            s.ob("C17.10", f"{cls}.observation{tag}", ok, "the observation has the reference's number of parts", loc, key="obs-part-count", detail=f"{len(lp_parts)} vs {len(gp_parts)}")
            if not ok:
                continue
            for i, (a, b_) in enumerate(zip(lp_parts, gp_parts)):
                s.eq("C17.10", f"{cls}.observation{tag}[{i}]", nz, field_neutral(a), field_neutral(b_), f"observation part {i} == the reference's (field, slice, clip bounds)", loc, key=f"obs-part-{i}",
                     necessary_for="the same observation as Gymnasium v5 from the same physical state")
        if n_cmp == 0:
            raise AnalysisError(f"{cls}.observation: nothing compared")


def asset_offsets(P, cls):
    """Per body of the environment's MJCF asset: True if xipos (centre of mass) coincides with xpos (frame origin) by construction."""
    import os
    import xml.etree.ElementTree as ET
    lmod, ldef = lerax_defaults(P, cls)
    xml = ldef.get("xml_file")
    if not isinstance(xml, ast.Constant):
        return None
    path = os.path.join(os.path.dirname(lmod.path), "assets", xml.value)
    if not os.path.exists(path):
        return None
    root = ET.parse(path).getroot()
    out = {}

    def zero(v):
        return v is None or all(abs(float(t)) < 1e-12 for t in v.split())

    for body in root.iter("body"):
        name = body.get("name")
        if not name:
            continue
        inert = body.find("inertial")
        geoms = body.findall("geom")
        if inert is not None:
            out[name] = zero(inert.get("pos"))
            continue
        ok = True
        for g in geoms:
            if g.get("fromto") is not None:
                ft = [float(t) for t in g.get("fromto").split()]
                mid = [(ft[i] + ft[i + 3]) / 2 for i in range(3)]
                ok = ok and all(abs(m) < 1e-12 for m in mid)
            else:
                ok = ok and zero(g.get("pos"))
        out[name] = ok and bool(geoms)
    return out


def check_body_fields(s):
    """C17.12: where the reference reads get_body_com (xpos), a lerax read of xipos is accepted only if the asset shows they coincide."""
    P = s.prog
    D1 = ("param", "$data")
    D0 = ("param", "$data0")
    ms = P.cls("MujocoEnvState").qualname
    st0 = ("record", ms, (("sim_state", D0), ("t", ("param", "$t0"))))
    st1 = ("record", ms, (("sim_state", D1), ("t", ("param", "$t1"))))
    for cls, gcls in MUJOCO.items():
        ci = P.cls(cls)
        gbodies = set()
        for gm in ("_get_obs", "_get_rew"):
            try:
                gci, gdc, gfn = gymref.method(gcls, gm)
            except AnalysisError:
                continue
            for n in ast.walk(gfn):
                if isinstance(n, ast.Call) and isinstance(n.func, ast.Attribute) and n.func.attr == "get_body_com" and n.args and isinstance(n.args[0], ast.Constant):
                    gbodies.add(n.args[0].value)
        if not gbodies:
            continue
        offs = asset_offsets(P, cls)
        lb = lerax_env_builder(s)
        reads_ = {}
        for meth, binding in (("observation", {"state": st1}), ("reward", {"state": st0, "next_state": st1}), ("transition_info", {"state": st0, "next_state": st1})):
            r = P.resolve_method(ci, meth)
            for p in live(lb.paths(r[1], Ctx(r[0].module, r[0], r[1], ci), binding, max_paths=64)):
                for x in walk(common(p.ret, D1)):
                    if isinstance(x, tuple) and x and x[0] == "bodypos" and len(x) >= 3:
                        reads_.setdefault(x[2], set()).add(x[1])
        loc = s.loc(cls, "observation")
        for body in sorted(gbodies):
            fields_ = reads_.get(body, set())
            if not fields_:
                s.ob("C17.12", f"{cls}.{body}", False, "the body position the reference reads is read by lerax too", loc, key=f"body-missing-{body}", detail=f"lerax bodies {sorted(reads_)}")
                continue
            if fields_ == {"xpos"}:
                s.ob("C17.12", f"{cls}.{body}", True, "body position read from xpos (frame origin), as get_body_com does", loc)
                continue
            if offs is None or body not in offs:
                s.undecide("C17.12", f"{cls}.{body}", "asset not found or body not in asset: xipos vs xpos equality unknown")
                continue
            s.ob("C17.12", f"{cls}.{body}", offs[body],
                 "a centre-of-mass read (xipos) stands in for the reference's frame-origin read (get_body_com = xpos) only where the asset makes them coincide", loc,
                 key=f"xipos-vs-xpos-{body}", detail=f"lerax reads {sorted(fields_)}; asset: body `{body}` has its geoms/inertial at the frame origin: {offs[body]}",
                 necessary_for="the same observation and reward components as Gymnasium v5 (which uses get_body_com)")


def noise_common(n):
    """Sampler calls -> distribution descriptors (key / size arguments dropped)."""
    def f(x):
        if x and x[0] == "call":
            fn = x[1]
            kw = dict((k, v) for k, v in x[3] if k)
            if fn == ("global", "jax.random.uniform"):
                return ("U", kw.get("minval", ("const", 0.0)), kw.get("maxval", ("const", 1.0)))
            if fn == ("global", "jax.random.normal"):
                return ("N",)
            if isinstance(fn, tuple) and fn[0] == "attr" and fn[1] == ("attr", ("param", "self"), "np_random"):
                if fn[2] == "uniform":
                    lo = kw.get("low", x[2][0] if len(x[2]) > 0 else ("const", 0.0))
                    hi = kw.get("high", x[2][1] if len(x[2]) > 1 else ("const", 1.0))
                    return ("U", lo, hi)
                if fn[2] in ("standard_normal", "normal"):
                    return ("N",)
        return x

    return mapnodes(n, f)


def check_reset_noise(s):
    """C17.8: law of qpos / qvel at reset (environments without a rejection loop in the reference)."""
    P = s.prog
    self_ = ("param", "self")
    for cls, gcls in MUJOCO.items():
        gci, gdc, gfn = gymref.method(gcls, "reset_model")
        if any(isinstance(n, ast.While) for n in ast.walk(gfn)):
            s.undecide("C17.8", cls, "the reference samples the goal/object position in a rejection loop: reset law compared by reading only")
            continue
        gb = gymref.builder(inline_all=False)
        gps = [p for p in gb.paths(gfn, Ctx(gdc.module, gdc, gfn, gci), max_paths=16) if p.raised is None]
        sets = []
        for p in gps:
            for kind, node, ln in p.effects:
                for x in walk(node):
                    if isinstance(x, tuple) and x and x[0] == "call" and x[1] == ("attr", self_, "set_state") and len(x[2]) == 2:
                        sets.append(x)
        sets = list(dict.fromkeys(sets))
        if len(sets) != 1:
            raise AnalysisError(f"reference {gcls}.reset_model: expected one set_state(qpos, qvel) call, found {len(sets)}")
        gq, gv = (noise_common(gymref.to_common(a)) for a in sets[0][2])
        lb = s.builder(inline=set())
        nz = Normalizer(lb)
        pl = one(s.paths(lb, cls, "initial"), f"{cls}.initial")
        reps = [x for x in walk(pl.ret) if isinstance(x, tuple) and x and x[0] == "call" and isinstance(x[1], tuple) and x[1][0] == "attr" and x[1][2] == "replace" and {"qpos", "qvel"} <= set(kwargs_of(x))]
        if len(reps) != 1:
            raise AnalysisError(f"{cls}.initial: expected one data.replace(qpos=, qvel=)")
        kw = kwargs_of(reps[0])
        loc = s.loc(cls, "initial")
        for nm, g, l_ in (("qpos", gq, kw["qpos"]), ("qvel", gv, kw["qvel"])):
            s.eq("C17.8", f"{cls}.initial[{nm}]", nz, noise_common(l_), g, f"reset law of {nm} == the reference's (distribution kind, bounds / scale)", loc, key=f"reset-noise-{nm}",
                 necessary_for="reset-distribution states are those of Gymnasium v5")


def check_ctrl_alias(s):
    """Premise of the `data.ctrl == action` alias: the shared transition writes ctrl=action before stepping."""
    b = s.builder(inline=set())
    p = one(s.paths(b, "AbstractMujocoEnv", "transition"), "AbstractMujocoEnv.transition")
    scans = [x for x in walk(p.ret) if isinstance(x, tuple) and x and x[0] == "scan"]
    ok = len(scans) == 1 and scans[0][2] == ("call", ("attr", ("attr", ("param", "state"), "sim_state"), "replace"), (), (("ctrl", ("param", "action")),))
    s.ob("C17.11", "AbstractMujocoEnv.transition", ok, "the transition writes ctrl=action into the data it steps (premise of comparing data.ctrl with action)", s.loc("AbstractMujocoEnv", "transition"),
         key="ctrl-is-action", detail=show(scans[0][2], maxlen=160) if scans else "no scan")
    if ok and isinstance(scans[0][1], Closure):
        out = b.apply(scans[0][1], (("param", "$d"), NONE), ())
        oks = isinstance(out, tuple) and out[0] == "tuple" and out[1][0] == ("call", ("global", "mujoco.mjx.step"), (("attr", ("param", "self"), "model"), ("param", "$d")), ())
        s.ob("C17.11", "AbstractMujocoEnv.transition", oks and scans[0][4] == ("attr", ("param", "self"), "frame_skip"), "the physics is stepped frame_skip times with mjx.step(self.model, ·)",
             s.loc("AbstractMujocoEnv", "transition"), key="frame-skip", detail=show(out, maxlen=160))


def check_stage_b(s):
    check_ctrl_alias(s)
    check_reset_noise(s)
    check_observation_composition(s)
    check_reward_terms(s)
    check_body_fields(s)


# ----------------------------------------------------------------------------- thorough: C17.6 vector fields
def _run_block(gb, stmts, env, gdc, gfn, gci):
    gb.decisions, gb.trace, gb.effects, gb.asserts = {}, [], [], []
    gb.depth = 0
    gb.run(stmts, env, Ctx(gdc.module, gdc, gfn, gci))
    return env


def check_thorough(s):
    """(the vector-field rules moved into the quick tier; nothing extra here)"""
    return None


def check_model_constants(s):
    """C17.18: what every MuJoCo environment derives from the model once, in its constructor, the way Gymnasium's MujocoEnv does:
    dt = model.opt.timestep * frame_skip (the rewards divide displacements by it), init_qpos / init_qvel = the default MjData's qpos /
    qvel (the reset law of C17.8 is `init_q* + noise`), the MJX model = put_model of that same model."""
    self_ = ("param", "self")
    for cls in MUJOCO:
        b = s.builder(inline=set())
        nz = Normalizer(b)
        loc = s.loc(cls, "__init__")
        seen = set()
        for p in live(s.paths(b, cls, "__init__")):
            a = p.self_attrs
            mm = a.get("mujoco_model")
            key_ = (a.get("dt"), a.get("init_qpos"), a.get("init_qvel"), a.get("model"))
            if key_ in seen or mm is None:
                continue
            seen.add(key_)
            bind = {"M": mm, "self_frame_skip": a.get("frame_skip", NONE), "mujoco": ("global", "mujoco")}
            s.eq("C17.18", f"{cls}.__init__.dt", nz, a.get("dt", NONE), s.ref(b, "jnp.array(M.opt.timestep * self_frame_skip)", bind), "dt == model timestep * frame_skip", loc, key="dt",
                 necessary_for="velocity rewards (displacement / dt) equal the reference's")
            for q in ("qpos", "qvel"):
                v = a.get("init_" + q, NONE)
                reads = {x[2] for x in walk(v) if isinstance(x, tuple) and x and x[0] == "attr" and x[2] in ("qpos", "qvel")}
                data_of_model = any(isinstance(x, tuple) and x and x[0] == "call" and x[1] == ("global", "mujoco.MjData") and x[2] == (mm,) for x in walk(v))
                s.ob("C17.18", f"{cls}.__init__.init_{q}", reads == {q} and data_of_model, f"init_{q} is the default MjData(model).{q}", loc, key=f"init-{q}", detail=show(v, maxlen=160),
                     necessary_for="the reset law is the reference's: the model's default configuration plus noise")
            s.eq("C17.18", f"{cls}.__init__.model", nz, a.get("model", NONE), s.ref(b, "mujoco.mjx.put_model(M)", bind), "the MJX model is put_model of the parsed model", loc, key="mjx-model")
    s.floor("C17.18", 44)


def check_integration(s, rule="C17.17"):
    """C17.17: one environment step of a classic-control environment integrates the vector field `dynamics` (C17.6) from the state's own
    time t over exactly one control interval dt, starting at the state's own y, under the action taken, with the configured solver and
    step size, reads the solution at t + dt, applies the state limits (C17.4) to it, and advances the clock by dt."""
    self_ = ("param", "self")
    b = s.builder(inline=set())
    nz = Normalizer(b)
    con = "AbstractClassicControlEnv.transition"
    loc = s.loc("AbstractClassicControlEnv", "transition")
    bind = {"self": self_, "state": ("param", "state"), "action": ("param", "action"), "diffrax": ("global", "diffrax")}
    REF = ("self.clip(diffrax.diffeqsolve(diffrax.ODETerm(lambda t, y, args: self.dynamics(t, y, action)), solver=self.solver, t0=state.t, t1=state.t + self.dt, "
           "dt0=self.dt0, y0=state.y, {ARGS}saveat=diffrax.SaveAt(t1=True), stepsize_controller=self.stepsize_controller).ys[0])")
    wants = [nz.canon(s.ref(b, REF.replace("{ARGS}", a_), bind)) for a_ in ("args=action, ", "")]
    want_t = s.ref(b, "state.t + self.dt", bind)
    n = 0
    for p in live(s.paths(b, "AbstractClassicControlEnv", "transition")):
        n += 1
        r = p.ret
        ok = isinstance(r, tuple) and r and r[0] == "update" and r[1] == ("param", "state")
        f = {k_[0]: v for k_, v in r[2] if len(k_) == 1} if ok else {}
        s.ob(rule, con, ok and set(f) == {"t", "y"}, "the step returns the incoming state with y and t replaced (nothing else touched)", loc, key="step-updates-y-and-t",
             detail=show(r, maxlen=200), necessary_for="the same continuous-time dynamics and state limits as the reference")
        if not (ok and set(f) == {"t", "y"}):
            continue
        got = nz.canon(f["y"])
        s.ob(rule, con, got in wants,
             "y' = clip(solution at t+dt of dy/dt = dynamics(t, y, action) from (state.t, state.y) with the configured solver, dt0 and step-size controller)", loc,
             key="integration-step", detail=f"code:      {show_term(got, 700)}\nreference: {show_term(wants[0], 700)}",
             necessary_for="each step advances the reference's vector field by exactly one control interval from the current state under the action taken")
        s.eq(rule, con, nz, f["t"], want_t, "t' = t + dt", loc, key="clock-advance")
    if n == 0:
        raise AnalysisError(f"{con}: no path")
    s.floor(rule, 3)


def check_vector_fields(s):
    """C17.6: the continuous-time vector field equals the increment of the reference's explicit update."""
    P = s.prog
    self_ = ("param", "self")
    # ---- CartPole (per discrete action)
    gci, gdc, gfn = gymref.method("CartPoleEnv", "step")
    names = ["x", "x_dot", "theta", "theta_dot"]
    syms = [("param", f"${n}") for n in names]
    for act in (0, 1):
        gb = gymref.builder(inline_all=False)
        body = [st for st in gfn.body if not isinstance(st, ast.Assert)]
        i1 = next(i for i, st in enumerate(body) if isinstance(st, ast.If))
        env = {"self": self_, "action": ("const", act)}
        stmts = body[:i1]
        # x, x_dot, theta, theta_dot = self.state
        env["x"], env["x_dot"], env["theta"], env["theta_dot"] = syms
        stmts = [st for st in stmts if not (isinstance(st, ast.Assign) and isinstance(st.targets[0], ast.Tuple))]
        _run_block(gb, stmts, env, gdc, gfn, gci)
        g_x, g_th = (rename_attrs(gymref.to_common(env[k]), CLASSIC["CartPole"][1]) for k in ("xacc", "thetaacc"))
        lb = s.builder(inline=set())
        nz = Normalizer(lb)
        y = ("call", ("global", "jax.numpy.array"), (("list", tuple(syms)),), ())
        pl = one(s.paths(lb, "CartPole", "dynamics", binding={"y": y, "action": ("const", act)}), "CartPole.dynamics")
        comps = pl.ret[2][0][1]
        loc = s.loc("CartPole", "dynamics")
        s.ob("C17.6", f"CartPole.dynamics[action={act}]", comps[0] == syms[1] and comps[2] == syms[3], "d/dt (x, θ) = (ẋ, θ̇)", loc, key="kinematic-components", detail=show(pl.ret, maxlen=160))
        s.eq("C17.6", f"CartPole.dynamics[action={act}].x_dd", nz, comps[1], g_x, "cart acceleration == the reference's xacc", loc, key="cartpole-xacc",
             necessary_for="the same continuous-time dynamics; CartPole with the Euler solver reproduces Gymnasium trajectories")
        s.eq("C17.6", f"CartPole.dynamics[action={act}].theta_dd", nz, comps[3], g_th, "pole angular acceleration == the reference's thetaacc", loc, key="cartpole-thetaacc")
    src = {ast.unparse(st) for st in ast.walk(gfn) if isinstance(st, ast.Assign)}
    if not {"x = x + self.tau * x_dot", "x_dot = x_dot + self.tau * xacc", "theta = theta + self.tau * theta_dot", "theta_dot = theta_dot + self.tau * thetaacc"} <= src:
        raise AnalysisError("reference CartPoleEnv.step: explicit-Euler update statements changed")
    # ---- MountainCar / ContinuousMountainCar
    for cls, gcls in (("MountainCar", "MountainCarEnv"), ("ContinuousMountainCar", "Continuous_MountainCarEnv")):
        gci, gdc, gfn = gymref.method(gcls, "step")
        aug = next(st for st in gfn.body if isinstance(st, ast.AugAssign) and isinstance(st.target, ast.Name) and st.target.id == "velocity")
        i0 = gfn.body.index(aug)
        gb = gymref.builder(inline_all=False, merge_ifs=True)
        Pn, Vn, A = ("param", "$x"), ("param", "$v"), ("param", "$a")
        env = {"self": self_, "position": Pn, "velocity": Vn, "action": A if cls == "MountainCar" else ("tuple", (A,))}
        pre = [st for st in gfn.body[:i0] if isinstance(st, ast.Assign) and isinstance(st.targets[0], ast.Name) and st.targets[0].id == "force"]
        _run_block(gb, pre, env, gdc, gfn, gci)
        inc = reindex(gb, gymref.to_common(gb.ev(aug.value, env, Ctx(gdc.module, gdc, gfn, gci))))
        lb = s.builder(inline=set())
        nz = Normalizer(lb, minmax=True, total_order=True)
        y = ("call", ("global", "jax.numpy.array"), (("list", (Pn, Vn)),), ())
        pl = one(s.paths(lb, cls, "dynamics", binding={"y": y, "action": A}), f"{cls}.dynamics")
        comps = pl.ret[2][0][1]
        loc = s.loc(cls, "dynamics")
        s.ob("C17.6", f"{cls}.dynamics", comps[0] == Vn, "d/dt position = velocity", loc, key="kinematic-components", detail=show(pl.ret, maxlen=160))
        s.eq("C17.6", f"{cls}.dynamics.x_dd", nz, comps[1], inc, "acceleration == the per-step velocity increment of the reference (dt = 1)", loc, key="mountaincar-acceleration",
             necessary_for="the same continuous-time dynamics as the Gymnasium namesake")
    # ---- Acrobot
    gci, gdc, gfn = gymref.method("AcrobotEnv", "_dsdt")
    gb = gymref.builder(inline_all=False)
    T1, T2, D1, D2, TQ = (("param", f"${n}") for n in ("t1", "t2", "d1", "d2", "tq"))
    gpaths = [p for p in gb.paths(gfn, Ctx(gdc.module, gdc, gfn, gci), {"s_augmented": ("tuple", (T1, T2, D1, D2, TQ))}) if p.raised is None]
    book = [p for p in gpaths if not any(v for t, v in p.conds)]
    if len(book) != 1:
        raise AnalysisError("reference AcrobotEnv._dsdt: the `book` branch is no longer the default path")
    gret = book[0].ret

    def fix_neg_index(n):
        # s_augmented[-1] / s_augmented[:-1] on the 5-tuple
        def f(x):
            if x and x[0] == "sub" and x[1] == ("tuple", (T1, T2, D1, D2, TQ)):
                if x[2] == ("const", -1):
                    return TQ
                if x[2][0] == "slice":
                    return ("tuple", (T1, T2, D1, D2))
            return x
        return reindex(gb, mapnodes(n, f))

    gret = rename_attrs(fix_neg_index(gret), CLASSIC["Acrobot"][1])
    lb = s.builder(inline=set())
    nz = Normalizer(lb)
    y = ("call", ("global", "jax.numpy.array"), (("list", (T1, T2, D1, D2)),), ())
    pl = one(s.paths(lb, "Acrobot", "dynamics", binding={"y": y}), "Acrobot.dynamics")
    # the reference's link constants are class-level literals: compare at the constructor defaults (equal by C17.1)
    lmod, ldef = lerax_defaults(P, "Acrobot")
    subst = {("sub", ("attr", self_, "torques"), ("param", "action")): TQ}
    for nm, dexpr in ldef.items():
        if nm.startswith(("link_", "gravity")):
            subst[("attr", self_, nm)] = lb.ev(dexpr, {}, Ctx(lmod, None, None))
    lret = replace_nodes(pl.ret, subst)
    comps = lret[2][0][1]
    loc = s.loc("Acrobot", "dynamics")
    if not (isinstance(gret, tuple) and gret[0] == "tuple" and len(gret[1]) == 5):
        raise AnalysisError("reference AcrobotEnv._dsdt: unexpected return shape")
    for i, nm in enumerate(("dtheta1", "dtheta2", "ddtheta1", "ddtheta2")):
        s.eq("C17.6", f"Acrobot.dynamics.{nm}", nz, comps[i], gret[1][i], f"{nm} == the reference's _dsdt component (book equations, gravity at its checked default)", loc, key=f"acrobot-{nm}",
             necessary_for="the same continuous-time dynamics as the Gymnasium namesake")
    s.floor("C17.6", 14)
