"""The idiom-lowering rules: the analyser treats lerax.utils.filter_cond / filter_scan as lax.cond / lax.scan (DESIGN.md section 2.2).
That is only right while the two helpers really are thin wrappers, so every property whose analysed code goes through them carries
these obligations too (core.run_property adds them under rule "<property>.L" whenever a builder lowered one of the helpers)."""
from __future__ import annotations

from ..norm import Normalizer
from ..vgraph import Closure, show, walk
from .util import live, one


def check_lowering(s, rule):
    P = s.prog
    # ---- C04.10 filter_cond
    b4 = s.builder(inline=set())
    nz4 = Normalizer(b4)
    con10 = "lerax.utils.filter_cond"
    m, fn = s.function("lerax.utils", "filter_cond")
    loc10 = P.loc(m, fn)
    lives = live(s.fpaths(b4, "lerax.utils", "filter_cond"))
    s.ob(rule, con10, len(lives) == 1, "one non-raising path (static parts equal)", loc10, key="paths", detail=str(len(lives)))
    if len(lives) == 1:
        ref = s.refprog(b4, """
tr = true_fun(*args, **kwargs)
fr = false_fun(*args, **kwargs)
part = eqx.partition((tr, fr), eqx.is_array)
out = eqx.combine(lax.cond(pred, lambda: part[0][0], lambda: part[0][1]), part[1][0])
""", {"true_fun": ("param", "true_fun"), "false_fun": ("param", "false_fun"), "pred": ("param", "pred"),
      "args": ("param", "*args"), "kwargs": ("param", "**kwargs")})
        s.eq(rule, con10, nz4, lives[0].ret, ref["out"],
             "filter_cond == combine(cond(pred, arrays_of(true_fun()), arrays_of(false_fun())), static_of(true_fun()))", loc10,
             key="filter-cond-lowering", necessary_for="index 0 of the partitioned pair is the true branch")
        guard = [t for t, v in lives[0].conds]
        s.ob(rule, con10, any("tree_equal" in show(t) for t in guard), "static parts are compared with eqx.tree_equal before selecting", loc10,
             key="static-guard", detail="; ".join(show(t, maxlen=120) for t in guard))
    # ---- C04.10b filter_scan: a lax.scan over the array part of the carry with every option forwarded
    b5 = s.builder(inline=set())
    nz5 = Normalizer(b5)
    m5, fn5 = s.function("lerax.utils", "filter_scan")
    loc5 = P.loc(m5, fn5)
    p5 = one(s.fpaths(b5, "lerax.utils", "filter_scan"), "filter_scan")
    r5 = p5.ret
    scans5 = [x for x in walk(r5) if isinstance(x, tuple) and x and x[0] == "scan"]
    ok5 = len(scans5) == 1 and isinstance(r5, tuple) and r5[0] == "tuple" and len(r5[1]) == 2
    s.ob(rule, "lerax.utils.filter_scan", ok5, "filter_scan returns (carry, ys) of exactly one lax.scan", loc5, key="filter-scan-shape", detail=show(r5, maxlen=200))
    # the defaults are lax.scan's: every call site that leaves an option out relies on them (all collection scans leave `reverse` out)
    import ast as _ast
    a5 = fn5.args
    names5 = [x.arg for x in a5.posonlyargs + a5.args]
    dflt = dict(zip(names5[len(names5) - len(a5.defaults):], a5.defaults))
    dflt.update({k_.arg: d_ for k_, d_ in zip(a5.kwonlyargs, a5.kw_defaults) if d_ is not None})
    want_d = {"length": "None", "reverse": "False", "unroll": "1"}
    bad_d = [f"{k_}={_ast.unparse(dflt[k_])}" for k_, w_ in want_d.items() if k_ in dflt and _ast.unparse(dflt[k_]) != w_]
    s.ob(rule, "lerax.utils.filter_scan", not bad_d, "the defaults of length / reverse / unroll are those of lax.scan (None / False / 1)", loc5, key="filter-scan-defaults",
         detail="; ".join(bad_d), necessary_for="collection scans run num_steps steps in order; reverse scans stay reverse")
    if ok5:
        sc5 = scans5[0]
        part = ("call", ("global", "equinox.partition"), (("param", "init"), ("global", "equinox.is_array")), ())
        s.ob(rule, "lerax.utils.filter_scan", sc5[2] == ("item", part, 0) and sc5[3] == ("param", "xs") and sc5[4] == ("param", "length") and sc5[5] == ("param", "reverse"),
             "the scan starts from the array part of `init` and forwards xs, length and reverse unchanged", loc5, key="filter-scan-args",
             detail=f"init={show(sc5[2], maxlen=80)} xs={show(sc5[3])} length={show(sc5[4])} reverse={show(sc5[5])}",
             necessary_for="collection scans run num_steps steps in order; reverse scans stay reverse")
        want5 = ("tuple", (("call", ("global", "equinox.combine"), (("item", sc5, 0), ("item", part, 1)), ()), ("item", sc5, 1)))
        s.ob(rule, "lerax.utils.filter_scan", r5 == want5, "result == (combine(final array carry, static part of init), stacked outputs)", loc5, key="filter-scan-result", detail=show(r5, maxlen=240))
        if isinstance(sc5[1], Closure):
            out5 = b5.apply(sc5[1], (("param", "$ca"), ("param", "$x")), ())
            inner = ("call", ("param", "f"), (("call", ("global", "equinox.combine"), (("param", "$ca"), ("item", part, 1)), ()), ("param", "$x")), ())
            want_b = ("tuple", (("item", ("call", ("global", "equinox.partition"), (("item", inner, 0), ("global", "equinox.is_array")), ()), 0), ("item", inner, 1)))
            s.ob(rule, "lerax.utils.filter_scan", out5 == want_b, "scan body == f(combine(array carry, static), x) with the new carry's array part carried and y emitted", loc5,
                 key="filter-scan-body", detail=show(out5, maxlen=300))
