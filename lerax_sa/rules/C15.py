"""C15 — action distributions are coherent probability laws (wiring only)."""
from __future__ import annotations

import ast

from ..model import AnalysisError
from ..norm import Normalizer, show_term
from ..vgraph import NONE, Closure, Ctx, show, walk
from .util import fields, live, one

EXPLANATION = (
    "Only the wiring of the seven distribution classes is decided; every numeric clause (normalisation, Jacobians, sample/density "
    "agreement, entropy) lives in distreqx and is NOT decided. C15.1 each of the 7 methods of AbstractDistreqxWrapper forwards to the "
    "same-named distreqx method with the same arguments and no subclass overrides them except the declared ones (MultiCategorical "
    "implements the product law itself, transformed laws override mode); C15.2 MultiCategorical: log_prob, entropy and the log-prob of "
    "sample_and_log_prob are sum(stack(per-component, -1), -1) over the components in order with the i-th component reading "
    "value[..., i]; sample/mode/mean stack in the same order; sample and log-prob of sample_and_log_prob come from one per-component "
    "call; prob = exp(log_prob); flat parameters are split at cumsum(action_dims[:-1]) on the last axis; C15.3 squashing = "
    "Chain((ScalarAffine(scale=high-low, shift=low), Sigmoid())) with the affine outermost, Block(..., ndims=1) for the multivariate "
    "law; C15.4 mode of transformed laws falls back to bijector.forward(base.mode()); C15.6 masked laws are rebuilt through the constructor; "
    "C15.7 index width (cross-source): distreqx's Categorical narrows its draws and modes to int8 (read from its source), so no law wrapping "
    "it hands out the result of the library's sample / mode / sample_and_log_prob - the wrappers draw and take the arg-max from the "
    "component's parameters, which the thin-wrapper rule accepts exactly when that is the wrapped law itself."
)
ASSUMPTIONS = [
    "distreqx distributions and bijectors are correct probability laws (trusted; all numeric clauses of C15 live there)",
    "distreqx Chain applies its bijectors right-to-left (last element first), as documented",
]

METHODS = {"log_prob": "value", "prob": "value", "sample": "key", "entropy": None, "mean": None, "mode": None, "sample_and_log_prob": "key"}

MC_REFS = {
    "log_prob": "jnp.sum(jnp.stack(tuple(d.log_prob(value[..., i]) for i, d in enumerate(self.distribution)), axis=-1), axis=-1)",
    "entropy": "jnp.sum(jnp.stack(tuple(d.entropy() for d in self.distribution), axis=-1), axis=-1)",
    "mean": "jnp.stack(tuple(d.mean() for d in self.distribution), axis=-1)",
    "mode": "jnp.stack(tuple(d.mode() for d in self.distribution), axis=-1)",
    "sample": "jnp.stack(tuple(d.sample(k) for d, k in zip(self.distribution, jax.random.split(key, len(self.action_dims)))), axis=-1)",
    "prob": "jnp.exp(self.log_prob(value))",
}


# the law of one categorical component `d` (a distreqx Categorical), written through the component's own methods or directly from its
# parameters: a draw is categorical(key, d.logits) (the library also maps draws of an invalid parameter vector to -1), the mode is the
# arg-max of the logits / probabilities. log_prob is always the component's own.
DRAWS = ["{d}.sample({k})",
         "jnp.where(jnp.all(jnp.isfinite({d}.probs), axis=-1) & jnp.all({d}.probs >= 0, axis=-1), jax.random.categorical({k}, {d}.logits, axis=-1), -1)",
         "jax.random.categorical({k}, {d}.logits, axis=-1)"]
MODES = ["{d}.mode()", "jnp.argmax({d}.logits, axis=-1)", "jnp.argmax({d}.probs, axis=-1)"]


def own_law_spellings(meth):
    """reference programs (source, result name) for a wrapper's sample / mode / sample_and_log_prob written directly over self.distribution"""
    D = "self.distribution"
    if meth == "sample":
        return [t.format(d=D, k="key") for t in DRAWS]
    if meth == "mode":
        return [t.format(d=D) for t in MODES]
    if meth == "sample_and_log_prob":
        return [f"({x}, self.log_prob({x}))" for x in ["self.sample(key)"] + [t.format(d=D, k="key") for t in DRAWS]] + \
               [f"({x}, {D}.log_prob({x}))" for x in ["self.sample(key)"] + [t.format(d=D, k="key") for t in DRAWS]]
    return []


def library_narrow_index_methods():
    """{method name: dtype} for the methods of distreqx's Categorical that narrow the class index they return to a small integer type
    (read from the library's source: `.astype("int8")` and the like); None when the source cannot be found."""
    import ast as _ast
    import importlib.util as _iu
    import os as _os
    spec = _iu.find_spec("distreqx")
    if spec is None or not spec.submodule_search_locations:
        return None
    path = _os.path.join(list(spec.submodule_search_locations)[0], "distributions", "_categorical.py")
    if not _os.path.exists(path):
        return None
    with open(path) as f:
        tree = _ast.parse(f.read())
    out = {}
    for c in _ast.walk(tree):
        if isinstance(c, _ast.ClassDef) and c.name == "Categorical":
            for fn in c.body:
                if isinstance(fn, _ast.FunctionDef) and fn.name in ("sample", "mode", "sample_and_log_prob"):
                    for n in _ast.walk(fn):
                        if isinstance(n, _ast.Constant) and isinstance(n.value, str) and n.value in ("int8", "uint8", "int16", "uint16"):
                            out[fn.name] = n.value
                        if isinstance(n, _ast.Attribute) and n.attr in ("int8", "uint8", "int16", "uint16"):
                            out[fn.name] = n.attr
    if "sample" in out:
        out.setdefault("sample_and_log_prob", out["sample"])  # the base class draws through sample()
    return out


def check_index_width(s, rule="C15.7"):
    """A class index has to survive the trip out of the distribution: distreqx's Categorical returns its draws and its mode as int8, which
    wraps around above 127 classes (Discrete(200): the greedy action of class 150 comes back as -106 - outside the support, with
    log-probability -inf). The laws that wrap it for action spaces of ANY size must therefore not hand out the library's narrowed
    indices: their sample / mode / sample_and_log_prob are written from the component's parameters (or the library no longer narrows)."""
    import ast as _ast
    P = s.prog
    narrow = library_narrow_index_methods()
    if narrow is None:
        s.undecide(rule, "distreqx.Categorical", "library source not found: index width not decided")
        return
    s.control(f"{rule}: distreqx.Categorical narrows {narrow or 'nothing'}")
    self_ = ("param", "self")
    n = 0
    for ci in P.subclasses("AbstractDistribution"):
        f = ci.fields.get("distribution")
        if f is None or f.annotation is None or "Categorical" not in _ast.unparse(f.annotation) or "OneHot" in _ast.unparse(f.annotation):
            continue
        for meth in ("sample", "mode", "sample_and_log_prob"):
            b = s.builder(inline=set())
            reached = set()
            for p in live(s.paths(b, ci.name, meth)):
                for x in walk(p.ret):
                    if isinstance(x, tuple) and x and x[0] == "call" and isinstance(x[1], tuple) and x[1][0] == "attr" and x[1][2] in narrow and x[1][1] != self_:
                        reached.add(x[1][2])
            n += 1
            s.ob(rule, f"{ci.name}.{meth}", not reached, "the class indices handed out are not the library's narrowed ones (the law serves action spaces of any size)",
                 s.loc(ci.name, meth), key="categorical-index-width", detail="; ".join(f"distreqx Categorical.{m} returns {narrow[m]}" for m in sorted(reached)),
                 necessary_for="samples lie in the support and the mode is the most likely class also for more than 127 classes")
    if n == 0:
        raise AnalysisError(f"{rule}: no law wrapping a distreqx Categorical found")


def check_product_law(s, rule="C15.2", methods=None):
    """MultiCategorical: every method is the per-component law combined over the components in order (one key split per component)."""
    self_ = ("param", "self")
    # ---------------------------------------------------------------- C15.2
    b = s.builder(inline=set())
    nz = Normalizer(b)
    bind = {"self": self_, "value": ("param", "value"), "key": ("param", "key")}
    for meth, expr in MC_REFS.items():
        if methods is not None and meth not in methods:
            continue
        paths = live(s.paths(b, "MultiCategorical", meth))
        if len(paths) != 1:
            raise AnalysisError(f"MultiCategorical.{meth}: expected one non-raising path, found {len(paths)}")
        exprs = [expr]
        if meth == "sample":
            exprs = [expr.replace("d.sample(k)", t.format(d="d", k="k")) for t in DRAWS]
        elif meth == "mode":
            exprs = [expr.replace("d.mode()", t.format(d="d")) for t in MODES]
        got_c = nz.canon(paths[0].ret)
        hit = next((e for e in exprs if nz.canon(s.ref(b, e, bind)) == got_c), None)
        s.eq(rule, f"MultiCategorical.{meth}", nz, paths[0].ret, s.ref(b, hit or expr, bind),
             f"{meth} == {expr.replace('self.distribution', 'components')[:110]}" + (" (or the component law written from its parameters)" if len(exprs) > 1 else ""),
             s.loc("MultiCategorical", meth), key=f"product-{meth}",
             necessary_for="a product law has log-probability and entropy equal to the sums over its independent components, in component order")
    p = one(s.paths(b, "MultiCategorical", "sample_and_log_prob"), "MultiCategorical.sample_and_log_prob")
    ref = s.refprog(b, """
pairs = tuple(d.sample_and_log_prob(k) for d, k in zip(self.distribution, jax.random.split(key, len(self.action_dims))))
samples = jnp.stack(tuple(p[0] for p in pairs), axis=-1)
logps = jnp.sum(jnp.stack(tuple(p[1] for p in pairs), axis=-1), axis=-1)
out = (samples, logps)
""", bind)
    want_sl = ref["out"]
    got_sl = nz.canon(p.ret)
    if nz.canon(want_sl) != got_sl:
        # the other spelling: one draw per component (in any accepted spelling), scored by that component's own log_prob
        for t in DRAWS:
            alt = s.refprog(b, f"""
draws = tuple({t.format(d="d", k="k")} for d, k in zip(self.distribution, jax.random.split(key, len(self.action_dims))))
samples = jnp.stack(draws, axis=-1)
logps = jnp.sum(jnp.stack(tuple(d.log_prob(x) for d, x in zip(self.distribution, draws)), axis=-1), axis=-1)
out = (samples, logps)
""", bind)
            if nz.canon(alt["out"]) == got_sl:
                want_sl = alt["out"]
                break
    s.eq(rule, "MultiCategorical.sample_and_log_prob", nz, p.ret, want_sl,
         "sample_and_log_prob == (stack of the component draws, sum of the components' log-probabilities OF THOSE draws): one fused call or one draw + log_prob per component",
         s.loc("MultiCategorical", "sample_and_log_prob"),
         key="product-sample-and-log-prob", necessary_for="sample_and_log_prob returns the log-probability of the sample it returns")
    # flat split
    bs = s.builder(inline=set())
    nzs = Normalizer(bs)
    flat = [p_ for p_ in live(s.paths(bs, "MultiCategorical", "_split_or_unpack_params"))
            if any(isinstance(t, tuple) and t[0] == "call" and t[1] == ("global", "isinstance") and not v for t, v in p_.conds)]
    s.ob(rule, "MultiCategorical._split_or_unpack_params", len(flat) == 1, "one accepting path for flat parameters", s.loc("MultiCategorical", "_split_or_unpack_params"),
         key="flat-paths", detail=str(len(flat)))
    if len(flat) == 1:
        # the split points are the running sums of action_dims[:-1]; they have to be static Python/NumPy integers, because
        # jnp.split needs concrete indices and a jnp.cumsum result is a tracer under jit/vmap (the flat form is what the
        # multi-discrete policy head builds inside transformed code)
        bindf = {"params": ("param", "params"), "action_dims": ("param", "action_dims"), "np": ("global", "numpy"), "itertools": ("global", "itertools")}
        spellings = ["[sum(action_dims[: i + 1]) for i in range(len(action_dims) - 1)]", "np.cumsum(action_dims[:-1])", "np.cumsum(np.asarray(action_dims[:-1]))",
                     "tuple(itertools.accumulate(action_dims[:-1]))", "list(itertools.accumulate(action_dims[:-1]))",
                     "list(itertools.accumulate(action_dims))[:-1]", "tuple(itertools.accumulate(action_dims))[:-1]",
                     "jnp.cumsum(jnp.asarray(action_dims[:-1]))"]
        got = nzs.canon(flat[0].ret)
        wants = [nzs.canon(s.ref(bs, f"(tuple(jnp.split(jnp.asarray(params), {sp}, axis=-1)), action_dims)", bindf)) for sp in spellings]
        s.ob("C15.2", "MultiCategorical._split_or_unpack_params[flat]", got in wants,
             "flat parameters are split at the running sums of action_dims[:-1] on the last axis and action_dims is returned unchanged", s.loc("MultiCategorical", "_split_or_unpack_params"),
             key="flat-split", detail=f"code: {show_term(got, 400)}\naccepted, e.g.: {show_term(wants[0], 400)}", necessary_for="flat and sequence parameterisations describe the same product law")
        splits = [c for c in walk(flat[0].ret) if isinstance(c, tuple) and c and c[0] == "call" and c[1] == ("global", "jax.numpy.split")]
        dyn = []
        for c in splits:
            idx = c[2][1] if len(c[2]) > 1 else dict((k, v) for k, v in c[3] if k).get("indices_or_sections")
            dyn += [x[1][1] for x in walk(idx) if isinstance(x, tuple) and x and x[0] == "call" and isinstance(x[1], tuple) and x[1][0] == "global" and x[1][1].startswith("jax.")]
        s.ob("C15.2", "MultiCategorical._split_or_unpack_params[flat]", bool(splits) and not dyn, "the split points are static integers (no jax.numpy computation: usable under jit / vmap)",
             s.loc("MultiCategorical", "_split_or_unpack_params"), key="flat-split-static", detail="; ".join(sorted(set(dyn))) or f"{len(splits)} split call(s)",
             necessary_for="the flat parameterisation is a valid product law inside jit / vmap as well (where the policy heads construct it)")
        guards = [nzs.canon(t) for t, v in flat[0].conds]
        gwant = nzs.canon(s.ref(bs, "jnp.asarray(params).shape[-1] != int(sum(action_dims))", {"params": ("param", "params"), "action_dims": ("param", "action_dims")}))
        s.ob(rule, "MultiCategorical._split_or_unpack_params[flat]", gwant in guards, "the total width is checked against sum(action_dims)", s.loc("MultiCategorical", "_split_or_unpack_params"),
             key="flat-width-guard", detail="; ".join(show_term(g, 100) for g in guards))


def check_thin_wrappers(s, rule="C15.1"):
    """The distribution classes are thin wrappers: sample / log_prob / mode / entropy / ... are the wrapped law's own (the forwarding of
    the base class is C15.1 `delegation`), and no class other than the product law and the transformed base re-implements one of them -
    a private `sample` next to an inherited `log_prob` is how a class comes to sample from one law and score another."""
    P = s.prog
    allowed_overrides = {"MultiCategorical": set(METHODS), "AbstractTransformedDistribution": {"mode"}}
    n = 0
    for ci in P.subclasses("AbstractDistreqxWrapper"):
        for meth in METHODS:
            ok = not (meth in ci.methods and meth not in allowed_overrides.get(ci.name, set()))
            detail = ""
            if not ok and ci.name == "Categorical" and meth in ("sample", "mode", "sample_and_log_prob"):
                # an override is no second law when it IS the wrapped categorical's law written from its parameters (the library narrows
                # its own draws and modes to int8, so a wrapper that must serve more than 127 classes has to draw for itself): compared,
                # by normal form, with categorical(key, logits) / argmax(logits) / (draw, log_prob(draw)) over self.distribution
                bo = s.builder(inline=set())
                nzo = Normalizer(bo)
                po = live(s.paths(bo, ci.name, meth))
                bind_o = {"self": ("param", "self"), "key": ("param", "key")}
                if len(po) == 1:
                    got_o = nzo.canon(po[0].ret)
                    ok = any(nzo.canon(s.ref(bo, e, bind_o)) == got_o for e in own_law_spellings(meth))
                    detail = show(po[0].ret, maxlen=240)
            s.ob(rule, f"{ci.name}.{meth}", ok, "thin wrappers do not override the forwarded methods (other than by the wrapped law itself, written from its parameters)",
                 P.loc(ci.module, ci.methods[meth]) if meth in ci.methods else P.loc(ci.module, ci.node),
                 key="unexpected-override", detail=detail, necessary_for="a policy samples from the same distribution whose log-probability it reports")
            n += 1
    return n


def check(s):
    P = s.prog
    self_ = ("param", "self")
    # ---------------------------------------------------------------- C15.1
    b = s.builder(inline=set())
    for meth, arg in METHODS.items():
        p = one(s.paths(b, "AbstractDistreqxWrapper", meth), f"AbstractDistreqxWrapper.{meth}")
        want = ("call", ("attr", ("attr", self_, "distribution"), meth), ((("param", arg),) if arg else ()), ())
        alt = None
        if meth == "prob":
            alt = s.ref(b, "jnp.exp(self.distribution.log_prob(value))", {"self": self_, "value": ("param", "value")})
        s.ob("C15.1", f"AbstractDistreqxWrapper.{meth}", p.ret == want or (alt is not None and p.ret == alt),
             f"{meth} forwards to self.distribution.{meth}({arg or ''})", s.loc("AbstractDistreqxWrapper", meth), key="delegation", detail=show(p.ret, maxlen=160),
             necessary_for="prob = exp(log_prob), samples, mode and entropy are those of the wrapped law")
    n = check_thin_wrappers(s, "C15.1")
    wrappers = P.subclasses("AbstractDistreqxWrapper")
    s.ob("C15.1", "wrapper-classes", len([c for c in P.concrete_exported("lerax.distribution")]) >= 7 and n >= 35,
         "the seven exported distribution classes are covered", "", key="class-count", detail=f"{len(wrappers)} wrapper subclasses")
    check_product_law(s)
    check_index_width(s, "C15.7")
    # ---------------------------------------------------------------- C15.3
    sib = {}
    for cls, multi in (("SquashedNormal", False), ("SquashedMultivariateNormalDiag", True)):
        bq = s.builder(inline=set())
        nzq = Normalizer(bq)
        p = one(s.paths(bq, cls, "__init__"), f"{cls}.__init__")
        dist = p.self_attrs.get("distribution")
        loc = s.loc(cls, "__init__")
        ok = isinstance(dist, tuple) and dist[0] == "call" and dist[1] == ("global", "distreqx.distributions.Transformed") and len(dist[2]) == 2
        s.ob("C15.3", f"{cls}.__init__", ok, "the law is distreqx Transformed(base, bijector)", loc, key="transformed", detail=show(dist or NONE, maxlen=200))
        if not ok:
            continue
        bij = dist[2][1]
        hi = "jnp.broadcast_to(high, loc.shape)" if multi else "high"
        lo = "jnp.broadcast_to(low, loc.shape)" if multi else "low"
        chain = f"bijectors.Chain((bijectors.ScalarAffine(scale={hi} - {lo}, shift={lo}), bijectors.Sigmoid()))"
        want = f"bijectors.Block({chain}, ndims=1)" if multi else chain
        bindq = {"high": ("param", "high"), "low": ("param", "low"), "loc": ("param", "loc"), "bijectors": ("global", "distreqx.bijectors")}
        s.eq("C15.3", f"{cls}.__init__", nzq, bij, s.ref(bq, want, bindq),
             "bijector == " + ("Block(" if multi else "") + "Chain((ScalarAffine(scale=high−low, shift=low), Sigmoid()))" + (", ndims=1)" if multi else "")
             + " — sigmoid first, affine outermost", loc, key="squash-bijector",
             necessary_for="squashed laws put their samples and mode within [low, high]; the Jacobian is that of this chain")
        base = dist[2][0]
        bname = "distreqx.distributions.MultivariateNormalDiag" if multi else "distreqx.distributions.Normal"
        s.ob("C15.3", f"{cls}.__init__", isinstance(base, tuple) and base[0] == "call" and base[1] == ("global", bname), f"the base law is {bname.split('.')[-1]}", loc,
             key="base-law", detail=show(base, maxlen=160))
        inner = bij[2][0] if multi and isinstance(bij, tuple) and bij[0] == "call" and bij[2] else bij
        sib[cls] = nzq.canon(inner[1]) if isinstance(inner, tuple) and inner[0] == "call" else None
    s.ob("C15.3", "siblings(SquashedNormal, SquashedMultivariateNormalDiag)", len(sib) == 2 and len(set(sib.values())) == 1 and None not in sib.values(),
         "both squashed classes build the same kind of chain", "", key="squash-sibling", detail=str({k: show_term(v, 60) for k, v in sib.items()}))
    # end-to-end: the SAC policy squashes onto ITS action space (keyword alignment high/low)
    bp = s.builder(inline=set())
    cases = set()
    for p in live(s.paths(bp, "MLPSACPolicy", "_get_distribution")):
        r = p.ret
        okr = isinstance(r, tuple) and r[0] == "record" and r[1].split(".")[-1] in ("SquashedNormal", "SquashedMultivariateNormalDiag")
        f = fields(r) if okr else {}
        cases.add(r[1].split(".")[-1] if okr else None)
        s.ob("C15.3", f"MLPSACPolicy._get_distribution[{r[1].split('.')[-1] if okr else '?'}]",
             okr and f.get("arg:high") == ("attr", ("attr", self_, "action_space"), "high") and f.get("arg:low") == ("attr", ("attr", self_, "action_space"), "low"),
             "the squashed law is built with high=action_space.high and low=action_space.low (not interchanged)", s.loc("MLPSACPolicy", "_get_distribution"), key="squash-bounds",
             detail=show(r, maxlen=200), necessary_for="samples and the mode of the SAC policy lie within the action space's [low, high]")
    # the heads hand the laws a valid parameterisation: the scale is exp(.) of a network output / parameter (positive by construction),
    # the location is not
    for pol_cls, meth in (("MLPSACPolicy", "_get_distribution"), ("BoxAction", "__call__")):
        bh = s.builder(inline=set())
        for p in live(s.paths(bh, pol_cls, meth)):
            r = p.ret
            if not (isinstance(r, tuple) and r and r[0] == "record"):
                continue
            f = fields(r)
            sc = f.get("arg:scale", f.get("arg:scale_diag"))
            lc = f.get("arg:loc")
            is_exp = lambda v: isinstance(v, tuple) and v and v[0] == "call" and v[1] == ("global", "jax.numpy.exp")  # noqa: E731
            s.ob("C15.3", f"{pol_cls}.{meth}[{r[1].split('.')[-1]}]", sc is not None and is_exp(sc) and lc is not None and not is_exp(lc),
                 "the law's scale is exp(log-std) and its location is the mean output (not interchanged, no bare log-std as a scale)", s.loc(pol_cls, meth), key="scale-positive",
                 detail=f"loc={show(lc if lc is not None else NONE, maxlen=80)}; scale={show(sc if sc is not None else NONE, maxlen=80)}",
                 necessary_for="the policy heads construct valid parameterisations (a positive scale) of the laws the property quantifies over")
    if cases != {"SquashedNormal", "SquashedMultivariateNormalDiag"}:
        raise AnalysisError(f"MLPSACPolicy._get_distribution: expected scalar and vector cases, got {cases}")
    # ---------------------------------------------------------------- C15.4
    ci, dc, fn = s.method("AbstractTransformedDistribution", "mode")
    loc = s.loc("AbstractTransformedDistribution", "mode")
    trys = [st for st in fn.body if isinstance(st, ast.Try)]
    ok = len(trys) == 1 and len(trys[0].handlers) == 1
    s.ob("C15.4", "AbstractTransformedDistribution.mode", ok, "mode() is a try/except with one handler", loc, key="mode-try", detail=str(len(trys)))
    if ok:
        t = trys[0]
        bm = s.builder(inline=set())
        h = t.handlers[0]
        htype = ast.unparse(h.type) if h.type is not None else ""
        ctx = Ctx(dc.module, dc, fn, ci)
        pre = fn.body[:fn.body.index(t)]

        def value_of(stmts):
            """the value returned by `stmts` run after the statements that precede the try (locals and split calls resolved)"""
            import copy
            f2 = copy.copy(fn)
            f2.body = list(pre) + list(stmts)
            ps = live(bm.paths(f2, ctx))
            return ps[0].ret if len(ps) == 1 else None

        okb = value_of(t.body) == ("call", ("attr", ("attr", self_, "distribution"), "mode"), (), ())
        s.ob("C15.4", "AbstractTransformedDistribution.mode", okb, "the primary answer is the transformed law's own mode()", loc, key="mode-primary")
        want = bm.ev(ast.parse("self.distribution.bijector.forward(self.distribution.distribution.mode())", mode="eval").body, {"self": self_}, ctx)
        okh = htype == "NotImplementedError" and value_of(h.body) == want
        s.ob("C15.4", "AbstractTransformedDistribution.mode", okh, "on NotImplementedError the mode falls back to bijector.forward(base.mode())", loc, key="mode-fallback",
             detail=ast.unparse(h)[:200], necessary_for="the mode of a squashed law lies in the support [low, high]")
    # ---------------------------------------------------------------- C15.6 a masked law is a law again (total mass 1, prob = exp(log_prob))
    from .C16 import check_mask_laws
    check_mask_laws(s, "C15.6")
    # ---------------------------------------------------------------- C15.5 parameter wiring of the constructors and accessors
    check_params(s)
    from .util import fields_initialised
    fields_initialised(s, "C15.5", [c for m_ in sorted(P.modules.values(), key=lambda m__: m__.name) if m_.name.startswith("lerax.distribution") for c in m_.classes.values()],
                       necessary_for="every distribution class is a usable law for every valid parameterisation")
    for r_, n_ in (("C15.1", 8), ("C15.2", 9), ("C15.3", 9), ("C15.4", 3), ("C15.5", 40), ("C15.7", 6)):
        s.floor(r_, n_)


PARAM_CLASSES = ["Normal", "MultivariateNormalDiag", "Bernoulli", "Categorical", "MultiCategorical", "SquashedNormal", "SquashedMultivariateNormalDiag"]


def check_params(s):
    """C15.5: every keyword of the wrapped distreqx law is fed by the like-named constructor parameter (as an array, or None exactly
    when that parameter is None), and the read-back properties return the like-named attribute of the wrapped (base) law."""
    P = s.prog
    self_ = ("param", "self")
    for cls in PARAM_CLASSES:
        b = s.builder(inline=set())
        loc = s.loc(cls, "__init__")
        n_law = 0
        for p in live(s.paths(b, cls, "__init__")):
            dist = p.self_attrs.get("distribution")
            if dist is None:
                continue
            laws = [c for c in walk(dist) if isinstance(c, tuple) and c and c[0] == "call" and isinstance(c[1], tuple) and c[1][0] == "global"
                    and c[1][1].startswith("distreqx.distributions.") and c[1][1] != "distreqx.distributions.Transformed"]
            s.ob("C15.5", f"{cls}.__init__", len(laws) == 1 and not laws[0][2], "one wrapped base law, built with keyword arguments only", loc, key="one-base-law",
                 detail="; ".join(show(c, maxlen=120) for c in laws))
            if len(laws) != 1:
                continue
            n_law += 1
            none_params = set()
            for t, v in p.conds:
                # `x is not None` False / `x is None` True  => parameter x is None on this path
                if isinstance(t, tuple) and t[0] == "cmp" and t[3] == NONE and isinstance(t[2], tuple) and t[2][0] == "param":
                    if (t[1] == "IsNot" and not v) or (t[1] == "Is" and v):
                        none_params.add(t[2][1])
            for k, v in laws[0][3]:
                src = v
                while isinstance(src, tuple) and src and src[0] == "call" and src[1] in (("global", "jax.numpy.asarray"), ("global", "jax.numpy.array")) and src[2]:
                    src = src[2][0]
                if src == NONE:
                    ok = k in none_params
                    why = f"{k}=None although the parameter `{k}` is not known to be None on this path"
                elif isinstance(src, tuple) and src[0] == "bound":
                    # MultiCategorical: the per-component parameter is an element of the split of the like-named flat parameter
                    comps = [c for c in walk(dist) if isinstance(c, tuple) and c and c[0] == "comp"]
                    it = comps[0][3][0][0] if comps else None
                    ok = it is not None and ("param", k) in set(walk(it)) and not ({x for x in walk(it) if isinstance(x, tuple) and x and x[0] == "param"} - {("param", k), ("param", "action_dims")})
                    why = f"component {k} iterates {show(it, maxlen=120)}"
                else:
                    ok = src == ("param", k)
                    why = f"{k}={show(v, maxlen=120)}"
                s.ob("C15.5", f"{cls}.__init__.{k}", ok, f"the wrapped law's `{k}` is the constructor's `{k}` (as an array)", loc, key=f"param-{k}", detail=why,
                     necessary_for="log_prob, samples, entropy and mode are those of the law with the parameters the caller supplied (loc is not scale, logits are not probs)")
        if n_law == 0:
            raise AnalysisError(f"{cls}.__init__: no path builds a wrapped law")
        # read-back properties
        ci = P.cls(cls)
        for name in ("loc", "scale", "scale_diag", "logits", "probs"):
            r = P.resolve_method(ci, name)
            if r is None or not r[0].is_property(name):
                continue
            if cls == "MultiCategorical":
                # the flat read-back is the concatenation of the components' like-named attribute, in component order, on the last axis
                nzm = Normalizer(b)
                pm = one(s.paths(b, cls, name), f"{cls}.{name}")
                want = s.ref(b, f"jnp.concatenate(tuple(d.{name} for d in self.distribution), axis=-1)", {"self": self_})
                s.eq("C15.5", f"{cls}.{name}", nzm, pm.ret, want, f"`{name}` is the concatenation of every component's `{name}` along the last axis", s.loc(cls, name),
                     key=f"accessor-{name}", necessary_for="flat and sequence parameterisations describe the same product law (logits are not probs)")
                continue
            pp = [q for q in live(s.paths(b, cls, name))]
            base = ("attr", self_, "distribution")
            wants = [("attr", base, name), ("attr", ("attr", base, "distribution"), name)]
            s.ob("C15.5", f"{cls}.{name}", len(pp) == 1 and pp[0].ret in (wants[1:] if cls.startswith("Squashed") else wants[:1]),
                 f"the `{name}` property reads the wrapped {'base ' if cls.startswith('Squashed') else ''}law's `{name}`", s.loc(cls, name), key=f"accessor-{name}",
                 detail="; ".join(show(q.ret, maxlen=100) for q in pp))
