"""C11 — training is reproducible, pure, and unaffected by observers."""
from __future__ import annotations

import ast

from ..effects import functions_of, module_level_state, scan_function
from ..model import AnalysisError
from ..norm import Normalizer
from ..taint import H, L, Taint, alg_state_shape, flat, step_state_shape, violations
from ..vgraph import NONE, Closure, Ctx, show, walk
from .util import live

EXPLANATION = (
    "Determinism by construction and non-interference. C11.1 ambient-effect scan of every function of the training computation "
    "(algorithm, buffer, policy, distribution, space, wrapper, utils, base env, callback protocol): no clock / OS / Python-RNG callee, "
    "no constant PRNG key, no global, module-container, attribute or item mutation (outside __init__), with positive controls that must "
    "match on every run. C11.2 key provenance on the value graphs of the training loop: every `key=` argument and every jax.random "
    "sampler key derives from a key parameter through jr.split / indexing only and contains no key constructor. C11.3 callback "
    "non-interference by field-partition taint analysis: with High = the callback object and the callback_state fields, every "
    "function of the loop (step-state initial, step, collect_*, post_collect, reset, iteration, per_iteration, learn — for PPO, A2C, "
    "REINFORCE, DQN and SAC) has Low outputs that depend only on Low inputs, checked function by function under callee summaries; "
    "hence the returned policy is the same function of (env, policy, hyper-parameters, key) for every callback set. C11.4 the policy "
    "passed in is never mutated (no attribute/item assignment, setattr or __dict__ access on a parameter) and learn returns the policy "
    "field of the final state. C11.11 no jit-decorated entry point donates its argument buffers (the caller's policy and key stay usable). NOT decided: bit-identity of two XLA executions; 'different keys yield different runs'."
)
ASSUMPTIONS = [
    "JAX/XLA executes a traced program deterministically for fixed inputs (bit-identity of two executions is not decided)",
    "jax.debug.callback observers cannot feed values back into the traced computation",
    "callee summaries are sound by induction over the listed functions (each is itself checked)",
]

LOOP = ["per_step", "step", "post_collect", "collect_rollout", "collect_learning_starts", "train", "reset", "per_iteration", "iteration", "learn"]


def training_scope(m):
    n = m.name
    if n.startswith(("lerax.algorithm", "lerax.buffer", "lerax.policy", "lerax.distribution", "lerax.space", "lerax.wrapper")):
        return True
    return n in ("lerax.utils", "lerax.env.base_env", "lerax.callback.base_callback", "lerax.callback.list", "lerax.callback.empty")


def check(s):
    P = s.prog
    self_ = ("param", "self")
    # ---------------------------------------------------------------- C11.1 / C11.4
    n = 0
    kinds1 = ("forbidden-callee", "constant-key", "global-state", "setattr", "set-iteration", "memoization", "host-callback")
    kinds4 = ("attribute-assignment", "item-assignment", "dict-access", "setattr")
    for m, ci, qual, fn in functions_of(P, module_filter=training_scope):
        if fn.name in ("render", "render_states", "render_stacked", "default_renderer", "serialize"):
            continue
        n += 1
        hits = scan_function(P, m, qual, fn, allow_self_assign=fn.name in ("__init__", "_init_common"))
        h1 = [h for h in hits if h.kind in kinds1]
        h4 = [h for h in hits if h.kind in kinds4]
        from ..effects import cell_var_from_loop as _cv, mutable_default_mutation as _md
        h_shared = _md(fn) + _cv(fn)
        s.ob("C11.1", qual.replace("lerax.", ""), not h_shared, "no state shared between calls through a mutable default argument; no function value reading a loop variable late", P.loc(m, fn),
             key="shared-python-state", detail="; ".join(h_shared[:3]), necessary_for="training is a function of its explicit inputs")
        s.ob("C11.1", qual.replace("lerax.", ""), not h1, "no nondeterministic or stateful callee, no constant key, no global state", P.loc(m, fn), key="ambient-effect",
             detail="; ".join(str(h) for h in h1), necessary_for="training is a function of (environment, initial policy, hyper-parameters, key)")
        s.ob("C11.4", qual.replace("lerax.", ""), not h4, "no attribute / item assignment, setattr or __dict__ access on an argument", P.loc(m, fn), key="argument-mutation",
             detail="; ".join(str(h) for h in h4), necessary_for="the policy passed in is left untouched")
    for m in P.modules.values():
        if training_scope(m):
            hits = module_level_state(P, m)
            s.ob("C11.1", m.name.replace("lerax.", "") + ":<module>", not hits, "no module-level container is mutated by a function", m.relpath, key="module-state", detail="; ".join(str(h) for h in hits))
    # equality of static arguments keys the compilation caches: a class whose __eq__ ignores part of its state makes a later `learn`
    # reuse the program compiled for another configuration (training then depends on what ran earlier in the process)
    from ..effects import incomplete_equality
    ie = incomplete_equality(P)
    s.ob("C11.1", "custom __eq__", not ie, "every class that defines __eq__ (outside lerax.space, whose equalities C14.4 decides) compares all of its state", ie[0][1] + f":{ie[0][2]}" if ie else "",
         key="incomplete-equality", detail="; ".join(f"{q} ignores {', '.join(ms)}" for q, _, _, ms in ie),
         necessary_for="training is a function of (environment, initial policy, hyper-parameters, key) - not of what was compiled earlier in the process")
    ctrl = []
    for m, ci, qual, fn in functions_of(P, module_filter=lambda m: m.name in ("lerax.env.base_env", "lerax.callback.logging.callback", "lerax.compatibility.gymnax", "lerax.compatibility.gym")):
        if fn.name in ("render_states", "__init__", "get_obs", "reset", "step"):
            ctrl += [h for h in scan_function(P, m, qual, fn) if h.kind in ("forbidden-callee", "constant-key", "attribute-assignment")]
    names = {h.what.split("(")[0] for h in ctrl if h.kind != "attribute-assignment"}
    s.control(f"C11.1 effects seen in the repository outside the scope: {sorted(names)}; attribute assignments seen in adapters: {sum(1 for h in ctrl if h.kind == 'attribute-assignment')}")
    from ..effects import control_armed, positive_control
    armed, cnames = control_armed(positive_control(P))
    s.control(f"C11.1 matcher armed on the fixed sample: {cnames}")
    if not armed:
        raise AnalysisError(f"C11.1: positive controls not matched ({cnames})")
    # ---------------------------------------------------------------- C11.2 key provenance
    graph_targets = []
    for cls in ("PPO", "A2C", "REINFORCE", "DQN", "SAC"):
        for meth in ("step", "collect_rollout", "collect_learning_starts", "post_collect", "reset", "iteration", "learn", "train", "train_epoch", "dqn_train", "sac_train"):
            if P.resolve_method(P.cls(cls), meth) is not None:
                graph_targets.append((cls, meth))
    graph_targets += [("AbstractOnPolicyStepState", "initial"), ("AbstractOffPolicyStepState", "initial"), ("AbstractEnvLike", "step"), ("AbstractEnvLike", "reset"),
                      ("CallbackList", "on_step"), ("CallbackList", "reset"), ("CallbackList", "step_reset"), ("CallbackList", "on_iteration")]
    seen_fn = set()
    for cls, meth in graph_targets:
        ci, dc, fn = s.method(cls, meth)
        if (dc.qualname, meth) in seen_fn and cls not in ("DQN", "SAC"):
            continue
        seen_fn.add((dc.qualname, meth))
        b = s.builder(inline=set())
        key_params = {a.arg for a in fn.args.posonlyargs + fn.args.args + fn.args.kwonlyargs if a.arg == "key" or a.arg.endswith("_key")}
        loc = P.loc(dc.module, fn)
        bad = []
        n_keys = 0
        try:
            paths = live(b.paths(fn, Ctx(dc.module, dc, fn, ci)))
        except AnalysisError as e:
            raise AnalysisError(f"{cls}.{meth}: {e}") from e
        for p in paths:
            roots = [p.ret] + [e[1] for e in p.effects]
            stack = list(roots)
            closures_done = set()
            allc = []
            for root in roots:
                for c in walk(root):
                    if isinstance(c, Closure) and c.qualname is None and id(c.node) not in closures_done:
                        closures_done.add(id(c.node))
                        try:
                            names_ = c.param_names()
                            out = b.apply(c, tuple(("param", f"${nm}") for nm in names_), ())
                            allc.append((out, {f"${nm}" for nm in names_ if nm == "key" or nm.endswith("key") or nm in ("k", "_")}))
                        except AnalysisError:
                            pass
            for root, extra_keys in [(r, set()) for r in roots] + allc:
                for c in walk(root):
                    if not (isinstance(c, tuple) and c and c[0] == "call"):
                        continue
                    knodes = []
                    for kname, v in c[3]:
                        if kname == "key":
                            knodes.append(v)
                    if isinstance(c[1], tuple) and c[1][0] == "global" and c[1][1].startswith("jax.random.") and c[1][1] not in ("jax.random.key", "jax.random.PRNGKey") and c[2]:
                        knodes.append(c[2][0])
                    for kn in knodes:
                        n_keys += 1
                        ctor = [x for x in walk(kn) if isinstance(x, tuple) and x and x[0] == "call" and x[1] in (("global", "jax.random.key"), ("global", "jax.random.PRNGKey"))]
                        leaves = {x[1] for x in walk(kn) if isinstance(x, tuple) and x and x[0] == "param"}
                        src_ok = bool(leaves & (key_params | extra_keys | {"$key", "$k"})) or any(lf.startswith("$") for lf in leaves)
                        if not src_ok:
                            # comprehension-bound keys: the comprehension must iterate over a split of a key parameter
                            depths = {x[1] for x in walk(kn) if isinstance(x, tuple) and x and x[0] == "bound"}
                            for cc in walk(root):
                                if isinstance(cc, tuple) and cc and cc[0] == "comp" and cc[4] in depths:
                                    it_leaves = {x[1] for it, _ in cc[3] for x in walk(it) if isinstance(x, tuple) and x and x[0] == "param"}
                                    if it_leaves & key_params and any(isinstance(x, tuple) and x and x[0] == "call" and x[1] == ("global", "jax.random.split") for it, _ in cc[3] for x in walk(it)):
                                        src_ok = True
                        if ctor or not src_ok:
                            bad.append(f"{show(c[1], maxlen=40)}(key={show(kn, maxlen=80)})")
        s.ob("C11.2", f"{dc.name}.{meth}", not bad, "every random consumer's key derives from a key parameter through split/indexing (no constant key)", loc, key="key-provenance",
             detail="; ".join(sorted(set(bad))[:6]) or f"{n_keys} key uses", necessary_for="all randomness flows from the explicit key: same key, same run")
    # ---------------------------------------------------------------- C11.3 non-interference
    for cls in ("PPO", "A2C", "REINFORCE", "DQN", "SAC"):
        ci = P.cls(cls)
        # every definition of the method along the MRO is analysed (an override that calls super() relies on the summary of the
        # base definition, so the base definition has to establish that summary itself)
        defs = [(dc_, dc_.methods[meth]) for meth in LOOP for dc_ in P.mro(ci) if meth in dc_.methods and not dc_.is_abstractmethod(meth)]
        for dc, fn in defs:
            meth = fn.name
            b = s.builder(inline={"next", "with_callback_states", "with_callback_state", "consolidate_callbacks", "_soft_update_targets"})
            con = f"{cls}.{meth}" if dc is P.resolve_method(ci, meth)[0] else f"{cls}.{meth}<{dc.name}>"
            loc = P.loc(dc.module, fn)
            for p in live(b.paths(fn, Ctx(dc.module, dc, fn, ci))):
                tz = Taint(P, b, ci)
                tz.param_taints(fn, dc.module, dc)
                if meth == "learn":
                    tz.env[("param", "callback")] = H
                out = tz.of(p.ret)
                shape = tz.shape_of_annotation(dc.module, fn.returns, dc, fn)
                bad = violations(out, shape)
                s.ob("C11.3", con, not bad, "Low outputs (everything but callback state) depend only on Low inputs", loc, key="callback-interference",
                     detail="High parts: " + ", ".join(bad) if bad else f"result shape {shape if not isinstance(shape, dict) else sorted(map(str, shape))}",
                     necessary_for="attaching observers does not change the trained policy")
            # implicit flows: a Python-level branch whose test reads the callback (or callback state) must not select between
            # different Low results. The static paths are merged back into one value (selection pushed inward to the parts
            # that differ); a selection under a High test makes exactly those parts High.
            lps = live(b.paths(fn, Ctx(dc.module, dc, fn, ci)))
            if len(lps) > 1:
                from .util import merge_paths
                try:
                    merged = merge_paths(lps)
                except AnalysisError as e:
                    merged = None
                    tz0 = Taint(P, b, ci)
                    tz0.param_taints(fn, dc.module, dc)
                    hts = sorted({show(t, maxlen=100) for q in lps for t, v in q.conds if flat(tz0.of(t)) == H})
                    # a branch on the callback whose two sides cannot be lined up is not shown harmless
                    s.ob("C11.3", con + "[branches]", not hts, "branches on the callback could be compared side by side", loc, key="callback-branch-unmergeable",
                         detail=f"{e}; tests reading the callback: " + "; ".join(hts))
                if merged is not None:
                    tz = Taint(P, b, ci)
                    tz.param_taints(fn, dc.module, dc)
                    if meth == "learn":
                        tz.env[("param", "callback")] = H
                    high_tests = sorted({show(t, maxlen=100) for q in lps for t, v in q.conds if flat(tz.of(t)) == H})
                    out = tz.of(merged.ret)
                    shape = tz.shape_of_annotation(dc.module, fn.returns, dc, fn)
                    bad = violations(out, shape)
                    s.ob("C11.3", con + "[branches]", not bad, "no branch on the callback (or its state) selects between different Low results", loc, key="callback-controlled-branch",
                         detail=("High parts: " + ", ".join(bad) + "; tests reading the callback: " + "; ".join(high_tests)) if bad else f"{len(lps)} static paths, {len(high_tests)} tests read the callback",
                         necessary_for="attaching observers (of whatever class, with or without per-step state) does not change the trained policy")
    for cls in ("AbstractOnPolicyStepState", "AbstractOffPolicyStepState"):
        ci, dc, fn = s.method(cls, "initial")
        b = s.builder(inline=set())
        for p in live(b.paths(fn, Ctx(dc.module, dc, fn, ci))):
            tz = Taint(P, b, ci)
            tz.param_taints(fn, dc.module, dc)
            out = tz.of(p.ret)
            bad = violations(out, step_state_shape())
            s.ob("C11.3", f"{cls}.initial", not bad and isinstance(out, dict), "the initial env / policy state (and buffer) do not depend on the callback", P.loc(dc.module, fn), key="callback-interference",
                 detail="High parts: " + ", ".join(bad) if bad else str(sorted(map(str, out)) if isinstance(out, dict) else out))
    # key splits do not depend on the callback: the split counts in the loop are literals or self.<hyper-parameter>
    for cls, meth in (("PPO", "step"), ("DQN", "step"), ("PPO", "iteration"), ("DQN", "iteration"), ("SAC", "iteration"), ("PPO", "learn"), ("PPO", "reset"), ("DQN", "reset")):
        ci, dc, fn = s.method(cls, meth)
        b = s.builder(inline=set())
        bad = []
        for p in live(b.paths(fn, Ctx(dc.module, dc, fn, ci))):
            for c in walk(p.ret):
                if isinstance(c, tuple) and c and c[0] == "call" and c[1] == ("global", "jax.random.split") and len(c[2]) == 2:
                    cnt = c[2][1]
                    if ("param", "callback") in set(walk(cnt)) or any(isinstance(x, tuple) and x and x[0] == "attr" and x[2] == "callback_state" for x in walk(cnt)):
                        bad.append(show(cnt, maxlen=80))
        s.ob("C11.3", f"{dc.name}.{meth}[splits]", not bad, "the number of key splits does not depend on the callback", P.loc(dc.module, fn), key="split-count", detail="; ".join(bad))
    # ---------------------------------------------------------------- C11.4 learn returns state.policy
    b = s.builder(inline={"with_callback_states"})
    nz = Normalizer(b)
    ci, dc, fn = s.method("PPO", "learn")
    for p in live(b.paths(fn, Ctx(dc.module, dc, fn, ci))):
        c = nz.canon(p.ret)
        s.ob("C11.4", "AbstractAlgorithm.learn", isinstance(c, tuple) and c and c[0] == "attr" and c[2] == "policy", "learn returns the policy field of the final training state (a new value, not the argument)",
             P.loc(dc.module, fn), key="returns-state-policy", detail=show(p.ret, maxlen=120))
    # ---------------------------------------------------------------- C11.5 host-side (Gymnasium) environments are re-seeded from the key at every reset
    check_gym_seeding(s)
    check_video_observer(s)
    # ---------------------------------------------------------------- C11.6 no process-wide JAX configuration is changed (PRNG implementation, x64, ...)
    from .C12 import check_global_config
    check_global_config(s, "C11.6")
    # ---------------------------------------------------------------- C11.9 "different keys yield different runs" needs the keyed updates to
    # happen at all: learn returns the actor, and SAC replaces the actor only under its gate. The gate `iteration_count %
    # policy_frequency == 0` holds at the very first iteration (count 0), so every run of at least one iteration returns an actor
    # that went through a keyed update; a shifted gate ((count + 1) % f) leaves runs shorter than policy_frequency with the
    # initial actor whatever the key
    from .C10 import check_sac_gates
    check_sac_gates(s, "C11.9")
    # ---------------------------------------------------------------- C11.10 observer state keeps the platform's default widths: the statistics a
    # callback carries through the step scan are combined with rewards, flags and counters of the default float / int width; a state
    # initialised with a pinned width (jnp.float32 / int32) has another dtype than its own update as soon as 64-bit mode is on, and the
    # scan / cond over it then fails to trace - attaching the observer makes training raise
    import ast as _ast
    PINNED = {"float16", "bfloat16", "float32", "float64", "int8", "int16", "int32", "int64", "uint8", "uint16", "uint32", "uint64"}
    n10 = 0
    for m in sorted(P.modules.values(), key=lambda m_: m_.name):
        if not m.name.startswith("lerax.callback"):
            continue
        for ci in m.classes.values():
            for mname, fn in ci.methods.items():
                pinned = []
                for c in _ast.walk(fn):
                    if isinstance(c, _ast.Call):
                        for kw in c.keywords:
                            if kw.arg == "dtype" and ((isinstance(kw.value, _ast.Attribute) and kw.value.attr in PINNED) or (isinstance(kw.value, _ast.Constant) and kw.value.value in PINNED)):
                                pinned.append(f"line {c.lineno}: dtype={_ast.unparse(kw.value)}")
                        if isinstance(c.func, _ast.Attribute) and c.func.attr == "astype" and c.args and ((isinstance(c.args[0], _ast.Attribute) and c.args[0].attr in PINNED)
                                                                                                      or (isinstance(c.args[0], _ast.Constant) and c.args[0].value in PINNED)):
                            pinned.append(f"line {c.lineno}: astype({_ast.unparse(c.args[0])})")
                n10 += 1
                s.ob("C11.10", f"{ci.name}.{mname}", not pinned, "observer state is built and updated at the platform's default widths (dtype=float / int / bool), never at a pinned bit width",
                     P.loc(m, fn), key="pinned-width", detail="; ".join(pinned), necessary_for="training is unaffected by observers in every configuration (an observer whose carried state changes dtype under 64-bit mode makes learn raise)")
    if n10 == 0:
        raise AnalysisError("C11.10: no callback method found")
    # ---------------------------------------------------------------- C11.11 no entry point donates its argument buffers: a decorated function is
    # called with the caller's own arrays (learn with the caller's policy and key); `donate=` / `donate_argnums=` on its jit lets XLA
    # reuse those buffers, so the policy passed in is deleted under the caller (purity) and a second run from the same arguments raises
    n11 = 0

    def donating(tree, mod=None):
        out = []
        for fn_ in _ast.walk(tree):
            if not isinstance(fn_, (_ast.FunctionDef, _ast.AsyncFunctionDef)):
                continue
            for d in fn_.decorator_list:
                for c in _ast.walk(d):
                    if isinstance(c, _ast.Call):
                        for kw in c.keywords:
                            if kw.arg in ("donate", "donate_argnums", "donate_argnames") and not (isinstance(kw.value, _ast.Constant) and kw.value.value in ("none", None, ())) \
                                    and not (isinstance(kw.value, _ast.Tuple) and not kw.value.elts):
                                out.append((fn_, f"line {c.lineno}: {kw.arg}={_ast.unparse(kw.value)}"))
        return out

    if len(donating(_ast.parse("import equinox as eqx\n@eqx.filter_jit(donate='all-except-first')\ndef learn(self, policy): return policy\n"))) != 1:
        raise AnalysisError("C11.11: the positive control (a donating decorator) is not recognised")
    s.controls.append("C11.11 positive control: @eqx.filter_jit(donate='all-except-first') is recognised as donating")
    for m in sorted(P.modules.values(), key=lambda m_: m_.name):
        hits = donating(m.tree)
        decorated = [f_ for f_ in _ast.walk(m.tree) if isinstance(f_, (_ast.FunctionDef, _ast.AsyncFunctionDef)) and f_.decorator_list]
        for f_ in decorated:
            if not any("jit" in _ast.unparse(d) or "pmap" in _ast.unparse(d) for d in f_.decorator_list):
                continue
            n11 += 1
            mine = [t for g, t in hits if g is f_]
            s.ob("C11.11", f"{m.name.replace('lerax.', '')}.{f_.name}", not mine, "a jit-compiled entry point does not donate its argument buffers (the caller's policy, key and environment stay usable)",
                 P.loc(m, f_), key="donated-arguments", detail="; ".join(mine), necessary_for="the policy passed in is never mutated; the same arguments give the same run again")
    for r_, n_ in (("C11.11", 4), ("C11.1", 250), ("C11.2", 20), ("C11.3", 50), ("C11.4", 250), ("C11.5", 4), ("C11.6", 50), ("C11.8", 1), ("C11.9", 6), ("C11.10", 30)):
        s.floor(r_, n_)


def _seed_given(t):
    """True when test t asserts that the caller passed seed=..., False when it asserts the opposite, None when it says neither
    (`"seed" in kwargs`, `"seed" not in kwargs`, `not (...)`)."""
    if isinstance(t, tuple) and len(t) == 3 and t[:2] == ("un", "Not"):
        r = _seed_given(t[2])
        return None if r is None else not r
    if isinstance(t, tuple) and len(t) == 4 and t[0] == "cmp" and t[1] in ("In", "NotIn") and t[2] == ("const", "seed") \
            and isinstance(t[3], tuple) and t[3][0] == "param" and t[3][1].startswith("**"):
        return t[1] == "In"
    return None


def check_video_observer(s):
    """C11.8: the only observer that steps an environment itself is the video recorder of the logging callback (a rollout in a
    background thread). Stepping is harmless for pure environments; an environment that lives on the host (the Gymnasium adapter) would
    be reset and stepped under the learner's feet. Such environments have no renderer (their default_renderer raises), and the
    recorder gives up before its rollout when it cannot obtain one: so the rollout must come AFTER the renderer was obtained."""
    import ast as _ast
    P = s.prog
    m = P.modules.get("lerax.callback.logging.callback")
    if m is None:
        raise AnalysisError("lerax.callback.logging.callback vanished")
    recs = [n for n in _ast.walk(m.tree) if isinstance(n, _ast.FunctionDef) and n.name == "_do_record"]
    if len(recs) != 1:
        raise AnalysisError("the video recorder's _do_record vanished")
    fn = recs[0]

    def calls(node, pred):
        return any(isinstance(c, _ast.Call) and pred(c.func) for c in _ast.walk(node))

    # functions (anywhere in the module) that obtain the renderer themselves count when called
    obtains = {f.name for f in _ast.walk(m.tree) if isinstance(f, _ast.FunctionDef) and f is not fn
               and calls(f, lambda c: isinstance(c, _ast.Attribute) and c.attr == "default_renderer")}

    def is_guard(st):
        return calls(st, lambda c: (isinstance(c, _ast.Attribute) and c.attr == "default_renderer") or (isinstance(c, _ast.Name) and c.id in obtains))

    def is_rollout(st):
        return calls(st, lambda c: isinstance(c, _ast.Name) and c.id == "run_rollout")

    def linear(body):
        out = []
        for st in body:
            if isinstance(st, _ast.Try) and not is_guard(st) or (isinstance(st, _ast.Try) and is_rollout(st)):
                out += linear(st.body)
            else:
                out.append(st)
        return out

    seq = linear(fn.body)
    gi = [i for i, st in enumerate(seq) if is_guard(st)]
    ri = [i for i, st in enumerate(seq) if is_rollout(st)]
    ok = bool(gi) and bool(ri) and min(ri) > min(gi) and not any(is_rollout(st) and is_guard(st) for st in seq)
    s.ob("C11.8", "LoggingCallback video recorder", ok, "the recorder's own rollout runs only after a renderer was obtained for the environment (it gives up first for environments without one)",
         P.loc(m, fn), key="video-rollout-after-renderer-guard", detail=f"renderer obtained at statement {gi}, rollout at statement {ri} of _do_record",
         necessary_for="attaching observers (logging callback with video) does not change the trained policy, also for host-side Gymnasium environments")


def check_gym_seeding(s):
    """GymToLeraxEnv keeps its randomness on the host, inside the wrapped gymnasium.Env. Training is a function of the key only if every
    reset re-creates that generator from a seed derived from the key: the reset callback must pass seed=int(<its operand>) to
    env.reset unconditionally, and the operand must be jr.randint(key, ...) (or the caller's explicit seed)."""
    from ..vgraph import Closure
    self_ = ("param", "self")
    con = "GymToLeraxEnv.initial"
    loc = s.loc("GymToLeraxEnv", "initial")
    b = s.builder(inline=set())
    cases = 0
    for p in live(s.paths(b, "GymToLeraxEnv", "initial")):
        explicit = any(_seed_given(t) == v for t, v in p.conds if _seed_given(t) is not None)
        ios = [x for x in walk(p.ret) if isinstance(x, tuple) and x and x[0] == "call" and x[1] == ("global", "jax.experimental.io_callback")]
        ok = len(ios) == 1 and len(ios[0][2]) >= 3 and isinstance(ios[0][2][0], Closure)
        s.ob("C11.5", con, ok, "the initial observation comes from one io_callback(reset_callback, shape, seed)", loc, key="gym-reset-io", detail=str(len(ios)))
        if not ok:
            continue
        cases += 1
        io = ios[0]
        operand = io[2][2]
        if explicit:
            okop = ("param", "**kwargs") in set(walk(operand)) or any(isinstance(x, tuple) and x and x[0] == "param" and x[1].startswith("**") for x in walk(operand))
            what = "the caller's explicit seed"
        else:
            okop = isinstance(operand, tuple) and operand[0] == "call" and operand[1] == ("global", "jax.random.randint") and operand[2] and operand[2][0] == ("param", "key")
            what = "jr.randint(key, ...)"
        s.ob("C11.5", f"{con}[explicit-seed={explicit}]", okop, f"the seed handed to the host callback is {what}", loc, key="gym-seed-source", detail=show(operand, maxlen=140),
             necessary_for="the environment's randomness is a function of the key")
        sub = live(b.apply_paths(io[2][0], (("param", "$seed"),)))
        bad = []
        n_reset = 0
        for q in sub:
            roots = [q.ret] + [e[1] for e in q.effects]
            resets = {x for r_ in roots for x in walk(r_) if isinstance(x, tuple) and x and x[0] == "call" and x[1] == ("attr", ("attr", self_, "env"), "reset")}
            n_reset += len(resets)
            for c in resets:
                sd = dict((k, v) for k, v in c[3] if k).get("seed")
                if sd != ("call", ("global", "int"), (("param", "$seed"),), ()):
                    bad.append(f"seed={show(sd if sd is not None else NONE, maxlen=80)}")
            if not resets:
                bad.append("a path of the callback does not reset the environment")
        s.ob("C11.5", f"{con}[explicit-seed={explicit}]", not bad and n_reset >= 1 and len(sub) == 1,
             "the callback resets the wrapped environment with seed=int(operand) on its single path (no state of an earlier run decides whether it is seeded)", loc,
             key="gym-reset-seeded", detail="; ".join(bad) or f"{len(sub)} path(s)", necessary_for="repeating training with the same inputs (same environment object included) gives identical results")
        s.ob("C11.5", f"{con}[explicit-seed={explicit}]", dict((k, v) for k, v in io[3] if k).get("ordered") == ("const", True) or str(dict((k, v) for k, v in io[3] if k).get("ordered")) == str(("const", True)),
             "the host callback is ordered (resets and steps reach the environment in program order)", loc, key="gym-reset-ordered", detail=show(io, maxlen=160))
    if cases == 0:
        raise AnalysisError("GymToLeraxEnv.initial: no io_callback found")
