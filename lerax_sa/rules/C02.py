"""C02 — environments stay inside their declared spaces with well-typed signals (partial)."""
from __future__ import annotations

import ast

from ..effects import cell_var_from_loop, mutable_default_mutation, python_bool_on_arrays, Hit, functions_of, module_level_state, scan_function
from ..kinds import BOOL, FLOAT, INT, SCALAR, UNKNOWN, Kinds, ann_kind_shape
from ..model import AnalysisError
from ..norm import Normalizer, freeze, pconst, pneg, show_term
from ..vgraph import NONE, Closure, Ctx, replace_nodes, show, walk
from .util import fields, live, one

EXPLANATION = (
    "What is decided: C02.1 bounded-by-construction for the classic-control environments: a symbolic bound per observation component "
    "is obtained by composing clip() (jnp.clip(v,lo,hi) -> [lo,hi]; (x+pi) % 2pi - pi -> [-pi,pi]; product with a Boolean mask keeps a "
    "zero-containing interval) with observation() (cos/sin -> [-1,1]) and compared term-for-term with the Box(low, high) built in "
    "__init__ (both expressed over the constructor parameters); CartPole's finite bounds are NOT statically bounded — for it only the "
    "index alignment threshold <-> state component <-> bound is checked (C02.1b). C02.2 signal kinds: terminal/truncate are Boolean "
    "scalars and reward is not Boolean/integer, for every built-in environment and wrapper (Unknown = undecided, never a violation). "
    "C02.3 no Python-side state: environment and wrapper methods contain no forbidden callee, no attribute/global/module-container "
    "mutation, and every Python `if` branches on static configuration only (tracer safety). C02.4 size accounting: the observation "
    "size computed in __init__ equals the symbolic sum of the sizes of the concatenated parts under every flag combination; G1: the "
    "advertised OBSERVATION_SIZE equals the sum of the part sizes read from jaxtyping annotations. C02.7 the reset state itself (which no clip() "
    "has seen): under the default configuration the literal range initial() draws from, pushed through observation(), lies inside the declared "
    "bounds (interval evaluation over literals and constructor defaults). NOT decided: membership along "
    "trajectories, NaN/finiteness, dtypes in general, action_space.sample (C14). C02.9 decides one dtype clause: the state / observation producers of the "
    "classic-control family and the base classes never pin a bit width (the declared Boxes carry the platform default)."
)
ASSUMPTIONS = [
    "configuration attributes are non-negative where used as symmetric bounds (max_speed, max_vel_*)",
    "body positions (xpos/xipos rows) have 3 components; reshape(-1) of a model field has that field's size",
    "membership of observations along trajectories and finiteness are not decided",
]

ENV_METHODS = ["initial", "transition", "observation", "reward", "terminal", "truncate", "action_mask", "state_info", "transition_info"]
SKIP_METHODS = {"render", "default_renderer", "render_states", "render_stacked", "close"}


def env_classes(P):
    out = []
    for pkg in ("lerax.env.classic_control", "lerax.env.mujoco", "lerax.env.unitree.g1"):
        out += [c for c in P.concrete_exported(pkg) if P.is_subclass(c, P.cls("AbstractEnvLike"))]
    return out


# ----------------------------------------------------------------------------- C02.1
def comp_bound(nz, n, depth=0):
    """Symbolic [lo, hi] (canonical terms) of a scalar node, or None."""
    if not isinstance(n, tuple) or depth > 8:
        return None
    if n[0] == "call" and n[1] == ("global", "jax.numpy.clip") and len(n[2]) == 3 and not n[3]:
        return nz.canon(n[2][1]), nz.canon(n[2][2])
    if n[0] == "call" and n[1] in (("global", "jax.numpy.cos"), ("global", "jax.numpy.sin")):
        return ("k", -1), ("k", 1)
    if n[0] == "bin" and n[1] == "Sub" and isinstance(n[2], tuple) and n[2][0] == "bin" and n[2][1] == "Mod":
        inner, mod = n[2][2], n[2][3]
        if nz.canon(mod) == nz.canon(("bin", "Mult", ("const", 2), n[3])) and isinstance(inner, tuple) and inner[0] == "bin" and inner[1] == "Add" \
                and nz.canon(inner[3]) == nz.canon(n[3]):
            c = nz.canon(n[3])
            return freeze(pneg(nz.poly(n[3]))), c
    if n[0] == "bin" and n[1] == "Mult":
        for a, b in ((n[2], n[3]), (n[3], n[2])):
            ba = comp_bound(nz, a, depth + 1)
            cb = nz.canon(b)
            if ba is not None and isinstance(cb, tuple) and cb and cb[0] in ("B", "cmp"):
                lo, hi = ba
                if freeze(pneg(nz.poly_of_term(lo))) == hi:
                    return ba  # symmetric interval contains 0: masking keeps it
    return None


def vector(nz, n):
    """Components of a jnp.array([...]) / negated / literal vector node, else None."""
    if isinstance(n, tuple) and n[0] == "call" and n[1] in (("global", "jax.numpy.array"), ("global", "jax.numpy.asarray")) and n[2] \
            and isinstance(n[2][0], tuple) and n[2][0][0] in ("list", "tuple"):
        return list(n[2][0][1])
    if isinstance(n, tuple) and n[0] == "un" and n[1] == "USub":
        v = vector(nz, n[2])
        if v is not None:
            return [("un", "USub", x) for x in v]
    return None


def check_bounds(s):
    P = s.prog
    self_ = ("param", "self")
    for cls in ("MountainCar", "ContinuousMountainCar", "Acrobot", "Pendulum", "CartPole"):
        b = s.builder(inline=set())
        nz = Normalizer(b)
        nz.poly_of_term = lambda t, nz=nz: __import__("lerax_sa.norm", fromlist=["thaw"]).thaw(t)
        loc = s.loc(cls, "clip")
        pi = [p for p in live(s.paths(b, cls, "__init__"))]
        if not pi:
            raise AnalysisError(f"{cls}.__init__: no path")
        attrs = pi[0].self_attrs
        space = attrs.get("observation_space")
        f = fields(space)
        lo_n, hi_n = f.get("arg:low"), f.get("arg:high")
        if lo_n is None or hi_n is None:
            raise AnalysisError(f"{cls}: observation_space is not Box(low, high)")
        subst = {("attr", self_, k): v for k, v in attrs.items()}
        lo_v, hi_v = vector(nz, replace_nodes(lo_n, subst)), vector(nz, replace_nodes(hi_n, subst))
        if lo_v is None or hi_v is None:
            raise AnalysisError(f"{cls}: Box bounds are not literal vectors: {show(lo_n, maxlen=80)}")
        pc = one(s.paths(b, cls, "clip"), f"{cls}.clip")
        ycl = pc.ret
        state = ("record", P.cls(cls + "State").qualname, (("y", ycl), ("t", ("param", "$t"))))
        po = one(s.paths(b, cls, "observation", binding={"state": state}), f"{cls}.observation")
        obs = vector(nz, po.ret)
        if obs is None and po.ret == ycl:
            obs = vector(nz, ycl)
        if obs is None:
            if cls == "CartPole":
                obs = [("item", ycl, i) for i in range(len(hi_v))]
            else:
                raise AnalysisError(f"{cls}: observation is not a literal vector of the clipped state")
        if len(obs) != len(hi_v):
            s.ob("C02.1", f"{cls}.observation", False, "observation and space have the same number of components", loc, key="component-count", detail=f"{len(obs)} vs {len(hi_v)}")
            continue
        for i, comp in enumerate(obs):
            hi_c, lo_c = nz.canon(hi_v[i]), nz.canon(lo_v[i])
            finite = hi_c not in (("k", "inf"),) and not (isinstance(hi_c, tuple) and "inf" in repr(hi_c))
            con = f"{cls}.observation[{i}]"
            if not finite:
                s.ob("C02.1", con, True, "component advertised as unbounded", loc)
                continue
            if cls == "CartPole":
                continue
            bd = comp_bound(nz, replace_nodes(comp, subst))
            ok = bd is not None and bd[0] == lo_c and bd[1] == hi_c
            s.ob("C02.1", con, ok, "the component is bounded by construction (clip/wrap/trig) by exactly the bound the space advertises", loc, key="component-bound",
                 detail=f"derived {None if bd is None else (show_term(bd[0], 80), show_term(bd[1], 80))} advertised ({show_term(lo_c, 80)}, {show_term(hi_c, 80)})",
                 necessary_for="a component not clipped with the advertised bound leaves the space under a large enough action sequence")
        if cls == "CartPole":
            # C02.1b: high[i] = factor * threshold_i where terminal applies threshold_i to state component i
            bt = s.builder(inline=set())
            nzt = Normalizer(bt)
            pt = one(s.paths(bt, cls, "terminal"), f"{cls}.terminal")
            ct = nzt.canon(pt.ret)
            pairs = {}

            def collect(t):
                if isinstance(t, tuple):
                    if t and t[0] == "cmp" and t[1] == "LtE":
                        for a, b_ in ((t[2], t[3]), (t[3], t[2])):
                            if isinstance(a, tuple) and a and a[0] == "item" and a[1] == ("attr", ("p", "state"), "y") and isinstance(b_, tuple) and b_[0] == "attr":
                                pairs.setdefault(a[2], set()).add(b_[2])
                    for x in t:
                        collect(x)
            collect(ct)
            for i, hv in enumerate(hi_v):
                hc = nz.canon(hv)
                if hc == ("k", "inf"):
                    continue
                thr = pairs.get(i, set())
                names = {a[1] for a in walk(hv) if isinstance(a, tuple) and a and a[0] == "param"}
                want = {nm for nm in thr}
                ok = bool(thr) and all(attrs.get(nm) is not None and ({a[1] for a in walk(attrs[nm]) if isinstance(a, tuple) and a and a[0] == "param"} & names) for nm in thr)
                p_ = nz.poly(hv)
                factor_ok = len(p_) == 1 and list(p_.values())[0] >= 1
                s.ob("C02.1", f"CartPole.observation_space.high[{i}]", ok and factor_ok,
                     "the finite bound of component i is (a factor >= 1 times) the threshold that terminal() applies to state component i", s.loc(cls, "__init__"),
                     key="threshold-alignment", detail=f"terminal thresholds on y[{i}]: {sorted(thr)}; bound {show_term(hc, 80)}",
                     necessary_for="observation spaces are constructed from the same thresholds the dynamics use")
            s.undecide("C02.1", "CartPole", "finite bounds (2x threshold) are not bounded by construction: clip is the identity; trajectory membership not decided")


# ----------------------------------------------------------------------------- C02.2
def check_kinds(s):
    P = s.prog
    classes = env_classes(P) + P.concrete_exported("lerax.wrapper")
    for ci in classes:
        for meth, want in (("terminal", BOOL), ("truncate", BOOL), ("reward", FLOAT)):
            r = P.resolve_method(ci, meth)
            if r is None:
                continue
            dc, fn = r
            b = s.builder(inline=set())
            try:
                paths = live(b.paths(fn, Ctx(dc.module, dc, fn, ci)))
            except AnalysisError as e:
                raise AnalysisError(f"{ci.name}.{meth}: {e}") from e
            s.functions.add(f"{dc.qualname}.{meth}")
            for p in paths:
                kd = Kinds(P, b, fn, ci, conds=p.conds)
                k, sh = kd.of(p.ret)
                con = f"{ci.name}.{meth}"
                loc = P.loc(dc.module, fn)
                if want == BOOL:
                    if k in (FLOAT, INT):
                        s.ob("C02.2", con, False, f"{meth} returns a Boolean", loc, key="not-boolean", detail=f"{k}/{sh}: {show(p.ret, maxlen=160)}",
                             necessary_for="terminal and truncated are boolean scalars")
                    elif k == BOOL:
                        s.ob("C02.2", con, True, f"{meth} returns a Boolean ({sh})", loc)
                    else:
                        s.undecide("C02.2", con, f"kind {k}/{sh}")
                        s.ob("C02.2", con, True, f"{meth}: no non-Boolean construct found (kind undecided)", loc)
                else:
                    if k in (BOOL, INT):
                        s.ob("C02.2", con, False, "reward is a float (not a Boolean or integer)", loc, key="reward-not-float", detail=f"{k}/{sh}: {show(p.ret, maxlen=160)}",
                             necessary_for="rewards are finite float scalars")
                    elif k == FLOAT:
                        s.ob("C02.2", con, True, f"reward is a float ({sh})", loc)
                    else:
                        s.undecide("C02.2", con, f"kind {k}/{sh}")
                        s.ob("C02.2", con, True, "reward: no Boolean/integer construct found (kind undecided)", loc)


# ----------------------------------------------------------------------------- C02.3
def check_purity(s, rule="C02.3"):
    P = s.prog

    def in_scope(m):
        return m.name.startswith(("lerax.env.classic_control", "lerax.env.mujoco", "lerax.env.unitree", "lerax.wrapper")) or m.name == "lerax.env.base_env"

    n_fn = 0
    for m, ci, qual, fn in functions_of(P, module_filter=in_scope):
        name = fn.name
        if name in SKIP_METHODS or name.startswith("_init") or name == "__init__":
            continue
        n_fn += 1
        hits = [h for h in scan_function(P, m, qual, fn) if h.kind in ("forbidden-callee", "attribute-assignment", "global-state", "dict-access", "setattr", "constant-key", "item-assignment", "memoization", "host-callback")
                and not (h.kind == "host-callback" and m.name.startswith("lerax.compatibility"))]
        md = mutable_default_mutation(fn) + cell_var_from_loop(fn)
        s.ob(rule, qual.replace("lerax.", ""), not md, "no state shared between calls through a mutable default argument, no function value reading a loop variable late", P.loc(m, fn),
             key="shared-python-state", detail="; ".join(md[:3]), necessary_for="signals depend only on explicit arguments, not on Python-side state")
        pb = python_bool_on_arrays(P, m, fn)
        s.ob(rule, qual.replace("lerax.", ""), not pb, "no Python and/or/not over an array value (it yields a Python bool, not a Bool array, and fails under jit)", P.loc(m, fn),
             key="python-bool-on-array", detail="; ".join(pb[:3]), necessary_for="terminal and truncated are boolean scalars (arrays) for every constructor configuration; eager, jit and vmap agree")
        s.ob(rule, qual.replace("lerax.", ""), not hits, "no ambient effect: no clock/RNG/environment callee, no attribute, item or global mutation, no constant key", P.loc(m, fn), key="ambient-effect",
             detail="; ".join(str(h) for h in hits), necessary_for="signals depend only on explicit arguments, not on Python-side state")
    for m in P.modules.values():
        if in_scope(m):
            hits = module_level_state(P, m)
            s.ob(rule, m.name.replace("lerax.", "") + ":<module>", not hits, "no module-level container is mutated by a function", m.relpath, key="module-state", detail="; ".join(str(h) for h in hits))
    s.notes.append(f"{rule}: {n_fn} environment/wrapper functions scanned")
    # positive controls (outside the scope: the matcher must see them)
    ctrl = []
    for m, ci, qual, fn in functions_of(P, module_filter=lambda m: m.name in ("lerax.env.base_env", "lerax.callback.logging.callback", "lerax.compatibility.gymnax")):
        if fn.name in ("render_states", "__init__", "get_obs"):
            ctrl += [h for h in scan_function(P, m, qual, fn, allow_self_assign=True) if h.kind in ("forbidden-callee", "constant-key")]
    names = {h.what.split("(")[0] for h in ctrl}
    s.control(f"{rule} effects seen in the repository outside the scope (rendering, logging, adapters): {sorted(names)}")
    from ..effects import control_armed, positive_control
    armed, cnames = control_armed(positive_control(P))
    s.control(f"{rule} matcher armed on the fixed sample: {cnames}")
    if not armed:
        raise AnalysisError(f"{rule}: positive controls not matched ({cnames}): the effect matcher is not armed")
    # tracer safety: every Python branch in an env method is on static configuration
    classes = env_classes(P) + P.concrete_exported("lerax.wrapper")
    for ci in classes:
        for meth in ENV_METHODS:
            r = P.resolve_method(ci, meth)
            if r is None:
                continue
            dc, fn = r
            b = s.builder(inline=lambda kind, name, cls: kind in ("method", "property", "function") and not name.endswith((".__init__",)), max_depth=3)
            try:
                paths = b.paths(fn, Ctx(dc.module, dc, fn, ci), max_paths=600)
            except AnalysisError as e:
                raise AnalysisError(f"{ci.name}.{meth}: {e}") from e
            dyn = set()
            params = {a.arg for a in fn.args.posonlyargs + fn.args.args + fn.args.kwonlyargs} - {"self"}
            for p in paths:
                for t, v in p.conds:
                    used = {x[1] for x in walk(t) if isinstance(x, tuple) and x and x[0] == "param"}
                    if used & params:
                        # `mask is None` style tests on optional static arguments are static
                        if isinstance(t, tuple) and t[0] == "cmp" and t[1] in ("Is", "IsNot") and t[3] == NONE:
                            continue
                        dyn.add(show(t, maxlen=100))
            s.ob(rule, f"{ci.name}.{meth}[branches]", not dyn, "every Python `if` in the method branches on static configuration only (tracer-safe)", P.loc(dc.module, fn), key="dynamic-branch",
                 detail="; ".join(sorted(dyn)), necessary_for="the function gives the same result eagerly, under jit and under vmap")


# ----------------------------------------------------------------------------- C02.4
# MuJoCo model facts (documented array sizes): these per-dof arrays all have nv entries, like qvel
NV_FIELDS = {"qvel": "qvel", "qfrc_actuator": "qvel", "qfrc_constraint": "qvel", "qacc": "qvel", "qfrc_applied": "qvel"}
ONE_D = {"qpos", "qvel", "ctrl", "act"} | set(NV_FIELDS)


def field_size(name, slc):
    """Element count of data.<name>[slc].reshape(-1) as a polynomial over N(field) atoms."""
    from ..norm import padd, patom
    base = NV_FIELDS.get(name, name)
    if slc is None:
        return patom(("N", base))
    lo, hi, st = slc[1], slc[2], slc[3]
    if st == NONE and hi == NONE and lo[0] == "const" and isinstance(lo[1], int) and lo[1] >= 0:
        if name in ONE_D:
            return padd(patom(("N", base)), pconst(-lo[1]))
        return patom(("N", name, f"{lo[1]}:"))
    return None


def size_of(nz, n, depth=0):
    """Symbolic element count of a 1-D observation part (polynomial over N(field) atoms) or None."""
    from ..norm import padd, patom
    if not isinstance(n, tuple) or depth > 10:
        return None
    if n[0] == "call":
        f = n[1]
        if isinstance(f, tuple) and f[0] == "attr" and f[2] == "reshape" and n[2] == (("const", -1),):
            base = f[1]

            def unclip(x):
                while isinstance(x, tuple) and x[0] == "call" and x[1] == ("global", "jax.numpy.clip") and x[2]:
                    x = x[2][0]
                return x

            base = unclip(base)
            if isinstance(base, tuple) and base[0] == "attr":
                return field_size(base[2], None)
            if isinstance(base, tuple) and base[0] == "sub" and base[2][0] == "slice":
                inner = unclip(base[1])
                if isinstance(inner, tuple) and inner[0] == "attr":
                    return field_size(inner[2], base[2])
            return size_of(nz, base, depth + 1)
        if f in (("global", "jax.numpy.clip"), ("global", "jax.numpy.sin"), ("global", "jax.numpy.cos"), ("global", "jax.numpy.tanh")) and n[2]:
            return size_of(nz, n[2][0], depth + 1)
        if f == ("global", "jax.numpy.zeros") and n[2] and n[2][0] == ("tuple", (("const", 0),)):
            return {}
    if n[0] == "sub" and n[2][0] == "slice":
        lo, hi, st = n[2][1], n[2][2], n[2][3]
        if st != NONE:
            return None
        if hi == NONE and lo[0] == "const" and isinstance(lo[1], int) and lo[1] >= 0:
            b_ = size_of(nz, n[1], depth + 1)
            return None if b_ is None else padd(b_, pconst(-lo[1]))
        if lo == NONE and hi[0] == "const" and isinstance(hi[1], int) and hi[1] >= 0:
            return pconst(hi[1])
    if n[0] in ("sub", "item") and isinstance(n[1], tuple) and n[1][0] == "attr" and n[1][2] in ("xpos", "xipos", "site_xpos", "subtree_com"):
        idx = n[2]
        if not (isinstance(idx, tuple) and idx and idx[0] == "slice"):
            return pconst(3)
    if n[0] == "bin" and n[1] in ("Add", "Sub"):
        a, b_ = size_of(nz, n[2], depth + 1), size_of(nz, n[3], depth + 1)
        if a is not None and a == b_:
            return a
    return None


def model_sizes(P, ci):
    """Sizes of the class's default MJCF asset (the `xml_file` default of its __init__)."""
    from .. import mjcf
    r = P.resolve_method(ci, "__init__")
    a = r[1].args
    for prm, d in zip(a.kwonlyargs, a.kw_defaults):
        if prm.arg == "xml_file" and isinstance(d, ast.Constant) and isinstance(d.value, str):
            return mjcf.sizes(d.value, P)
    pos = a.posonlyargs + a.args
    for prm, d in zip(pos[len(pos) - len(a.defaults):], a.defaults):
        if prm.arg == "xml_file" and isinstance(d, ast.Constant) and isinstance(d.value, str):
            return mjcf.sizes(d.value, P)
    raise AnalysisError(f"{ci.name}.__init__: no literal default for xml_file")


def eval_size(poly, msz):
    """Value of a size polynomial over N(field) atoms under the model sizes (None when an atom has no documented size)."""
    per_body = {"cinert": 10, "cvel": 6, "cfrc_ext": 6, "xpos": 3, "xipos": 3, "cacc": 6}
    tot = 0
    for mono, coef in poly.items():
        v = coef
        for atom, e in mono:
            if not (isinstance(atom, tuple) and atom and atom[0] == "N"):
                return None
            if len(atom) == 2:
                n = {"qpos": msz["nq"], "qvel": msz["nv"], "ctrl": msz["nu"]}.get(atom[1])
                if n is None and atom[1] in per_body:
                    n = msz["nbody"] * per_body[atom[1]]
            else:
                lo = int(atom[2].rstrip(":"))
                n = (msz["nbody"] - lo) * per_body[atom[1]] if atom[1] in per_body else None
            if n is None:
                return None
            v = v * n ** e
        tot += v
    return int(tot) if tot == int(tot) else None


def init_size(nz, n, depth=0):
    """Size expression computed in __init__ over mj_data.<F>.size -> same atoms."""
    from ..norm import padd, patom, pmul
    if not isinstance(n, tuple) or depth > 12:
        return None
    if n[0] == "const" and isinstance(n[1], int):
        return pconst(n[1])
    if n[0] == "attr" and n[2] == "size":
        base = n[1]
        if isinstance(base, tuple) and base[0] == "attr":
            return field_size(base[2], None)
        if isinstance(base, tuple) and base[0] == "sub" and isinstance(base[1], tuple) and base[1][0] == "attr" and base[2][0] == "slice":
            return field_size(base[1][2], base[2])
    if n[0] == "bin" and n[1] in ("Add", "Sub"):
        a, b_ = init_size(nz, n[2], depth + 1), init_size(nz, n[3], depth + 1)
        if a is None or b_ is None:
            return None
        return padd(a, b_ if n[1] == "Add" else pneg(b_))
    if n[0] == "call" and n[1] == ("global", "int") and len(n[2]) == 1:
        return init_size(nz, n[2][0], depth + 1)
    if n[0] == "call" and n[1] == ("global", "sum") and len(n[2]) in (1, 2) and not n[3] and isinstance(n[2][0], tuple) and n[2][0][0] in ("list", "tuple"):
        # sum over a displayed (statically unrolled) sequence of block sizes, optionally from a start value
        from ..norm import padd as _padd
        tot = init_size(nz, n[2][1], depth + 1) if len(n[2]) == 2 else {}
        for x in n[2][0][1]:
            if isinstance(x, tuple) and x and x[0] == "star":
                return None
            sx = init_size(nz, x, depth + 1)
            if sx is None or tot is None:
                return None
            tot = _padd(tot, sx)
        return tot
    return None


def check_sizes(s):
    P = s.prog
    self_ = ("param", "self")
    for ci in [c for c in P.concrete_exported("lerax.env.mujoco") if P.is_subclass(c, P.cls("AbstractEnvLike"))]:
        b = s.builder(inline=set())
        nz = Normalizer(b)
        loc = s.loc(ci.name, "__init__")
        r = P.resolve_method(ci, "__init__")
        init_paths = live(b.paths(r[1], Ctx(r[0].module, r[0], r[1], ci), max_paths=600))
        ro = P.resolve_method(ci, "observation")
        s.functions.add(f"{ci.qualname}.__init__")
        n_cases = 0
        for ip in init_paths:
            space = ip.self_attrs.get("observation_space")
            fulls = [c for c in walk(space) if isinstance(c, tuple) and c and c[0] == "call" and c[1] == ("global", "jax.numpy.full") and c[2] and isinstance(c[2][0], tuple) and c[2][0][0] == "tuple"] if space is not None else []
            if len(fulls) < 1:
                raise AnalysisError(f"{ci.name}.__init__: cannot find the observation-size expression")
            osz = init_size(nz, fulls[0][2][0][1][0])
            # flag decisions of this path, keyed by attribute name
            flags = {}
            for name, val in ip.self_attrs.items():
                for t, v in ip.conds:
                    if t == val:
                        flags[name] = v
            fixed = {("attr", self_, k): v for k, v in flags.items()}
            bo = s.builder(inline=lambda kind, name, cls: kind == "method" and name.split(".")[-1] in ("clipped_contact_forces",), max_depth=2)
            ops = live(bo.paths(ro[1], Ctx(ro[0].module, ro[0], ro[1], ci), fixed=fixed))
            ops = [p for p in ops if all(fixed.get(t, v) == v for t, v in p.conds)]
            if not ops:
                raise AnalysisError(f"{ci.name}.observation: no path under flags {flags}")
            for op_ in ops:  # a flag that gates a part but not the size leaves several paths: each must agree
                ret = op_.ret
                parts = ret[2][0][1] if isinstance(ret, tuple) and ret[0] == "call" and ret[1] == ("global", "jax.numpy.concatenate") and ret[2] and ret[2][0][0] in ("tuple", "list") else None
                tag = "[" + ",".join(f"{k.replace('_in_observation','').replace('_from_observation','')}={v}" for k, v in sorted(flags.items()) if "observation" in k) + "]"
                con = f"{ci.name}{tag}"
                if parts is None:
                    raise AnalysisError(f"{ci.name}.observation: not a concatenation")
                from ..norm import padd
                total = {}
                unknown = []
                for pt in parts:
                    sz = size_of(nz, pt)
                    if sz is None:
                        unknown.append(show(pt, maxlen=60))
                    else:
                        total = padd(total, sz)
                n_cases += 1
                if osz is None or unknown:
                    s.undecide("C02.4", con, f"size not symbolic: init {None if osz is None else show_term(freeze(osz))}; parts {unknown}")
                    continue
                a, c = freeze(total), freeze(osz)
                consts_only = a[0] == "k" and c[0] == "k"
                mixed = (a[0] == "k") != (c[0] == "k")
                if mixed:
                    # one side is a literal: evaluate the other with the model sizes read from the default MJCF asset
                    msz = model_sizes(P, ci)
                    va, vc = eval_size(total, msz), eval_size(osz, msz)
                    if va is None or vc is None:
                        s.undecide("C02.4", con, f"advertised size {show_term(c)} is a literal while the parts sum to {show_term(a)} (no model size for an atom)")
                        continue
                    s.ob("C02.4", con, va == vc, "the advertised (literal) observation size equals the summed part sizes evaluated with the sizes of the default MJCF model", loc, key="obs-size-literal",
                         detail=f"parts: {show_term(a, 200)} = {va} with {msz}; advertised: {vc}", necessary_for="observations have the shape of the declared observation space")
                    continue
                s.ob("C02.4", con, a == c, "the advertised observation size equals the summed sizes of the concatenated parts under this flag combination", loc, key="obs-size",
                     detail=f"parts: {show_term(a, 200)}; advertised: {show_term(c, 200)}", necessary_for="observations have the shape of the declared observation space")
        if n_cases == 0:
            raise AnalysisError(f"{ci.name}: no constructor case analysed")
    # G1: advertised size equals the sum of annotated part sizes
    for ci in [c for c in P.concrete_exported("lerax.env.unitree.g1") if P.is_subclass(c, P.cls("AbstractEnvLike"))]:
        mod = ci.module
        const = mod.assigns.get("OBSERVATION_SIZE")
        ro = P.resolve_method(ci, "observation")
        ret_ann = ro[1].returns
        k, sh = ann_kind_shape(ret_ann)
        dim = None
        if isinstance(ret_ann, ast.Subscript) and isinstance(ret_ann.slice, ast.Tuple) and isinstance(ret_ann.slice.elts[1], ast.Constant):
            dim = str(ret_ann.slice.elts[1].value).strip()
        bo = s.builder(inline=set())
        po = one(bo.paths(ro[1], Ctx(ro[0].module, ro[0], ro[1], ci)), f"{ci.name}.observation")
        ret = po.ret
        parts = ret[2][0][1] if isinstance(ret, tuple) and ret[0] == "call" and ret[1] == ("global", "jax.numpy.concatenate") else None
        total = 0
        unknown = []

        def alen(n, depth=0):
            if not isinstance(n, tuple) or depth > 8:
                return None
            if n[0] == "bin" and n[1] in ("Add", "Sub"):
                return alen(n[2], depth + 1) or alen(n[3], depth + 1)
            ann = None
            if n[0] == "call" and isinstance(n[1], tuple) and n[1][0] == "attr" and n[1][1] == ("param", "self"):
                rr = P.resolve_method(ci, n[1][2])
                ann = rr[1].returns if rr else None
            elif n[0] == "call" and isinstance(n[1], tuple) and n[1][0] == "global":
                modn, _, fnn = n[1][1].rpartition(".")
                mm = P.modules.get(modn)
                ann = mm.functions[fnn].returns if mm and fnn in mm.functions else None
            elif n[0] == "attr":
                t = bo.type_of(n[1])
                if t is not None:
                    ra = P.resolve_attr(t, n[2])
                    ann = ra[2].annotation if ra and ra[0] == "field" else None
            if isinstance(ann, ast.Subscript) and isinstance(ann.slice, ast.Tuple) and isinstance(ann.slice.elts[1], ast.Constant):
                try:
                    return int(str(ann.slice.elts[1].value).strip())
                except ValueError:
                    return None
            return None

        if parts is None:
            raise AnalysisError(f"{ci.name}.observation: not a concatenation")
        for pt in parts:
            ln = alen(pt)
            if ln is None:
                unknown.append(show(pt, maxlen=60))
            else:
                total += ln
        cval = const.value if isinstance(const, ast.Constant) else None
        con = f"{ci.name}.OBSERVATION_SIZE"
        if unknown:
            s.undecide("C02.4", con, f"parts without a sized annotation: {unknown}")
        else:
            s.ob("C02.4", con, cval == total and dim == str(total), "OBSERVATION_SIZE == sum of the annotated part sizes == annotated observation length", s.loc(ci.name, "observation"),
                 key="g1-obs-size", detail=f"constant {cval}, parts sum {total}, annotation {dim}", necessary_for="observation sizes are computed consistently with what is concatenated")


def check_declared_boxes(s, rule="C02.6", classes=None):
    """A declared Box must have low <= high, or nothing is a member of it (no sampled action is accepted, no observation is inside).
    Decided for the shapes the environments use: the two columns of one actuator-range array (low = X[:, 0], high = X[:, 1]), a
    symmetric box (low = -H, high = H with H a positive multiple of one term: `full(n, inf)`, an array of thresholds, `inf`), and
    literal bounds. Any other shape is counted as undecided, not reported."""
    from ..norm import Normalizer as _N, pneg
    P = s.prog
    if classes is None:
        from .C17 import MUJOCO
        classes = list(MUJOCO) + ["G1Locomotion", "G1Standing", "G1Standup", "CartPole", "MountainCar", "ContinuousMountainCar", "Acrobot", "Pendulum"]
    b = s.builder(inline={"_init_common"})
    nz = _N(b)
    n = 0
    for cls in classes:
        if not P.by_name.get(cls):
            raise AnalysisError(f"anchor class {cls} vanished")
        loc = s.loc(cls, "__init__")
        seen = set()
        for p in live(s.paths(b, cls, "__init__")):
            for attr in ("action_space", "observation_space"):
                v = p.self_attrs.get(attr)
                if not (isinstance(v, tuple) and v and v[0] == "record" and v[1].endswith(".Box")):
                    continue
                f = fields(v)
                lo, hi = f.get("arg:low"), f.get("arg:high")
                if lo is None or hi is None or (attr, lo, hi) in seen:
                    continue
                seen.add((attr, lo, hi))
                plo, phi = nz.poly(lo), nz.poly(hi)
                verdict = None
                # literal bounds
                if (not plo or list(plo) == [()]) and (not phi or list(phi) == [()]):
                    verdict = (plo.get((), 0) <= phi.get((), 0), "literal bounds with low <= high")
                # the two columns of one array
                elif isinstance(lo, tuple) and isinstance(hi, tuple) and lo and hi and lo[0] == "sub" and hi[0] == "sub" and lo[1] == hi[1]:
                    col = lambda ix: ix[1][1][1] if isinstance(ix, tuple) and ix[0] == "tuple" and len(ix[1]) == 2 and ix[1][1][0] == "const" else None  # noqa: E731
                    c0, c1 = col(lo[2]), col(hi[2])
                    if c0 is not None and c1 is not None:
                        verdict = ((c0, c1) == (0, 1), "low / high are columns 0 / 1 of the same range array")
                # symmetric box: low = -H, high = +H
                elif plo and plo == pneg(phi):
                    pos = all(c > 0 for c in phi.values())
                    neg = all(c < 0 for c in phi.values())
                    if pos or neg:
                        verdict = (pos, "symmetric box: high is the positive term, low its negation")
                if verdict is None:
                    s.undecide(rule, f"{cls}.{attr}", f"bounds of another shape: low={show(lo, maxlen=80)} high={show(hi, maxlen=80)}")
                    continue
                n += 1
                s.ob(rule, f"{cls}.__init__.{attr}", verdict[0], f"the declared {attr} is a well-ordered Box ({verdict[1]})", loc, key=f"box-ordered-{attr}",
                     detail=f"low={show(lo, maxlen=120)}; high={show(hi, maxlen=120)}",
                     necessary_for="sampled actions are members of the declared action space and observations lie within the declared bounds (an inverted Box has no members)")
    return n


# ----------------------------------------------------------------------------- C02.7
def _num_ast(e):
    """a constructor default written as a numeric expression (literals, pi, + - * / **), or None"""
    import math
    if isinstance(e, ast.Constant) and isinstance(e.value, (int, float)) and not isinstance(e.value, bool):
        return float(e.value)
    if isinstance(e, ast.Attribute) and e.attr in ("pi", "inf") and isinstance(e.value, ast.Name):
        return math.pi if e.attr == "pi" else math.inf
    if isinstance(e, ast.UnaryOp) and isinstance(e.op, (ast.USub, ast.UAdd)):
        v = _num_ast(e.operand)
        return None if v is None else (-v if isinstance(e.op, ast.USub) else v)
    if isinstance(e, ast.BinOp):
        a, b = _num_ast(e.left), _num_ast(e.right)
        if a is None or b is None:
            return None
        f = {ast.Add: lambda: a + b, ast.Sub: lambda: a - b, ast.Mult: lambda: a * b, ast.Div: lambda: a / b, ast.Pow: lambda: a ** b}.get(type(e.op))
        try:
            return None if f is None else f()
        except (OverflowError, ZeroDivisionError, ValueError):
            return None
    return None


def _num(n, env, attrs, depth=0):
    """numeric value (float, or list of floats for a literal vector) of a node under the default configuration, or None"""
    import math
    if depth > 12 or not isinstance(n, tuple) or not n:
        return None
    if n[0] == "const":
        return float(n[1]) if isinstance(n[1], (int, float)) and not isinstance(n[1], bool) else None
    if n[0] == "param":
        return env.get(n[1])
    if n[0] == "global":
        return {"jax.numpy.pi": math.pi, "math.pi": math.pi, "numpy.pi": math.pi, "jax.numpy.inf": math.inf, "math.inf": math.inf, "numpy.inf": math.inf}.get(n[1])
    if n[0] == "attr" and n[1] == ("param", "self"):
        return _num(attrs[n[2]], env, attrs, depth + 1) if n[2] in attrs else None
    if n[0] in ("list", "tuple"):
        vs = [_num(x, env, attrs, depth + 1) for x in n[1]]
        return None if any(v is None or isinstance(v, list) for v in vs) else vs
    if n[0] == "call" and n[1] in (("global", "jax.numpy.array"), ("global", "jax.numpy.asarray"), ("global", "float")) and n[2]:
        return _num(n[2][0], env, attrs, depth + 1)
    if n[0] == "un" and n[1] in ("USub", "UAdd"):
        v = _num(n[2], env, attrs, depth + 1)
        if v is None or n[1] == "UAdd":
            return v
        return [-x for x in v] if isinstance(v, list) else -v
    if n[0] == "bin" and n[1] in ("Add", "Sub", "Mult", "Div", "Pow"):
        a, b = _num(n[2], env, attrs, depth + 1), _num(n[3], env, attrs, depth + 1)
        if a is None or b is None:
            return None
        f = {"Add": lambda x, y: x + y, "Sub": lambda x, y: x - y, "Mult": lambda x, y: x * y, "Div": lambda x, y: x / y, "Pow": lambda x, y: x ** y}[n[1]]
        try:
            if isinstance(a, list) or isinstance(b, list):
                la = a if isinstance(a, list) else [a] * len(b)
                lb = b if isinstance(b, list) else [b] * len(la)
                return [f(x, y) for x, y in zip(la, lb)] if len(la) == len(lb) else None
            return f(a, b)
        except (ZeroDivisionError, OverflowError, ValueError):
            return None
    return None


UNIFORM_SIG = ("key", "shape", "dtype", "minval", "maxval")


def _uniform_range(n, env, attrs):
    """(lo, hi, size) of a jax.random.uniform call under the default configuration (size None = scalar draw), or None"""
    if not (isinstance(n, tuple) and n and n[0] == "call" and n[1] == ("global", "jax.random.uniform")):
        return None
    a = dict(zip(UNIFORM_SIG, n[2]))
    a.update({k: v for k, v in n[3] if k is not None})
    lo = _num(a["minval"], env, attrs) if "minval" in a else 0.0
    hi = _num(a["maxval"], env, attrs) if "maxval" in a else 1.0
    size = None
    if "shape" in a:
        sh = a["shape"]
        if isinstance(sh, tuple) and sh[0] in ("tuple", "list"):
            dims = [_num(x, env, attrs) for x in sh[1]]
            if len(dims) > 1 or any(d is None for d in dims):
                return None
            size = int(dims[0]) if dims else None
        else:
            return None
    if lo is None or hi is None:
        return None
    return lo, hi, size


def check_initial_inside(s, rule="C02.7"):
    """"the observation of every state reachable from a reset" starts with the reset state itself, which no clip() has seen: under the
    DEFAULT configuration the range initial() draws the state from, pushed through observation() (cos / sin -> [-1, 1], a state
    component -> its range), lies inside the declared observation_space. Interval evaluation over literal ranges and constructor
    defaults only; anything else is counted as undecided."""
    P = s.prog
    self_ = ("param", "self")
    for cls in ("MountainCar", "ContinuousMountainCar", "Acrobot", "Pendulum", "CartPole"):
        b = s.builder(inline=set())
        nz = Normalizer(b)
        init = P.cls(cls).methods.get("__init__")
        if init is None:
            raise AnalysisError(f"{cls}.__init__ vanished")
        pos = init.args.posonlyargs + init.args.args
        env = {}
        for a, d in zip(pos[len(pos) - len(init.args.defaults):], init.args.defaults):
            v = _num_ast(d)
            if v is not None:
                env[a.arg] = v
        for a, d in zip(init.args.kwonlyargs, init.args.kw_defaults):
            v = _num_ast(d) if d is not None else None
            if v is not None:
                env[a.arg] = v
        pi = live(s.paths(b, cls, "__init__"))
        if not pi:
            raise AnalysisError(f"{cls}.__init__: no path")
        attrs = pi[0].self_attrs
        f = fields(attrs.get("observation_space"))
        lo_b, hi_b = _num(f.get("arg:low"), env, attrs), _num(f.get("arg:high"), env, attrs)
        loc = s.loc(cls, "initial")
        if not isinstance(lo_b, list) or not isinstance(hi_b, list) or len(lo_b) != len(hi_b):
            s.undecide(rule, cls, "the declared bounds have no numeric value under the default configuration")
            continue
        p0 = one(s.paths(b, cls, "initial"), f"{cls}.initial")
        y = fields(p0.ret).get("y") if isinstance(p0.ret, tuple) and p0.ret and p0.ret[0] == "record" else None
        if y is None:
            raise AnalysisError(f"{cls}.initial does not build a state record with a field y")
        # ranges of the components of y
        ranges = None
        u = _uniform_range(y, env, attrs)
        if u is not None and u[2] is not None:
            lo, hi, k = u
            la = lo if isinstance(lo, list) else [lo] * k
            ha = hi if isinstance(hi, list) else [hi] * k
            if len(la) == k and len(ha) == k:
                ranges = list(zip(la, ha))
        elif isinstance(y, tuple) and y[0] == "call" and y[1] in (("global", "jax.numpy.asarray"), ("global", "jax.numpy.array")) and y[2] and y[2][0][0] in ("list", "tuple"):
            ranges = []
            for c in y[2][0][1]:
                uc = _uniform_range(c, env, attrs)
                v = _num(c, env, attrs)
                if uc is not None and uc[2] is None and not isinstance(uc[0], list) and not isinstance(uc[1], list):
                    ranges.append((uc[0], uc[1]))
                elif isinstance(v, float):
                    ranges.append((v, v))
                else:
                    ranges = None
                    break
        if ranges is None:
            s.undecide(rule, cls, f"the initial state is not a literal uniform draw: {show(y, maxlen=100)}")
            continue
        state = ("record", P.cls(cls + "State").qualname, (("y", y), ("t", ("param", "$t"))))
        po = one(s.paths(b, cls, "observation", binding={"state": state}), f"{cls}.observation")
        obs = vector(nz, po.ret)
        if obs is None and po.ret == y:
            obs = [("item", y, i) for i in range(len(ranges))]
        if obs is None or len(obs) != len(hi_b):
            s.undecide(rule, cls, f"the observation of the initial state is not a literal vector of {len(hi_b)} components: {show(po.ret, maxlen=100)}")
            continue
        ycomps = list(y[2][0][1]) if ranges is not None and u is None else None

        def interval(c):
            if isinstance(c, tuple) and c and c[0] == "item" and c[1] == y and isinstance(c[2], int) and 0 <= c[2] < len(ranges):
                return ranges[c[2]]
            if ycomps is not None and c in ycomps:
                return ranges[ycomps.index(c)]
            if isinstance(c, tuple) and c and c[0] == "call" and c[1] in (("global", "jax.numpy.cos"), ("global", "jax.numpy.sin")):
                return (-1.0, 1.0)
            v = _num(c, env, attrs)
            return (v, v) if isinstance(v, float) else None

        for i, c in enumerate(obs):
            iv = interval(c)
            con = f"{cls}.initial -> observation[{i}]"
            if iv is None:
                s.undecide(rule, con, f"no interval for {show(c, maxlen=80)}")
                continue
            iv = (min(iv), max(iv))  # an inverted uniform range still draws from within its two ends
            ok = lo_b[i] <= iv[0] and iv[1] <= hi_b[i]
            s.ob(rule, con, ok, "under the default configuration the reset state's observation component lies inside the declared bounds", loc, key="initial-inside",
                 detail=f"initial range [{iv[0]:g}, {iv[1]:g}], declared [{lo_b[i]:g}, {hi_b[i]:g}]",
                 necessary_for="the observation of every state reachable from a reset - the reset state first - is a member of the declared observation space")


def check(s):
    check_bounds(s)
    check_initial_inside(s)
    check_declared_boxes(s)
    check_kinds(s)
    check_purity(s)
    check_sizes(s)
    # ---------------------------------------------------------------- C02.5 wrapper stacks: declared space vs what the wrapper emits
    # "every wrapper stack over one": a wrapper's declared observation/action space has to be the image of the inner space under
    # exactly the map it applies to observations/actions (rescale: one (gradient, intercept) pair builds the new box AND the map;
    # clip: the bounds clipped to are the bounds declared), untouched spaces are the inner ones, and the emitted observation is the
    # inner observation passed through that map only.
    from .C13 import check_constructors, check_delegation, check_rescale, check_spaces
    check_spaces(s, "C02.5")
    check_rescale(s, "C02.5")
    check_constructors(s, "C02.5")
    check_delegation(s, "C02.5", ["observation", "action_mask", "initial", "transition", "reward", "transition_info"])
    # ---------------------------------------------------------------- C02.8 "sampled actions ... are accepted": a control step of a classic-control
    # environment hands the solver exactly the configured solver / step-size controller / interval and nothing else - an extra limit
    # (max_steps, a tighter tolerance, throw on event) makes a valid action raise for the configurations that need more solver work
    from .C17 import check_integration
    check_integration(s, "C02.8")
    # ---------------------------------------------------------------- C02.9 "shape and dtype": the declared Boxes carry the platform's default float
    # width (float32, float64 under 64-bit mode), and so do initial states; the functions that produce states and observations
    # (initial, dynamics, clip, transition, observation - of the classic-control family and of the base classes) must therefore not pin
    # a bit width: a state cast to jnp.float32 is a non-member of the float64 space it is declared in, and its auto-reset cond over
    # (fresh float64 state, stepped float32 state) does not trace, so a valid action is rejected
    from ..effects import pinned_width_literals
    PRODUCERS = ("initial", "dynamics", "clip", "transition", "observation", "reset", "step")
    n9 = 0
    for m in sorted(s.prog.modules.values(), key=lambda m_: m_.name):
        if not (m.name.startswith("lerax.env.classic_control") or m.name == "lerax.env.base_env"):
            continue
        for ci in m.classes.values():
            for mname in PRODUCERS:
                fn = ci.methods.get(mname)
                if fn is None:
                    continue
                n9 += 1
                pins = pinned_width_literals(fn)
                s.ob("C02.9", f"{ci.name}.{mname}", not pins, "states and observations are produced at the platform's default width (the width of the declared spaces), never cast to a pinned one",
                     s.prog.loc(m, fn), key="pinned-width", detail="; ".join(pins[:3]), necessary_for="every observation has the dtype of the declared observation space in every configuration; sampled actions are accepted")
    if pinned_width_literals(ast.parse("def transition(self, state):\n    return state.y.astype(jnp.float32)\n")) == []:
        raise AnalysisError("C02.9: the positive control (astype(jnp.float32)) is not recognised")
    s.controls.append("C02.9 positive control: .astype(jnp.float32) in a synthetic transition is recognised as a pinned width")
    for r_, n_ in (("C02.9", 20), ("C02.1", 14), ("C02.2", 80), ("C02.3", 300), ("C02.4", 20), ("C02.5", 60), ("C02.6", 20), ("C02.7", 17)):
        s.floor(r_, n_)
