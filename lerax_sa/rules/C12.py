"""C12 — JAX transformations are transparent; parallel environments never mix."""
from __future__ import annotations

import ast
import os

from ..effects import functions_of, scan_function
from ..model import AnalysisError, ModuleInfo
from ..norm import Normalizer
from ..vgraph import NONE, Closure, show, walk
from .C02 import check_purity
from .util import bind_args, live

EXPLANATION = (
    "C12.1 (shared with C02.3) every environment and wrapper method is free of ambient effects and branches only on static "
    "configuration, so eager, jit and vmap evaluate the same expression. C12.2 vmap structure of parallel collection: in all four "
    "iteration bodies and both resets every vmapped call has in_axes aligned with its arguments — the per-environment step state and "
    "anything produced by an earlier vmapped call map over axis 0 (0 or eqx.if_array(0)), keys are jr.split(k, self.num_envs) mapped "
    "over axis 0, and env / policy / callback / sizes are broadcast (None). C12.3 no named-axis collective (psum, pmean, all_gather, "
    "axis_name=, ...) occurs anywhere in the package's algorithm, buffer, policy, environment or wrapper code (positive control in "
    "controls/). Under vmap a function can observe other batch members only through such collectives, so C12.2 and C12.3 with C03.7 "
    "give 'nothing crosses environments' from vmap's contract. Numerical agreement of eager/jit/vmap results is NOT decided."
)
ASSUMPTIONS = [
    "jax.vmap / eqx.filter_vmap evaluate the mapped function independently per batch member unless a named-axis collective is used",
    "numerical agreement of eager, jit and vmap executions (floating-point reassociation) is not decided",
]


def check(s):
    P = s.prog
    self_ = ("param", "self")
    check_purity(s, "C12.1")
    # ---------------------------------------------------------------- C12.2
    targets = [("PPO", "iteration"), ("AbstractOffPolicyAlgorithm", "iteration"), ("DQN", "iteration"), ("SAC", "iteration"), ("PPO", "reset"), ("DQN", "reset"), ("SAC", "reset"),
               ("AbstractOffPolicyAlgorithm", "reset")]
    n_vmaps = 0
    for cls, meth in targets:
        b = s.builder(inline=set())
        nz = Normalizer(b)
        loc = s.loc(cls, meth)
        for p in live(s.paths(b, cls, meth)):
            roots = [p.ret] + [e[1] for e in p.effects]
            seen = set()
            for root in roots:
                for c in walk(root):
                    if not (isinstance(c, tuple) and c and c[0] == "call" and isinstance(c[1], tuple) and c[1][0] == "vmapfn"):
                        continue
                    if c in seen:
                        continue
                    seen.add(c)
                    n_vmaps += 1
                    fnode = c[1][1]
                    fname = fnode.name if isinstance(fnode, Closure) else show(fnode, maxlen=40)
                    con = f"{cls}.{meth}:vmap({fname})"
                    axes = dict(c[1][2]).get("in_axes", dict(c[1][2]).get("#1"))
                    args = c[2]
                    if isinstance(fnode, Closure) and fnode.qualname is None:
                        # a local function / lambda is mapped: every key it consumes has to come from ITS OWN (mapped) parameters; a key
                        # captured from the enclosing iteration is one key for all environments, whatever is split and mapped beside it
                        try:
                            body_v = b.apply(fnode, tuple(("param", f"$v{i_}") for i_ in range(len(args))), ())
                        except AnalysisError:
                            body_v = None
                        if body_v is not None:
                            shared_keys = []
                            for x in walk(body_v):
                                if not (isinstance(x, tuple) and x and x[0] == "call"):
                                    continue
                                ks_ = [v for k_, v in x[3] if k_ == "key"]
                                if isinstance(x[1], tuple) and x[1][0] == "global" and x[1][1].startswith("jax.random.") and x[2]:
                                    ks_.append(x[2][0])
                                for kn in ks_:
                                    if not any(isinstance(y, tuple) and len(y) == 2 and y[0] == "param" and str(y[1]).startswith("$v") for y in walk(kn)):
                                        shared_keys.append(show(kn, maxlen=60))
                            s.ob("C12.2", con, not shared_keys, "every key consumed inside the mapped function derives from its own mapped parameters (no key captured from the enclosing scope)",
                                 loc, key="captured-key", detail="; ".join(sorted(set(shared_keys))[:4]),
                                 necessary_for="N parallel collections equal N independent ones: every random draw of a rollout comes from that environment's own key")
                    ok_shape = isinstance(axes, tuple) and axes[0] == "tuple" and len(axes[1]) == len(args) and not c[3]
                    s.ob("C12.2", con, ok_shape, "in_axes is a tuple with one entry per positional argument", loc, key="in-axes-shape", detail=f"in_axes={show(axes or NONE)}; {len(args)} args")
                    if not ok_shape:
                        continue
                    pnames = fnode.param_names() if isinstance(fnode, Closure) else []
                    for i, (a, ax) in enumerate(zip(args, axes[1])):
                        pname = pnames[i] if i < len(pnames) else ""
                        is_key = (isinstance(a, tuple) and a[0] == "call" and a[1] == ("global", "jax.random.split")) or pname == "key"
                        if pname == "key" and not (isinstance(a, tuple) and a[0] == "call" and a[1] == ("global", "jax.random.split")):
                            s.ob("C12.2", f"{con}.arg{i}", False, "the mapped function's `key` parameter receives jr.split(k, self.num_envs)", loc, key="keys-axis",
                                 detail=f"{show(a, maxlen=100)} / in_axes[{i}]={show(ax)}", necessary_for="each environment gets its own key")
                            continue
                        batched = (a == ("attr", ("param", "state"), "step_state") or (isinstance(a, tuple) and a[0] == "call" and isinstance(a[1], tuple) and a[1][0] == "vmapfn")
                                   or any(isinstance(x, tuple) and x and x[0] == "call" and isinstance(x[1], tuple) and x[1][0] == "vmapfn" for x in walk(a)))
                        ax0 = ax == ("const", 0) or ax == ("call", ("global", "equinox.if_array"), (("const", 0),), ())
                        if is_key:
                            okk = ax == ("const", 0) and len(a[2]) == 2 and a[2][1] == ("attr", self_, "num_envs")
                            s.ob("C12.2", f"{con}.arg{i}", okk, "keys are jr.split(k, self.num_envs), mapped over axis 0 (one key per environment)", loc, key="keys-axis",
                                 detail=f"{show(a, maxlen=100)} / in_axes[{i}]={show(ax)}", necessary_for="N parallel collections equal N independent ones from the same per-environment keys")
                        elif batched:
                            s.ob("C12.2", f"{con}.arg{i}", ax0, "the per-environment step state is mapped over axis 0", loc, key="state-axis", detail=f"{show(a, maxlen=100)} / in_axes[{i}]={show(ax)}",
                                 necessary_for="each environment continues from its own start state")
                        else:
                            s.ob("C12.2", f"{con}.arg{i}", ax == NONE, "shared inputs (env, policy, callback, sizes) are broadcast (None)", loc, key="broadcast-axis",
                                 detail=f"{show(a, maxlen=100)} / in_axes[{i}]={show(ax)}")
                            # what is shared between the environments must not be drawn from a key: a value sampled once per iteration and
                            # broadcast (a common reset state, common noise) makes the N rollouts depend on each other's randomness source
                            rnd = [x for x in walk(a) if x == ("param", "key") or (isinstance(x, tuple) and x and x[0] == "call" and isinstance(x[1], tuple)
                                                                                  and x[1][0] == "global" and x[1][1].startswith("jax.random."))]
                            s.ob("C12.2", f"{con}.arg{i}", not rnd, "a broadcast (shared) input is not derived from a PRNG key", loc, key="shared-random-input",
                                 detail=f"{show(a, maxlen=140)}", necessary_for="N parallel collections equal N independent ones: every random draw of a rollout comes from that environment's own key")
    if n_vmaps < 7:
        raise AnalysisError(f"C12.2: only {n_vmaps} vmapped calls found (expected >= 7)")
    # ---------------------------------------------------------------- C12.3
    def scope(m):
        return m.name.startswith(("lerax.algorithm", "lerax.buffer", "lerax.policy", "lerax.env", "lerax.wrapper", "lerax.distribution", "lerax.space")) or m.name == "lerax.utils"

    n = 0
    for m, ci, qual, fn in functions_of(P, module_filter=scope):
        n += 1
        hits = [h for h in scan_function(P, m, qual, fn, allow_self_assign=True) if h.kind == "collective"]
        if hits or fn.name in ("collect_rollout", "collect_learning_starts", "step", "iteration", "post_collect", "compute_returns_and_advantages"):
            s.ob("C12.3", qual.replace("lerax.", ""), not hits, "no named-axis collective (psum/pmean/all_gather/axis_name=)", P.loc(m, fn), key="collective", detail="; ".join(str(h) for h in hits),
                 necessary_for="no observation, reward, done flag, policy state or advantage crosses from one environment to another")
    s.ob("C12.3", "package", True, f"{n} functions scanned for collectives", "")
    ctrl = os.path.join(os.path.dirname(os.path.dirname(os.path.abspath(__file__))), "controls", "collective.py")
    with open(ctrl) as fh:
        src = fh.read()
    cm = ModuleInfo("lerax.__control__", ctrl, ast.parse(src), src, False)
    cm.imports.update({"lax": "jax.lax"})
    fnc = [x for x in cm.tree.body if isinstance(x, ast.FunctionDef)][0]
    hits = [h for h in scan_function(P, cm, "control", fnc) if h.kind == "collective"]
    if len(hits) < 2:
        raise AnalysisError("C12.3 positive control not flagged: the collective matcher is not armed")
    s.control(f"C12.3 positive control flagged: {[h.what for h in hits]}")
    # ---------------------------------------------------------------- C12.5 no global JAX configuration is changed by the package
    check_global_config(s)
    # ---------------------------------------------------------------- C12.4 mapping-valued pytree fields keep their order
    check_mapping_fields(s)
    # ---------------------------------------------------------------- C12.6 regrouping of per-environment data keeps environments apart
    # parallel evaluation episodes (benchmark.average_reward vmaps an episode helper over keys): each gets its own key
    from .C19 import check_average_reward
    check_average_reward(s, "C12.2")
    from .C06 import check_flatten, check_sample
    check_flatten(s, "C12.6")
    check_sample(s, "C12.6", "C12.6")
    # ---------------------------------------------------------------- C12.7 the adapters are the places where a lerax environment is jitted by
    # someone else (gymnax jits step / reset with `self` static) or driven through hidden state (the Gymnasium adapter's running key):
    # an equality that ignores part of the adapted environment makes the jitted call disagree with the eager one, a re-seed that is
    # skipped for seed 0 makes reset(seed=0) depend on the adapter's history
    from ..effects import incomplete_equality
    ie = incomplete_equality(P)
    s.ob("C12.7", "custom __eq__", not ie, "every class that defines __eq__ compares all of its state (equality of static arguments keys the jit caches)", ie[0][1] + f":{ie[0][2]}" if ie else "",
         key="incomplete-equality", detail="; ".join(f"{q} ignores {', '.join(ms)}" for q, _, _, ms in ie),
         necessary_for="every environment function gives the same result eagerly and under jit")
    from .C13 import check_adapters
    check_adapters(s, rule="C12.7")
    # ---------------------------------------------------------------- C12.8 "depends only on its explicit arguments" for the generic step / reset:
    # the composition rules of C01 (one transition from the given state, the reset branch selected lazily) - a step that runs
    # initial() on every call resets a host-side (Gymnasium-backed) environment under the caller, so the next step(state, a, key)
    # depends on hidden simulator state and not on its arguments
    from .C01 import check_step
    check_step(s, lambda i: "C12.8")
    for r_, n_ in (("C12.8", 8), ("C12.1", 300), ("C12.2", 41), ("C12.3", 16), ("C12.4", 2), ("C12.5", 50), ("C12.6", 10), ("C12.7", 10)):
        s.floor(r_, n_)


def check_mapping_fields(s, rule="C12.4"):
    """C12.4: JAX flattens a plain `dict` with its keys SORTED and rebuilds it in that order at every transformation boundary
    (jit / vmap / scan / cond), while an OrderedDict keeps its insertion order (documented pytree behaviour). A non-static Module
    field holding a mapping that some method iterates positionally must therefore be an OrderedDict, otherwise the same method
    gives differently ordered results eagerly and after a jit / vmap round trip of its owner."""
    import ast

    P = s.prog
    n_fields = 0

    def ann_kind(ann):
        if ann is None:
            return None
        src = ast.unparse(ann) if not (isinstance(ann, ast.Constant) and isinstance(ann.value, str)) else ann.value
        head = src.split("[")[0].split(".")[-1].strip()
        return {"dict": "dict", "Dict": "dict", "Mapping": "dict", "MutableMapping": "dict", "OrderedDict": "ordered"}.get(head)

    def value_kind(v):
        if isinstance(v, (ast.Dict, ast.DictComp)):
            return "dict"
        if isinstance(v, ast.Call):
            f = ast.unparse(v.func).split(".")[-1]
            if f == "OrderedDict":
                return "ordered"
            if f == "dict":
                return "dict"
        return None

    for ci in sorted(P.classes.values(), key=lambda c: c.qualname):
        if not P.is_module_class(ci) or ci.module.name.startswith(("lerax.render", "lerax.callback")):
            continue
        for f in ci.fields.values():
            ak = ann_kind(f.annotation)
            # what __init__ stores
            vk = None
            init = ci.methods.get("__init__")
            if init is not None:
                for st in ast.walk(init):
                    if isinstance(st, ast.Assign) and len(st.targets) == 1 and isinstance(st.targets[0], ast.Attribute) and isinstance(st.targets[0].value, ast.Name) \
                            and st.targets[0].value.id == "self" and st.targets[0].attr == f.name:
                        vk = value_kind(st.value) or vk
            if ak is None and vk is None:
                continue
            if f.static:
                continue  # static fields are treedef metadata, not flattened
            # is the field iterated positionally anywhere in the class hierarchy below / above?
            iterated = []
            for c2 in [ci] + P.subclasses(ci):
                for mname, fn in c2.methods.items():
                    for n_ in ast.walk(fn):
                        tgt = None
                        if isinstance(n_, ast.Call) and isinstance(n_.func, ast.Attribute) and n_.func.attr in ("items", "values", "keys") :
                            tgt = n_.func.value
                        elif isinstance(n_, (ast.For, ast.comprehension)):
                            tgt = n_.iter
                        if isinstance(tgt, ast.Attribute) and isinstance(tgt.value, ast.Name) and tgt.value.id == "self" and tgt.attr == f.name:
                            iterated.append(f"{c2.name}.{mname}")
            if not iterated:
                continue
            n_fields += 1
            s.ob(rule, f"{ci.name}.{f.name}", (vk or ak) == "ordered",
                 "a mapping-valued pytree field that methods iterate in order is an OrderedDict (a plain dict is re-ordered by key at every jit / vmap boundary)",
                 P.loc(ci.module, ci.node), key="plain-dict-pytree-field", detail=f"annotation: {ak}; __init__ stores: {vk}; iterated in {sorted(set(iterated))[:6]}",
                 necessary_for="the same result eagerly, under jit and under vmap (component order of Dict spaces, flatten_sample, samples)")
    s.ob(rule, "package", n_fields >= 1, "at least one mapping-valued pytree field was examined (Dict.spaces)", "", key="mapping-fields-found", detail=str(n_fields))


JAX_ENV_PREFIXES = ("JAX_", "XLA_")


def global_config_hits(P, m):
    """AST scan of one module: calls of jax.config.update / config.update (the jax one), attribute assignments on jax.config, and writes
    of JAX_* / XLA_* environment variables. Returns readable hit strings."""
    import ast
    hits = []
    for node in ast.walk(m.tree):
        if isinstance(node, ast.Call):
            f = node.func
            parts = []
            while isinstance(f, ast.Attribute):
                parts.append(f.attr)
                f = f.value
            if isinstance(f, ast.Name):
                q = P.resolve_name(m, f.id, list(reversed(parts))) or ""
                if q in ("jax.config.update", "jax._src.config.update", "jax.config.config.update") or (q.startswith("jax.") and q.endswith(".config.update")):
                    arg = ast.unparse(node.args[0]) if node.args else "?"
                    hits.append(f"line {node.lineno}: jax.config.update({arg}, ...)")
                if q in ("os.putenv", "os.environ.setdefault", "os.environ.update") or (q == "os.environ.__setitem__"):
                    txt = ast.unparse(node)
                    if any(pfx in txt for pfx in JAX_ENV_PREFIXES):
                        hits.append(f"line {node.lineno}: {txt[:80]}")
        if isinstance(node, (ast.Assign, ast.AugAssign)):
            for t in (node.targets if isinstance(node, ast.Assign) else [node.target]):
                if isinstance(t, ast.Attribute):
                    base = t.value
                    parts = [t.attr]
                    while isinstance(base, ast.Attribute):
                        parts.append(base.attr)
                        base = base.value
                    if isinstance(base, ast.Name):
                        q = P.resolve_name(m, base.id, list(reversed(parts))) or ""
                        if q.startswith("jax.config."):
                            hits.append(f"line {node.lineno}: {ast.unparse(t)} = ...")
                if isinstance(t, ast.Subscript) and ast.unparse(t.value).endswith("environ"):
                    key = ast.unparse(t.slice)
                    if any(pfx in key for pfx in JAX_ENV_PREFIXES):
                        hits.append(f"line {node.lineno}: os.environ[{key}] = ...")
    return hits


def check_global_config(s, rule="C12.5"):
    """C12.5: importing or using lerax changes no process-wide JAX setting. The default PRNG implementation (`rbg` is not
    vmap-invariant: vmap(f)(keys)[i] != f(keys[i])), x64 mode, matmul precision, rank promotion ... all alter what eager, jit and
    vmapped evaluation return for the same arguments, for the user's own code as well."""
    import ast
    P = s.prog
    n = 0
    for m in sorted(P.modules.values(), key=lambda m_: m_.name):
        n += 1
        hits = global_config_hits(P, m)
        s.ob(rule, m.name.replace("lerax.", "") or "lerax", not hits, "the module changes no global JAX configuration (jax.config.update, jax.config.<flag> = ..., JAX_*/XLA_* environment variables)",
             m.relpath, key="global-jax-config", detail="; ".join(hits[:4]),
             necessary_for="eager, jit and vmapped evaluation agree (threefry keys are vmap-invariant, rbg keys are not); results depend only on explicit arguments")
    # positive control: the matcher must see the construct
    ctrl = ast.parse("import jax\njax.config.update('jax_default_prng_impl', 'rbg')\nimport os\nos.environ['XLA_FLAGS'] = 'x'\n")

    class _M:
        pass
    from ..model import Program as _P
    import os as _os
    ctrl_prog = _P(sources={"lerax/__init__.py": "import jax\njax.config.update('jax_default_prng_impl', 'rbg')\nimport os\nos.environ['XLA_FLAGS'] = 'x'\n"},
                   file_filter=lambda rel: rel.replace(_os.sep, "/") == "lerax/__init__.py")
    ch = global_config_hits(ctrl_prog, ctrl_prog.modules["lerax"])
    if len(ch) < 2:
        raise AnalysisError(f"C12.5 positive control failed: {ch}")
    s.control(f"{rule} positive control matched {len(ch)} constructs in a synthetic module")
