"""C13 — wrappers and adapters change only what they declare; TimeLimit is exact."""
from __future__ import annotations

from ..model import AnalysisError
from ..norm import Normalizer, show_term
from ..vgraph import KEY, NONE, Closure, show, strip_keys, walk
from .util import bind_args, fields, live, one

EXPLANATION = (
    "C13.1 delegation: for each of the 11 exported wrappers x 9 environment methods the value graph equals the canonical "
    "delegation self.env.m(state.env_state[, action][, next_state.env_state], key=key), re-wrapped in the wrapper's state class for "
    "initial/transition, except for the declared deviation of its family (action wrappers apply self.func to the action in ALL of "
    "transition, reward and transition_info and self.mask_func to a non-None mask; observation wrappers apply self.func to "
    "observation only; reward wrappers to reward only; TimeLimit ORs its counter test into truncate). C13.2 the non-transformed "
    "space of each family is the inner environment's. C13.3 constructibility: every exported wrapper has every genuinely abstract "
    "variable (Equinox semantics incl. stringified annotations) and abstract method of its MRO defined. C13.4 TimeLimit exactness "
    "in closed form (initial count c0, increment d, predicate count >= N + c fire first at step N iff d=1 and c=c0). C13.5 "
    "rescale_box gradient/intercept formulas, forward/backward an inverse pair on the same (g, c), RescaleAction uses backward, "
    "RescaleObservation uses forward of the call whose box it advertises; clip wrappers clip with the inner bounds. C13.6 unwrapped "
    "recursion. C13.7 adapter tuple positions against the frozen Gymnasium / Gymnax API tables."
)
ASSUMPTIONS = [
    "Gymnasium API: step -> (obs, reward, terminated, truncated, info), reset -> (obs, info); Gymnax API: step_env(key, state, "
    "action, params) -> (obs, state, reward, done, info), reset_env(key, params) -> (obs, state) (frozen table)",
    "Equinox abstract-variable semantics as implemented in equinox._module._better_abstract",
    "that an adapter reproduces a whole trajectory is not decided (io_callback ordering, external env state)",
]

METHODS = ["initial", "action_mask", "transition", "observation", "reward", "terminal", "truncate", "state_info", "transition_info"]


def family(P, ci):
    for base, fam in (("AbstractPureTransformActionWrapper", "action"), ("AbstractPureObservationWrapper", "observation"),
                      ("AbstractPureTransformRewardWrapper", "reward")):
        if P.has_cls(base) and P.is_subclass(ci, P.cls(base)):
            return fam
    return {"TimeLimit": "timelimit", "Identity": "identity"}.get(ci.name, "other")


def delegation_ref(s, b, meth, fam):
    self_ = ("param", "self")
    act = "self.func(action)" if fam == "action" else "action"
    bind = {"self": self_, "state": ("param", "state"), "action": ("param", "action"), "next_state": ("param", "next_state"), "key": ("param", "key")}
    src = {
        "initial": "self.env.initial(key=key)",
        "action_mask": "self.env.action_mask(state.env_state, key=key)",
        "transition": f"self.env.transition(state.env_state, {act}, key=key)",
        "observation": "self.env.observation(state.env_state, key=key)",
        "reward": f"self.env.reward(state.env_state, {act}, next_state.env_state, key=key)",
        "terminal": "self.env.terminal(state.env_state, key=key)",
        "truncate": "self.env.truncate(state.env_state)",
        "state_info": "self.env.state_info(state.env_state)",
        "transition_info": f"self.env.transition_info(state.env_state, {act}, next_state.env_state)",
    }[meth]
    if fam == "observation" and meth == "observation":
        src = f"self.func({src})"
    if fam == "reward" and meth == "reward":
        src = f"self.func({src})"
    return s.ref(b, src, bind)


def check_delegation(s, rule="C13.1", methods=METHODS):
    """Every exported wrapper's method is the inner environment's (with only the declared transformation applied)."""
    P = s.prog
    self_ = ("param", "self")
    wrappers = [c for c in P.concrete_exported("lerax.wrapper")]
    # ---------------------------------------------------------------- C13.1
    for ci in wrappers:
        fam = family(P, ci)
        for meth in methods:
            r = P.resolve_method(ci, meth)
            con = f"{ci.name}.{meth}"
            if r is None or r[0].is_abstractmethod(meth):
                s.ob(rule, con, False, "the wrapper implements the method", P.loc(ci.module, ci.node), key="missing-method")
                continue
            dc, fn = r
            loc = P.loc(dc.module, fn)
            b = s.builder(inline=set())
            nz = Normalizer(b)
            s.functions.add(f"{dc.qualname}.{meth}")
            from ..vgraph import Ctx
            paths = live(b.paths(fn, Ctx(dc.module, dc, fn, ci)))
            want = delegation_ref(s, b, meth, fam)
            if meth in ("initial", "transition"):
                for p in paths:
                    f = fields(p.ret)
                    ok = isinstance(p.ret, tuple) and p.ret[0] == "record" and p.ret[1].endswith("State")
                    s.ob(rule, con, ok and nz.canon(f.get("env_state", NONE)) == nz.canon(want),
                         f"{meth} re-wraps exactly the inner environment's {meth}" + (" of self.func(action)" if fam == "action" and meth == "transition" else ""),
                         loc, key="delegation", detail=f"got {show(p.ret, maxlen=240)}\nwant env_state = {show(want, maxlen=200)}",
                         necessary_for="a wrapped environment behaves as the inner environment with only the declared change applied")
                    extra = {k: v for k, v in f.items() if k != "env_state"}
                    if fam == "timelimit":
                        continue  # counter: C13.4
                    s.ob(rule, con, not extra, "the wrapper state carries nothing but the inner state", loc, key="extra-state", detail=str(sorted(extra)))
                continue
            if meth == "action_mask" and fam == "action":
                none_paths = [p for p in paths if p.ret == NONE]
                other = [p for p in paths if p.ret != NONE]
                ok = len(none_paths) == 1 and len(other) == 1
                if ok:
                    t, v = none_paths[0].conds[-1]
                    ok = v and nz.canon(t) == nz.canon(("cmp", "Is", want, NONE))
                    ok = ok and nz.canon(other[0].ret) == nz.canon(("call", ("attr", self_, "mask_func"), (want,), ()))
                s.ob(rule, con, ok, "action_mask: None stays None; otherwise self.mask_func(inner mask)", loc, key="mask-delegation",
                     detail="; ".join(show(p.ret, maxlen=160) for p in paths))
                continue
            if meth == "truncate" and fam == "timelimit":
                continue  # C13.4
            for p in paths:
                s.eq(rule, con, nz, p.ret, want,
                     f"{meth} == " + ("declared transformation of " if (fam, meth) in (("observation", "observation"), ("reward", "reward")) else "")
                     + f"the inner environment's {meth}" + (" on self.func(action)" if fam == "action" and meth in ("reward", "transition_info") else ""),
                     loc, key="delegation", necessary_for="dynamics, reward and info alike see the mapped action; everything else passes through unchanged")


def check_timelimit(s, rule="C13.4"):
    """TimeLimit closed form: count starts at 0, +1 per transition, truncate = inner truncate | count >= N."""
    self_ = ("param", "self")
    # ---------------------------------------------------------------- C13.4 TimeLimit closed form
    b = s.builder(inline=set())
    nz = Normalizer(b, int_terms=[("attr", ("p", "state"), "step_count")])  # TimeLimitState.step_count: Int[Array, ""]
    loc = s.loc("TimeLimit", "truncate")
    pi = one(s.paths(b, "TimeLimit", "initial"), "TimeLimit.initial")
    pt = one(s.paths(b, "TimeLimit", "transition"), "TimeLimit.transition")
    ptr = one(s.paths(b, "TimeLimit", "truncate"), "TimeLimit.truncate")
    c0 = nz.canon(fields(pi.ret).get("step_count", NONE))
    s.ob(rule, "TimeLimit.initial", c0 == ("k", 0), "a fresh episode starts with step_count == 0 (the count restarts on reset)", s.loc("TimeLimit", "initial"),
         key="initial-count", detail=show_term(c0), necessary_for="TimeLimit restarts its count on reset")
    inc = nz.canon(fields(pt.ret).get("step_count", NONE))
    want_inc = nz.canon(s.ref(b, "state.step_count + 1", {"state": ("param", "state")}))
    s.ob(rule, "TimeLimit.transition", inc == want_inc, "each transition adds exactly 1 to step_count", s.loc("TimeLimit", "transition"), key="increment",
         detail=show_term(inc), necessary_for="truncation at exactly the N-th step")
    want_tr = s.ref(b, "self.env.truncate(state.env_state) | (state.step_count >= self.max_episode_steps)", {"self": self_, "state": ("param", "state")})
    alt_tr = s.ref(b, "self.env.truncate(state.env_state) | (state.step_count > self.max_episode_steps - 1)", {"self": self_, "state": ("param", "state")})
    got = nz.canon(ptr.ret)
    s.ob(rule, "TimeLimit.truncate", got in (nz.canon(want_tr), nz.canon(alt_tr)),
         "truncate == inner truncate | (step_count >= max_episode_steps): with c0 = 0 and increment 1 it first fires at step N, never earlier or later", loc,
         key="truncate-predicate", detail=f"code: {show_term(got, 400)}\nreference: {show_term(nz.canon(want_tr), 400)}",
         necessary_for="TimeLimit(N) raises truncation at exactly the N-th step; the inner truncation is preserved")
    pc = one(s.paths(b, "TimeLimit", "__init__"), "TimeLimit.__init__")
    s.ob(rule, "TimeLimit.__init__", nz.canon(pc.self_attrs.get("max_episode_steps", NONE)) in (("p", "max_episode_steps"), ("cast", "int", ("p", "max_episode_steps"))),
         "max_episode_steps is stored unchanged", s.loc("TimeLimit", "__init__"), key="stores-N", detail=show(pc.self_attrs.get("max_episode_steps", NONE)))


def check_spaces(s, rule="C13.2"):
    """The space a wrapper family does not transform is the inner environment's (pass-through property)."""
    P = s.prog
    self_ = ("param", "self")
    wrappers = [c for c in P.concrete_exported("lerax.wrapper")]
    # ---------------------------------------------------------------- C13.2 spaces
    for ci in wrappers:
        fam = family(P, ci)
        inner = {"action": ["observation_space"], "observation": ["action_space"], "reward": ["action_space", "observation_space"],
                 "timelimit": ["action_space", "observation_space"], "identity": ["action_space", "observation_space"]}.get(fam, [])
        for sp in inner:
            r = P.resolve_attr(ci, sp)
            con = f"{ci.name}.{sp}"
            if r is not None and r[0] == "field" and r[2].abstract:
                continue  # not constructible at all: reported once, by C13.3
            if r is None or r[0] != "method" or r[1].is_abstractmethod(sp):
                s.ob(rule, con, False, f"the untouched {sp} is defined as a pass-through property", P.loc(ci.module, ci.node), key="space-missing",
                     detail=f"resolved to {r[0] if r else None}", necessary_for="wrappers advertise the matching space")
                continue
            b = s.builder(inline=set())
            from ..vgraph import Ctx
            pp = live(b.paths(r[2], Ctx(r[1].module, r[1], r[2], ci)))
            s.ob(rule, con, len(pp) == 1 and pp[0].ret == ("attr", ("attr", self_, "env"), sp), f"{sp} is the inner environment's", P.loc(r[1].module, r[2]),
                 key="space-passthrough", detail="; ".join(show(x.ret) for x in pp))


def check(s):
    P = s.prog
    self_ = ("param", "self")
    wrappers = [c for c in P.concrete_exported("lerax.wrapper")]
    if len(wrappers) < 11:
        raise AnalysisError(f"expected >= 11 exported concrete wrappers, found {len(wrappers)}")
    check_delegation(s)
    check_spaces(s)
    # ---------------------------------------------------------------- C13.3 constructibility
    n_cls = 0
    for pkg in ("lerax.wrapper", "lerax.env", "lerax.space", "lerax.distribution", "lerax.policy", "lerax.buffer", "lerax.algorithm"):
        if pkg not in P.modules:
            continue
        for ci in P.concrete_exported(pkg):
            if not P.is_module_class(ci):
                continue
            n_cls += 1
            av, am = P.abstract_members(ci)
            if pkg == "lerax.wrapper":
                s.ob("C13.3", ci.name, not av and not am, "every abstract variable and abstract method of the MRO is defined (the class can be instantiated)",
                     P.loc(ci.module, ci.node), key="abstract-members", detail=f"unsatisfied abstract variables {sorted(av)}; abstract methods {sorted(am)}",
                     necessary_for="every documented wrapper can be constructed")
            elif av or am:
                s.notes.append(f"C13.3 (outside the property, not a finding): {ci.qualname} has unsatisfied abstract members {sorted(av)} {sorted(am)}")
    s.notes.append(f"C13.3 constructibility evaluated over {n_cls} exported Equinox classes")
    if P.has_cls("DQNState"):
        av, am = P.abstract_members(P.cls("DQNState"))
        s.control(f"stringified eqx.AbstractVar is an ordinary field: DQNState unsatisfied={sorted(av)} (must be empty)")
        if av:
            raise AnalysisError("Equinox abstractness model regressed: DQNState reported abstract")
    av, am = P.abstract_members(P.cls("AbstractWrapper"))
    s.control(f"positive control: AbstractWrapper has abstract variables {sorted(av)}")
    if not {"env", "action_space", "observation_space"} <= av:
        raise AnalysisError("positive control failed: AbstractWrapper should have abstract variables env/action_space/observation_space")
    check_timelimit(s)
    # ---------------------------------------------------------------- C13.5 rescale / clip
    check_rescale(s)
    check_constructors(s)
    # ---------------------------------------------------------------- C13.6 unwrapped
    b = s.builder(inline=set())
    for cls, want in (("AbstractWrapperState", "self.env_state.unwrapped"), ("AbstractWrapper", "self.env.unwrapped"), ("AbstractEnvState", "self"),
                      ("AbstractEnv", "self")):
        p = one(s.paths(b, cls, "unwrapped"), f"{cls}.unwrapped")
        s.ob("C13.6", f"{cls}.unwrapped", p.ret == s.ref(b, want, {"self": self_}), f"unwrapped == {want}", s.loc(cls, "unwrapped"), key="unwrapped",
             detail=show(p.ret), necessary_for="access to the unwrapped environment and state passes through arbitrary stacks")
    for ci in P.subclasses("AbstractWrapper") + P.subclasses("AbstractWrapperState"):
        s.ob("C13.6", f"{ci.name}.unwrapped", "unwrapped" not in ci.methods, "no wrapper (state) overrides `unwrapped`", P.loc(ci.module, ci.node), key="unwrapped-override")
    # ---------------------------------------------------------------- C13.7 adapters
    check_adapters(s)
    from .util import fields_initialised
    fields_initialised(s, "C13.3", [c for m_ in sorted(P.modules.values(), key=lambda m__: m__.name) if m_.name.startswith(("lerax.wrapper", "lerax.compatibility")) for c in m_.classes.values()],
                       necessary_for="every wrapper can be constructed around an environment")
    # C13.8 the adapters drive the adapted environment through AbstractEnvLike.step / reset: the composition rules of C01 (transition taken
    # once, lazy reset) are part of "the adapter reproduces the trajectory" - a step that calls initial() eagerly resets a wrapped
    # Gymnasium simulator on every step
    from .C01 import check_step
    check_step(s, lambda i: "C13.8")
    check_gymnax(s)
    for r_, n in (("C13.1", 95), ("C13.2", 14), ("C13.3", 11), ("C13.4", 4), ("C13.5", 15), ("C13.6", 15), ("C13.7", 14), ("C13.8", 10)):
        s.floor(r_, n)


def check_gymnax(s, rule="C13.9"):
    """The gymnax adapters reproduce the trajectory of what they adapt. GymnaxToLeraxEnv caches what gymnax's fused step returns in
    its state and hands each cached signal out from the right state (the reward and info of a transition live in the SUCCESSOR state,
    the observation and terminal flag of a state in that state); LeraxToGymnaxEnv is one Gym-style step / reset of the adapted
    environment with the two flags folded into `done`. The space conversions pass low / high / shape / n through under their own names."""
    P = s.prog
    self_ = ("param", "self")
    b = s.builder(inline=set())
    nz = Normalizer(b)
    bind = {"self": self_, "state": ("param", "state"), "next_state": ("param", "next_state"), "action": ("param", "action"), "key": ("param", "key"),
            "params": ("param", "params")}
    G = "GymnaxToLeraxEnv"

    def eqn(cls, meth, got, want_src, what, key, nf=""):
        want = s.ref(b, want_src, bind)
        s.ob(rule, f"{cls}.{meth}", nz.canon(got) == nz.canon(want), what, s.loc(cls, meth), key=key, detail=f"{show(got, maxlen=160)}  (wanted {want_src})", necessary_for=nf or
             "the adapter reproduces the trajectory of the environment it adapts")

    # --- gymnax -> lerax
    p = one(s.paths(b, G, "initial"), f"{G}.initial")
    f = fields(p.ret) if isinstance(p.ret, tuple) and p.ret and p.ret[0] == "record" else {}
    s.ob(rule, f"{G}.initial", isinstance(p.ret, tuple) and p.ret[0] == "record" and p.ret[1].endswith("GymnaxEnvState"), "initial returns a GymnaxEnvState", s.loc(G, "initial"),
         key="initial-shape", detail=show(p.ret, maxlen=200))
    R = "self.env.reset_env(key, self.params)"
    eqn(G, "initial", f.get("observation", NONE), f"{R}[0]", "the cached observation is gymnax's reset observation", "initial-observation")
    es = f.get("env_state", NONE)
    r1 = s.ref(b, f"{R}[1]", bind)
    s.ob(rule, f"{G}.initial", r1 in set(walk(es)) and len([c for c in walk(p.ret) if isinstance(c, tuple) and c and c[0] == "call" and c[1] == ("attr", ("attr", self_, "env"), "reset_env")]) == 1,
         "the cached gymnax state is that of the same single reset_env call", s.loc(G, "initial"), key="initial-env-state", detail=show(es, maxlen=160))
    eqn(G, "initial", f.get("reward", NONE), "0.0", "the initial cached reward is 0", "initial-reward")
    eqn(G, "initial", f.get("terminal", NONE), "False", "the initial state is not terminal", "initial-terminal")
    p = one(s.paths(b, G, "transition"), f"{G}.transition")
    f = fields(p.ret) if isinstance(p.ret, tuple) and p.ret and p.ret[0] == "record" else {}
    S = "self.env.step_env(key, state.env_state, action, self.params)"
    for fld, i in (("observation", 0), ("env_state", 1), ("reward", 2), ("terminal", 3)):
        eqn(G, "transition", f.get(fld, NONE), f"{S}[{i}]", f"the successor caches element {i} of ONE step_env(key, state.env_state, action, params) as `{fld}`", f"transition-{fld}")
    for meth, want, what in (("observation", "state.observation", "the observation of a state is the one cached in that state"),
                             ("reward", "next_state.reward", "the reward of a transition is the one cached in its SUCCESSOR state"),
                             ("terminal", "state.terminal", "the terminal flag of a state is the one cached in that state"),
                             ("truncate", "False", "gymnax has no truncation: never truncated"),
                             ("transition_info", "next_state.transition_info", "the info of a transition is the one cached in its successor state")):
        p = one(s.paths(b, G, meth), f"{G}.{meth}")
        eqn(G, meth, p.ret, want, what, f"cached-{meth}")
    # --- lerax -> gymnax
    L = "LeraxToGymnaxEnv"
    p = one(s.paths(b, L, "step_env"), f"{L}.step_env")
    T = "self.env.step(state.env_state, jnp.asarray(action), key=key)"
    r = p.ret
    ok5 = isinstance(r, tuple) and r and r[0] == "tuple" and len(r[1]) == 5
    s.ob(rule, f"{L}.step_env", ok5, "step_env returns (obs, state, reward, done, info)", s.loc(L, "step_env"), key="step-env-shape", detail=show(r, maxlen=200))
    if ok5:
        eqn(L, "step_env", r[1][0], f"{T}[1]", "the observation is that of ONE Gym-style step of the adapted environment", "step-env-observation")
        eqn(L, "step_env", r[1][2], f"{T}[2]", "the reward is that step's reward", "step-env-reward")
        eqn(L, "step_env", r[1][3], f"{T}[3] | {T}[4]", "done == terminal | truncated of that step", "step-env-done")
        eqn(L, "step_env", r[1][4], f"{T}[5]", "the info is that step's info", "step-env-info")
        st = fields(r[1][1]) if isinstance(r[1][1], tuple) and r[1][1] and r[1][1][0] in ("record", "call") else {}
        eqn(L, "step_env", st.get("env_state", st.get("arg:env_state", NONE)), f"{T}[0]", "the carried state is that step's successor state", "step-env-state")
        eqn(L, "step_env", st.get("time", st.get("arg:time", NONE)), "state.time + 1", "the step counter advances by one", "step-env-time")
    p = one(s.paths(b, L, "reset_env"), f"{L}.reset_env")
    r = p.ret
    ok2 = isinstance(r, tuple) and r and r[0] == "tuple" and len(r[1]) == 2
    s.ob(rule, f"{L}.reset_env", ok2, "reset_env returns (obs, state)", s.loc(L, "reset_env"), key="reset-env-shape", detail=show(r, maxlen=200))
    if ok2:
        st = fields(r[1][1]) if isinstance(r[1][1], tuple) and r[1][1] and r[1][1][0] in ("record", "call") else {}
        E = st.get("env_state", st.get("arg:env_state", NONE))
        inits = [c for c in walk(r) if isinstance(c, tuple) and c and c[0] == "call" and c[1] == ("attr", ("attr", self_, "env"), "initial")]
        s.ob(rule, f"{L}.reset_env", len(inits) == 1 and E == inits[0], "the carried state is ONE self.env.initial(key=...)", s.loc(L, "reset_env"), key="reset-env-state", detail=show(E, maxlen=160))
        obs = r[1][0]
        oko = isinstance(obs, tuple) and obs and obs[0] == "call" and obs[1] == ("attr", ("attr", self_, "env"), "observation") and len(obs[2]) == 1 and obs[2][0] == E
        s.ob(rule, f"{L}.reset_env", oko, "the observation is self.env.observation of that very state", s.loc(L, "reset_env"), key="reset-env-observation", detail=show(obs, maxlen=160))
        eqn(L, "reset_env", st.get("time", st.get("arg:time", NONE)), "0", "the step counter starts at 0", "reset-env-time")
    # --- space conversions: parameters pass through under their own names
    for fname, need in (("gymnax_space_to_lerax_space", {"Discrete": ["n"], "Box": ["low", "high", "shape"]}), ("lerax_to_gymnax_space", {"Discrete": ["n"], "Box": ["low", "high", "shape"]})):
        m, fn = s.function("lerax.compatibility.gymnax", fname)
        loc = P.loc(m, fn)
        space = ("param", "space")
        seen = set()
        for p in s.fpaths(b, "lerax.compatibility.gymnax", fname):
            if p.raised is not None:
                continue
            trues = [t for t, v in p.conds if v and isinstance(t, tuple) and t[0] == "call" and t[1] == ("global", "isinstance")]
            if len(trues) != 1:
                continue
            k_in = trues[0][2][1][1].split(".")[-1] if isinstance(trues[0][2][1], tuple) and trues[0][2][1][0] == "global" else "?"
            r = p.ret
            k_out = (r[1] if r[0] == "record" else (r[1][1] if isinstance(r[1], tuple) and r[1][0] == "global" else "?")).split(".")[-1] if isinstance(r, tuple) and r and r[0] in ("record", "call") else "?"
            seen.add(k_in)
            s.ob(rule, f"{fname}[{k_in}]", k_in == k_out, f"{k_in} maps to {k_in}", loc, key="kind-mapping", detail=f"{k_in} -> {k_out}")
            fl = fields(r) if r[0] == "record" else dict([(k_, v) for k_, v in r[3] if k_] + [(need.get(k_in, [None])[i] if i < len(need.get(k_in, [])) else f"#{i}", a) for i, a in enumerate(r[2])])
            for prm in need.get(k_in, []):
                v = fl.get("arg:" + prm, fl.get(prm))
                others = {("attr", space, o) for o in ("low", "high", "shape", "n") if o != prm}
                nodes = set(walk(v)) if v is not None else set()
                s.ob(rule, f"{fname}[{k_in}].{prm}", v is not None and ("attr", space, prm) in nodes and not (nodes & others), f"`{prm}` is built from space.{prm} and from no other parameter", loc,
                     key=f"param-{prm}", detail=show(v if v is not None else NONE, maxlen=120), necessary_for="the adapted environment's spaces are the spaces of the environment it adapts")
        s.ob(rule, fname, {"Discrete", "Box", "Dict", "Tuple"} <= seen, "Discrete, Box, Dict and Tuple are converted", loc, key="kinds-handled", detail=str(sorted(seen)))
    s.floor(rule, 30)


RESCALE_REF = """
mn = jnp.broadcast_to(min, box.shape)
mx = jnp.broadcast_to(max, box.shape)
minf = jnp.isfinite(mn)
maxf = jnp.isfinite(mx)
bf = minf & maxf
g = jnp.ones_like(mn).at[bf].set((mx[bf] - mn[bf]) / (box.high[bf] - box.low[bf]))
c0 = jnp.zeros_like(mn).at[maxf].set(mx[maxf] - box.high[maxf])
c = c0.at[minf].set(mn[minf] - box.low[minf] * g[minf])
"""


def check_rescale(s, rule="C13.5"):
    P = s.prog
    self_ = ("param", "self")
    b = s.builder(inline=set())
    nz = Normalizer(b)
    m, fn = s.function("lerax.wrapper.utils", "rescale_box")
    loc = P.loc(m, fn)
    con = "rescale_box"
    p = one(s.fpaths(b, "lerax.wrapper.utils", "rescale_box"), con)
    f = fields(p.ret)
    if not ({"box", "forward", "backward"} <= set(f)) or not isinstance(f["forward"], Closure) or not isinstance(f["backward"], Closure):
        raise AnalysisError(f"{con}: expected RescaleResult(box, forward, backward) with local functions")
    ref = s.refprog(b, RESCALE_REF, {"box": ("param", "box"), "min": ("param", "min"), "max": ("param", "max")})
    x = ("param", "$x")
    fw = b.apply(f["forward"], (x,), ())
    bw = b.apply(f["backward"], (x,), ())
    bind = dict(ref)
    bind["x"] = x
    s.eq(rule, con + ".forward", nz, fw, s.ref(b, "g * x + c", bind),
         "forward(x) == g·x + c with g = (max−min)/(high−low) on the both-finite mask and c = min − low·g", loc, key="forward-formula",
         necessary_for="the affine rescale takes the new bounds exactly onto the original bounds")
    s.eq(rule, con + ".backward", nz, bw, s.ref(b, "(x - c) / g", bind), "backward(x) == (x − c)/g on the same g, c", loc, key="backward-formula")
    # inverse pair, symbolically (g, c opaque)
    G, C = ("param", "$g"), ("param", "$c")
    gnode, cnode = ref["g"], ref["c"]
    from ..vgraph import replace_nodes
    fw_s = replace_nodes(replace_nodes(fw, {cnode: C}), {gnode: G})
    bw_s = replace_nodes(replace_nodes(bw, {cnode: C}), {gnode: G})
    comp = replace_nodes(fw_s, {x: bw_s})
    s.ob(rule, con, nz.canon(comp) == ("p", "$x"), "forward(backward(x)) == x (an inverse pair)", loc, key="inverse-pair",
         detail=show_term(nz.canon(comp), 300))
    s.eq(rule, con + ".box", nz, f["box"], s.ref(b, "Box(low=mn, high=mx, shape=box.shape)", dict(ref, Box=("global", "lerax.space.box.Box"), box=("param", "box"))),
         "the advertised box is Box(min, max) of the original shape", loc, key="new-box")
    # an unbounded side of the original box cannot be mapped onto a bounded side of the new one (or back): the gradient is
    # (max - min) / inf = 0 and the intercept -inf * 0 = NaN, so every observation / action of that component becomes NaN without a
    # word. Gymnasium, whose logic this is, refuses such a request with two assertions; the same two guards have to be here (as asserts
    # or as raising tests): where either bound is infinite, the old and the new bound coincide
    guards = {nz.canon(t_) for t_, _ln in p.asserts}
    for other in s.fpaths(b, "lerax.wrapper.utils", "rescale_box"):
        if other.raised is not None:
            for t_, v_ in other.conds:
                guards.add(nz.canon(t_) if v_ is False else nz.canon(("un", "Not", t_)))
    for side, new_, old_ in (("lower", "mn", "box.low"), ("upper", "mx", "box.high")):
        wants = [nz.canon(s.ref(b, e, dict(ref, box=("param", "box")))) for e in (
            f"jnp.all(({new_} == {old_})[jnp.isinf({new_}) | jnp.isinf({old_})])",
            f"jnp.all(jnp.where(jnp.isinf({new_}) | jnp.isinf({old_}), {new_} == {old_}, True))",
            f"jnp.all(jnp.isinf({new_}) == jnp.isinf({old_}))")]
        s.ob(rule, con, any(w in guards for w in wants), f"an infinite {side} bound is only ever mapped onto the same infinite bound (guarded like Gymnasium's rescale_box)", loc,
             key=f"rescale-infinite-{side}", detail=f"{len(p.asserts)} assertion(s) in rescale_box",
             necessary_for="rescaled observations / actions are members of the declared box, never NaN (RescaleObservation over a space with unbounded components)")
    # the coefficient arrays are created with ones_like / zeros_like of a template and then receive FLOAT values by scatter: the
    # template has to be float by construction (cast with dtype=float, or a Box bound, which Box.__init__ casts) - `min` / `max` as the
    # caller passed them may be Python ints (`RescaleAction(env, min=-1, max=1)`), the scatter then truncates g to 0 and x/g is inf
    def float_by_construction(n_, depth=0):
        if depth > 8 or not isinstance(n_, tuple) or not n_:
            return False
        if n_[0] == "attr" and n_[2] in ("low", "high") and n_[1] == ("param", "box"):
            return True
        if n_[0] == "cast":
            return n_[1] in ("float",) or "float" in str(n_[1])
        if n_[0] == "call":
            kw = dict((k_, v) for k_, v in n_[3] if k_)
            dt = kw.get("dtype")
            if dt is not None and ("float" in show(dt)):
                return True
            if isinstance(n_[1], tuple) and n_[1][0] == "attr" and n_[1][2] == "astype" and n_[2] and "float" in show(n_[2][0]):
                return True
            if n_[1] in (("global", "jax.numpy.broadcast_to"), ("global", "jax.numpy.asarray"), ("global", "jax.numpy.array"), ("global", "jax.numpy.atleast_1d")) and n_[2] and dt is None:
                return float_by_construction(n_[2][0], depth + 1)
        if n_[0] == "bin" and n_[1] in ("Add", "Sub", "Mult", "Div"):
            return n_[1] == "Div" or float_by_construction(n_[2], depth + 1) or float_by_construction(n_[3], depth + 1)
        return False

    tmpl = [c for c in walk(("tuple", (fw, bw))) if isinstance(c, tuple) and c and c[0] == "call" and c[1] in (("global", "jax.numpy.ones_like"), ("global", "jax.numpy.zeros_like"))]
    bad_t = sorted({show(c, maxlen=80) for c in tmpl if not ("float" in show(dict((k_, v) for k_, v in c[3] if k_).get("dtype", NONE)) or (c[2] and float_by_construction(c[2][0])))})
    s.ob(rule, con, bool(tmpl) and not bad_t, "the gradient / intercept arrays are float by construction (template cast to float, or dtype=float), whatever the dtype of the bounds passed in",
         loc, key="float-coefficients", detail="; ".join(bad_t) or f"{len(tmpl)} templates",
         necessary_for="the affine rescale takes the new bounds exactly onto the original bounds, also for bounds given as Python ints (min=-1, max=1)")
    # users
    bu = s.builder(inline={"rescale_box"})
    nzu = Normalizer(bu)
    for cls, space_attr, which, inner in (("RescaleAction", "action_space", "backward", "action_space"),
                                          ("RescaleObservation", "observation_space", "forward", "observation_space")):
        n = 0
        for pp in live(s.paths(bu, cls, "__init__")):
            n += 1
            func = pp.self_attrs.get("func")
            space = pp.self_attrs.get(space_attr)
            ok = isinstance(func, Closure)
            if ok:
                # decide the direction by what the function computes, not by its name
                xs_ = ("param", "$x")
                refenv = s.refprog(bu, RESCALE_REF, {"box": ("attr", ("param", "env"), inner), "min": ("param", "min"), "max": ("param", "max")})
                refenv["x"] = xs_
                want_f = s.ref(bu, "(x - c) / g" if which == "backward" else "g * x + c", refenv)
                ok = nzu.canon(bu.apply(func, (xs_,), ())) == nzu.canon(want_f)
            s.ob(rule, f"{cls}.__init__", ok, f"{cls}.func computes the `{which}` map of rescale_box(env.{inner}, min, max): " + ("(x − c)/g" if which == "backward" else "g·x + c"),
                 s.loc(cls, "__init__"), key="rescale-direction",
                 detail=repr(func), necessary_for="the inner environment is fed the action mapped onto the ORIGINAL bounds / the observation mapped onto the NEW bounds")
            okb = isinstance(space, tuple) and space[0] == "record" and space[1].endswith(".Box")
            fb = fields(space) if okb else {}
            # the advertised box and func come from one call: both built from env.<inner> and (min, max)
            deps = {x_ for x_ in walk(space) if isinstance(x_, tuple) and x_ and x_[0] == "attr" and x_[2] == inner} if okb else set()
            s.ob(rule, f"{cls}.__init__", okb and ("attr", ("param", "env"), inner) in deps and ("param", "min") in set(walk(space)) and ("param", "max") in set(walk(space)),
                 f"the advertised {space_attr} is the Box(min, max) of the same rescale_box(env.{inner}, min, max) call", s.loc(cls, "__init__"), key="rescale-space",
                 detail=show(space or NONE, maxlen=200))
        if n == 0:
            raise AnalysisError(f"{cls}.__init__: no non-raising path")
    # clip wrappers: the stored `func` is compared extensionally (applied to a symbolic argument), so a lambda, a nested def, a
    # functools.partial and a module-level helper are all the same function
    from .util import apply_fn

    def applied(func, sym):
        try:
            return nzu.canon(apply_fn(bu, func, (sym,))) if func is not None else None
        except AnalysisError:
            return None

    for pp in live(s.paths(bu, "ClipAction", "__init__")):
        func = pp.self_attrs.get("func")
        got = applied(func, ("param", "$a"))
        ok = got is not None and got == nzu.canon(s.ref(bu, "jnp.clip(a, env.action_space.low, env.action_space.high)", {"a": ("param", "$a"), "env": ("param", "env")}))
        s.ob(rule, "ClipAction.__init__", ok, "ClipAction.func == clip(·, inner low, inner high)", s.loc("ClipAction", "__init__"), key="clip-action", detail=repr(func),
             necessary_for="action wrappers feed the inner environment the action clipped to ITS bounds")
    for pp in live(s.paths(bu, "ClipObservation", "__init__")):
        func = pp.self_attrs.get("func")
        got = applied(func, ("param", "$o"))
        want = nzu.canon(s.ref(bu, "jnp.clip(o, env.observation_space.low, env.observation_space.high)", {"o": ("param", "$o"), "env": ("param", "env")}))
        s.ob(rule, "ClipObservation.__init__", got is not None and got == want and pp.self_attrs.get("observation_space") == ("attr", ("param", "env"), "observation_space"),
             "ClipObservation clips with, and advertises, the inner observation space", s.loc("ClipObservation", "__init__"), key="clip-observation", detail=show(func or NONE, maxlen=160))
    for pp in live(s.paths(bu, "ClipReward", "__init__")):
        func = pp.self_attrs.get("func")
        got = applied(func, ("param", "$r"))
        want = nzu.canon(s.ref(bu, "jnp.clip(r, min, max)", {"r": ("param", "$r"), "min": ("param", "min"), "max": ("param", "max")}))
        # the bounds may be the arguments or the like-named attributes they were just stored in
        # the bounds may be read back from the attributes they were just stored in: those are then read through to what the constructor put
        # there, which has to be the arguments themselves (`min or -inf` would turn a configured bound of 0 into "no bound")
        got2 = None
        if func is not None:
            try:
                from ..vgraph import replace_nodes
                raw = apply_fn(bu, func, (("param", "$r"),))
                got2 = nzu.canon(replace_nodes(raw, {("attr", ("param", "self"), k_): v_ for k_, v_ in pp.self_attrs.items() if k_ in ("min", "max")}))
            except AnalysisError:
                got2 = None
        s.ob(rule, "ClipReward.__init__", got is not None and (got == want or got2 == want), "ClipReward.func == clip(·, min, max) with the constructor's own min / max", s.loc("ClipReward", "__init__"),
             key="clip-reward", detail=show(func or NONE, maxlen=160) + "; " + "; ".join(f"self.{k_} = {show(v_, maxlen=80)}" for k_, v_ in pp.self_attrs.items() if k_ in ("min", "max")),
             necessary_for="the reward reported on a wrapper stack is the inner reward clipped to the configured bounds")


def check_constructors(s, rule="C13.5"):
    """Generic Transform* wrappers store each constructor argument in the like-named field; FlattenObservation flattens with,
    and advertises a box of, the inner space's flat size."""
    b = s.builder(inline=set())
    nz = Normalizer(b)
    for cls, names in (("TransformAction", ["env", "func", "mask_func", "action_space"]), ("TransformObservation", ["env", "func", "observation_space"]), ("TransformReward", ["env", "func"])):
        for p in live(s.paths(b, cls, "__init__")):
            bad = [n for n in names if p.self_attrs.get(n) != ("param", n)]
            s.ob(rule, f"{cls}.__init__", not bad, "every constructor argument is stored in the like-named field", s.loc(cls, "__init__"), key="ctor-alignment", detail=str(bad))
    for p in live(s.paths(b, "FlattenObservation", "__init__")):
        env_space = ("attr", ("param", "env"), "observation_space")
        func = p.self_attrs.get("func")
        space = p.self_attrs.get("observation_space")
        okf = func == ("attr", env_space, "flatten_sample")
        fsp = fields(space) if isinstance(space, tuple) and space[0] == "record" else {}
        shape = fsp.get("arg:shape")
        oks = isinstance(space, tuple) and space[0] == "record" and space[1].endswith(".Box") and shape is not None and ("attr", env_space, "flat_size") in set(walk(shape)) \
            and nz.canon(fsp.get("arg:low", NONE)) == nz.canon(("un", "USub", ("global", "jax.numpy.inf"))) and nz.canon(fsp.get("arg:high", NONE)) == ("k", "inf")
        s.ob(rule, "FlattenObservation.__init__", okf and oks, "FlattenObservation maps with the inner space's flatten_sample and advertises Box(−inf, inf, (flat_size,))",
             s.loc("FlattenObservation", "__init__"), key="flatten-observation", detail=f"func={show(func or NONE, maxlen=80)} space={show(space or NONE, maxlen=160)}")


def check_adapter_key_stream(s, rule):
    """the Gymnasium adapter's running key: every reset / step consumes one half of jr.split(self.key) AND stores the other half back,
    so that successive episodes (auto-resets, unseeded resets) draw fresh states and the adapted environment's own randomness advances;
    a helper that splits without storing (`key, sub = jr.split(self.key)`) replays one sub-key for ever"""
    self_ = ("param", "self")
    bk = s.builder(inline={"_next_key"})
    for meth in ("reset", "step"):
        for pk in live(s.paths(bk, "LeraxToGymEnv", meth)):
            newk = pk.self_attrs.get("key")
            calls = [c for c in walk(pk.ret) if isinstance(c, tuple) and c and c[0] == "call" and c[1] == ("attr", ("attr", self_, "env"), meth)]
            used = dict((k, v) for k, v in calls[0][3] if k).get("key") if calls else None
            ok_adv = (isinstance(newk, tuple) and newk[0] == "item" and isinstance(newk[1], tuple) and newk[1][0] == "call" and newk[1][1] == ("global", "jax.random.split")
                      and isinstance(used, tuple) and used[0] == "item" and used[1] == newk[1] and used[2] != newk[2])
            s.ob(rule, f"LeraxToGymEnv.{meth}", ok_adv, "the adapter stores one half of jr.split(key) back as its running key and uses the other half for this call", s.loc("LeraxToGymEnv", meth),
                 key=f"gym-adapter-key-advance-{meth}", detail=f"self.key := {show(newk if newk is not None else NONE, maxlen=100)}; call key = {show(used if used is not None else NONE, maxlen=100)}",
                 necessary_for="the adapter reproduces the adapted environment's trajectory: fresh initial states after every episode end, fresh randomness every step")


def check_adapters(s, rule="C13.7"):
    P = s.prog
    self_ = ("param", "self")
    b = s.builder(inline=set())
    nz = Normalizer(b)
    check_adapter_key_stream(s, rule)
    # LeraxToGymEnv.step / reset
    con = "LeraxToGymEnv.step"
    loc = s.loc("LeraxToGymEnv", "step")
    p = one(s.paths(b, "LeraxToGymEnv", "step"), con)
    calls = [x for x in walk(p.ret) if isinstance(x, tuple) and x and x[0] == "call" and isinstance(x[1], tuple) and x[1][0] == "attr" and x[1][2] == "step"
             and x[1][1] == ("attr", self_, "env")]
    s.ob(rule, con, len(calls) == 1, "one env.step call", loc, key="one-step", detail=str(len(calls)))
    if len(calls) == 1:
        c = calls[0]
        # Gymnasium order: (obs, reward, terminated, truncated, info) <- lerax (state, obs, reward, terminal, truncated, info)
        ret = p.ret[1] if isinstance(p.ret, tuple) and p.ret[0] == "tuple" else ()
        ok = len(ret) == 5
        for gi, li in enumerate((1, 2, 3, 4, 5)):
            ok = ok and ("item", c, li) in set(walk(ret[gi])) and not any(("item", c, lj) in set(walk(ret[gi])) for lj in range(6) if lj != li)
        s.ob(rule, con, ok, "returns (obs, reward, terminated, truncated, info) = elements (1,2,3,4,5) of env.step's result, in Gymnasium's order", loc,
             key="gym-step-order", detail=show(p.ret, maxlen=300), necessary_for="the Gymnasium adapter reproduces the adapted environment's trajectory")
        s.ob(rule, con, p.self_attrs.get("state") == ("item", c, 0), "self.state is element 0 (the successor/reset state) of the same call", loc, key="gym-step-state",
             detail=show(p.self_attrs.get("state", NONE), maxlen=120))
        s.ob(rule, con, c[2][0] == ("attr", self_, "state"), "the step starts from the stored state", loc, key="gym-step-from", detail=show(c[2][0]))
    con = "LeraxToGymEnv.reset"
    loc = s.loc("LeraxToGymEnv", "reset")
    for p in live(s.paths(b, "LeraxToGymEnv", "reset")):
        calls = [x for x in walk(p.ret) if isinstance(x, tuple) and x and x[0] == "call" and x[1] == ("attr", ("attr", self_, "env"), "reset")]
        ok = len(calls) == 1 and isinstance(p.ret, tuple) and p.ret[0] == "tuple" and len(p.ret[1]) == 2
        if ok:
            c = calls[0]
            ok = ("item", c, 1) in set(walk(p.ret[1][0])) and ("item", c, 2) in set(walk(p.ret[1][1])) and p.self_attrs.get("state") == ("item", c, 0)
        s.ob(rule, con, ok, "reset returns (obs, info) = elements (1, 2) of env.reset and stores element 0 as the state", loc, key="gym-reset-order",
             detail=show(p.ret, maxlen=200))
    # the adapter re-seeds exactly when a seed is given: the guard must be `seed is not None` (0 is a seed like any other) and the new key
    # is jr.key(int(seed)); on the other path the key is carried on
    seeded = [p_ for p_ in live(s.paths(b, "LeraxToGymEnv", "reset")) if p_.conds]
    guards = {show(t, maxlen=80) for p_ in live(s.paths(b, "LeraxToGymEnv", "reset")) for t, v in p_.conds}
    want_guard = ("cmp", "IsNot", ("param", "seed"), NONE)
    okg = all(t in (want_guard, ("cmp", "Is", ("param", "seed"), NONE)) for p_ in live(s.paths(b, "LeraxToGymEnv", "reset")) for t, v in p_.conds) and bool(seeded)
    s.ob(rule, "LeraxToGymEnv.reset", okg, "the adapter re-seeds under `seed is not None` (a truthiness test would ignore seed=0)", s.loc("LeraxToGymEnv", "reset"), key="gym-reset-seed-guard",
         detail="; ".join(sorted(guards)), necessary_for="the Gymnasium adapter reproduces the adapted environment's trajectory for every seed")
    for p_ in live(s.paths(b, "LeraxToGymEnv", "reset")):
        given = any((t == want_guard and v) or (t == ("cmp", "Is", ("param", "seed"), NONE) and not v) for t, v in p_.conds)
        if not given:
            continue
        calls_ = [x for x in walk(p_.ret) if isinstance(x, tuple) and x and x[0] == "call" and x[1] == ("attr", ("attr", self_, "env"), "reset")]
        kk = dict((k, v) for k, v in calls_[0][3] if k).get("key") if calls_ else None
        want_key = ("call", ("global", "jax.random.key"), (("call", ("global", "int"), (("param", "seed"),), ()),), ())
        okk = kk is not None and want_key in set(walk(kk)) and ("attr", self_, "key") not in set(walk(kk))
        s.ob(rule, "LeraxToGymEnv.reset[seed given]", okk, "with a seed the reset key derives from jr.key(int(seed)) alone (not from the adapter's running key)", s.loc("LeraxToGymEnv", "reset"),
             key="gym-reset-seed-key", detail=show(kk if kk is not None else NONE, maxlen=140))
    # GymToLeraxEnv.transition: io_callback result tuple aligned with the callback's return tuple and the Gymnasium order
    con = "GymToLeraxEnv.transition"
    loc = s.loc("GymToLeraxEnv", "transition")
    p = one(s.paths(b, "GymToLeraxEnv", "transition"), con)
    f = fields(p.ret)
    ios = [x for x in walk(p.ret) if isinstance(x, tuple) and x and x[0] == "call" and x[1] == ("global", "jax.experimental.io_callback")]
    ok = len(ios) == 1 and isinstance(ios[0][2][0], Closure)
    s.ob(rule, con, ok, "one io_callback with a local step function", loc, key="gym-io", detail=str(len(ios)))
    if ok:
        io = ios[0]
        out = b.apply(io[2][0], (("param", "$act"),), ())
        st = [x for x in walk(out) if isinstance(x, tuple) and x and x[0] == "call" and x[1] == ("attr", ("attr", self_, "env"), "step")]
        NAMES = ("observation", "reward", "terminal", "truncated")
        # two spellings of one plumbing: the callback returns a 4-tuple that the method unpacks into the state's fields, or it returns
        # the state record itself and the method hands the io_callback result on. Either way field F of the successor state is, through
        # the callback, element idx(F) of gym's step()
        as_record = isinstance(out, tuple) and out[0] == "record" and out[1].endswith("GymEnvState")
        if as_record:
            fo = fields(out)
            composed = {n_: fo.get(n_) for n_ in NAMES} if p.ret == io else {}
            okf = p.ret == io
        else:
            elems = out[1] if isinstance(out, tuple) and out[0] == "tuple" and len(out[1]) == 4 else None
            idx = {n_: next((i for i in range(4) if f.get(n_) == ("item", io, i)), None) for n_ in NAMES}
            composed = {n_: elems[idx[n_]] for n_ in NAMES if elems is not None and idx[n_] is not None}
            okf = all(idx[n_] is not None for n_ in NAMES) and len(set(idx.values())) == 4
        okc = len(st) == 1 and len(composed) == 4
        if okc:
            for i, n_ in enumerate(NAMES):
                okc = okc and composed[n_] is not None and nz.canon(composed[n_]) == nz.canon(("item", st[0], i))
        s.ob(rule, con, okc, "through the callback, the fields (observation, reward, terminal, truncated) are elements (0,1,2,3) = (obs, reward, terminated, truncated) of gym step()", loc,
             key="gym-callback-order", detail=show(out, maxlen=300), necessary_for="terminated and truncated are not interchanged")
        s.ob(rule, con, okf, "every state field comes out of the one io_callback result (unpacked element by element, or the result is the state)", loc, key="gym-state-fields",
             detail=show(p.ret, maxlen=300), necessary_for="terminated and truncated are not interchanged")
        shapes = io[2][1] if len(io[2]) > 1 else None
        if as_record:
            oks = isinstance(shapes, tuple) and shapes[0] == "record" and shapes[1] == out[1] and set(NAMES) <= set(fields(shapes))
        else:
            oks = isinstance(shapes, tuple) and shapes[0] == "tuple" and len(shapes[1]) == 4
        s.ob(rule, con, oks, "the result-shape template has the structure the callback returns (one entry per returned element / the same state class)", loc, key="gym-shape-tuple",
             detail=show(shapes or NONE, maxlen=200))
    for meth, want in (("observation", "state.observation"), ("reward", "next_state.reward"), ("terminal", "state.terminal"), ("truncate", "state.truncated")):
        pp = one(s.paths(b, "GymToLeraxEnv", meth), f"GymToLeraxEnv.{meth}")
        s.ob(rule, f"GymToLeraxEnv.{meth}", pp.ret == s.ref(b, want, {"state": ("param", "state"), "next_state": ("param", "next_state")}), f"{meth} == {want}",
             s.loc("GymToLeraxEnv", meth), key="gym-accessor", detail=show(pp.ret))
    # Gymnax
    con = "GymnaxToLeraxEnv.transition"
    loc = s.loc("GymnaxToLeraxEnv", "transition")
    p = one(s.paths(b, "GymnaxToLeraxEnv", "transition"), con)
    f = fields(p.ret)
    st = [x for x in walk(p.ret) if isinstance(x, tuple) and x and x[0] == "call" and x[1] == ("attr", ("attr", self_, "env"), "step_env")]
    ok = len(st) == 1
    if ok:
        c = st[0]
        ok = (c[2] == (("param", "key"), ("attr", ("param", "state"), "env_state"), ("param", "action"), ("attr", self_, "params"))
              and f.get("observation") == ("item", c, 0) and f.get("env_state") == ("item", c, 1) and f.get("reward") == ("item", c, 2) and f.get("terminal") == ("item", c, 3))
    s.ob(rule, con, ok, "step_env(key, state.env_state, action, params) -> fields (observation, env_state, reward, terminal) = elements (0,1,2,3)", loc,
         key="gymnax-step-order", detail=show(p.ret, maxlen=300))
    con = "LeraxToGymnaxEnv.step_env"
    loc = s.loc("LeraxToGymnaxEnv", "step_env")
    p = one(s.paths(b, "LeraxToGymnaxEnv", "step_env"), con)
    st = [x for x in walk(p.ret) if isinstance(x, tuple) and x and x[0] == "call" and x[1] == ("attr", ("attr", self_, "env"), "step")]
    ok = len(st) == 1 and isinstance(p.ret, tuple) and p.ret[0] == "tuple" and len(p.ret[1]) == 5
    if ok:
        c = st[0]
        r = p.ret[1]
        ok = (r[0] == ("item", c, 1) and fields(r[1]).get("env_state") == ("item", c, 0) and r[2] == ("item", c, 2)
              and nz.canon(r[3]) == nz.canon(("bin", "BitOr", ("item", c, 3), ("item", c, 4))) and r[4] == ("item", c, 5))
    s.ob(rule, con, ok, "returns (obs, state', reward, terminated|truncated, info) from elements (1,0,2,3|4,5) of env.step", loc, key="gymnax-env-step-order",
         detail=show(p.ret, maxlen=300), necessary_for="done = termination | truncation")
    con = "LeraxToGymnaxEnv.reset_env"
    p = one(s.paths(b, "LeraxToGymnaxEnv", "reset_env"), con)
    r = strip_keys(p.ret)
    ok = isinstance(r, tuple) and r[0] == "tuple" and len(r[1]) == 2
    if ok:
        init = ("call", ("attr", ("attr", self_, "env"), "initial"), (), (("key", KEY),))
        ok = r[1][0] == ("call", ("attr", ("attr", self_, "env"), "observation"), (init,), (("key", KEY),)) and fields(r[1][1]).get("env_state") == init
    s.ob(rule, con, ok, "reset_env returns (observation(initial state), state wrapping that same initial state)", s.loc("LeraxToGymnaxEnv", "reset_env"), key="gymnax-reset",
         detail=show(p.ret, maxlen=300))
