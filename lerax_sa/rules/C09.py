"""C09 — each epoch partitions the rollout into disjoint, intact minibatches."""
from __future__ import annotations

from ..model import AnalysisError
from ..norm import Normalizer, show_term
from ..vgraph import NONE, Closure, show, walk
from .C06 import check_flatten
from .util import bind_args, entails, fields, live, one

EXPLANATION = (
    "Index discipline: C09.1 batch_indices == reshape(perm[:N - N % B], (-1, B)) with perm one jr.permutation(key, N) (or arange(N)); "
    "C09.2 gather / batches / RolloutBuffer.sample apply ONE index node with take(axis=0) through a jax.tree.map whose leaf function "
    "does not discriminate leaves; C09.3 flatten_axes' leaf function (shared with C06.4); C09.4 PPO.train_epoch computes the indices "
    "from, and gathers from, the same flattened buffer node, PPO.train scans train_epoch over jr.split(key, num_epochs) with the "
    "scanned key as the shuffle key, batch_size = (num_steps*num_envs)//num_batches."
)
ASSUMPTIONS = [
    "jr.permutation(key, N) is a permutation of range(N); jr.choice(replace=False) does not repeat (JAX contracts)",
    "jax.tree.map applies the same function to every leaf; lax.scan visits the rows of xs once each, in order",
]


def is_take_map(b, nz, node, src_ok):
    """node == jax.tree.map(lambda x: jnp.take(x, I, axis=0), SRC); returns (ok, I, SRC, detail)."""
    if not (isinstance(node, tuple) and node[0] == "call" and node[1] == ("global", "jax.tree.map") and len(node[2]) == 2
            and isinstance(node[2][0], Closure)):
        return False, None, None, show(node, maxlen=200)
    out = b.apply(node[2][0], (("param", "$x"),), ())
    c = nz.canon(out)
    if not (isinstance(c, tuple) and c[0] == "call" and c[1] == "jax.numpy.take"):
        return False, None, node[2][1], show(out, maxlen=200)
    kw = dict(c[3])
    if kw.get("a") != ("p", "$x") or kw.get("axis") != ("k", 0) or "indices" not in kw:
        return False, None, node[2][1], show(out, maxlen=200)
    # the raw index node
    idx = None
    if isinstance(out, tuple) and out[0] == "call":
        idx = out[2][1] if len(out[2]) > 1 else dict((k, v) for k, v in out[3] if k).get("indices")
    if idx is None or ("param", "$x") in set(walk(idx)):
        return False, idx, node[2][1], "index depends on the leaf"
    return True, idx, node[2][1], show(out, maxlen=200)


def check(s):
    self_ = ("param", "self")
    b = s.builder(inline=set())
    nz = Normalizer(b)
    # ---------------------------------------------------------------- C09.1
    con = "AbstractBuffer.batch_indices"
    loc = s.loc("AbstractBuffer", "batch_indices")
    cases = set()
    for p in live(s.paths(b, "AbstractBuffer", "batch_indices")):
        nokey = entails(nz, p.conds, ("cmp", "Is", ("param", "key"), NONE))
        if nokey is None:
            raise AnalysisError(f"{con}: a path does not decide whether a key was given")
        cases.add(nokey)
        tag = "[key=None]" if nokey else "[key]"
        bind = {"self": self_, "key": ("param", "key"), "B": ("param", "batch_size")}
        perm = "jnp.arange(N)" if nokey else "jr.permutation(key, N)"
        ok = False
        got = nz.canon(p.ret)
        first = None
        for T in ("N - N % B", "(N // B) * B"):
            env = s.refprog(b, f"N = self.shape[0]\nout = ({perm})[:{T}].reshape(-1, B)", bind)
            w = nz.canon(env["out"])
            first = first or w
            if w == got:
                ok = True
        s.ob("C09.1", con + tag, ok, "batch_indices == perm[:N − N % B].reshape(−1, B) with perm a single permutation of range(N)", loc,
             key="batch-indices-formula", detail=f"code: {show_term(got, 400)}\nreference: {show_term(first, 400)}",
             necessary_for="every sample is used in at most one minibatch and exactly floor(N/B)*B samples are used")
        perms = [x for x in walk(p.ret) if isinstance(x, tuple) and x and x[0] == "call" and isinstance(x[1], tuple) and x[1][0] == "global" and x[1][1].startswith("jax.random.")]
        s.ob("C09.1", con + tag, len(perms) == (0 if nokey else 1), "one index source: a single random permutation with a key, none without", loc, key="one-permutation",
             detail=str(len(perms)))
    if cases != {True, False}:
        raise AnalysisError(f"{con}: expected keyed and key-less cases")
    # ---------------------------------------------------------------- C09.2
    bgather = s.builder(inline={"gather", "shape"})
    for cls, meth, src_name in (("AbstractBuffer", "gather", "self"), ("AbstractBuffer", "batches", "flat"), ("RolloutBuffer", "sample", "flat")):
        con2 = f"{cls}.{meth}"
        loc2 = s.loc(cls, meth)
        for p in live(s.paths(b if meth == "gather" else bgather, cls, meth)):
            ok, idx, src, det = is_take_map(b, nz, p.ret, None)
            s.ob("C09.2", con2, ok, "result == jax.tree.map(lambda x: take(x, I, axis=0), source) with one leaf-independent index node I", loc2,
                 key="take-map", detail=det, necessary_for="each minibatch row is one collected sample with all of its fields still belonging together")
            if not ok:
                continue
            if meth == "gather":
                s.ob("C09.2", con2, src == self_ and idx == ("param", "indices"), "gather(indices) indexes self with exactly `indices`", loc2,
                     key="gather-args", detail=f"{show(src)} / {show(idx)}")
            elif meth == "batches":
                flat = ("call", ("attr", self_, "flatten_axes"), (("param", "batch_axes"),), ())
                want_idx = ("call", ("attr", flat, "batch_indices"), (("param", "batch_size"),), (("key", ("param", "key")),))
                s.ob("C09.2", con2, src == flat and idx == want_idx, "batches: indices are computed from, and applied to, the same flattened buffer",
                     loc2, key="batches-args", detail=f"{show(src, maxlen=120)} / {show(idx, maxlen=160)}")
            else:
                flat = ("call", ("attr", self_, "flatten_axes"), (("param", "batch_axes"),), ())
                env = s.refprog(b, "idx = jr.choice(key, flat.rewards.shape[0], shape=(batch_size,), replace=False)",
                                {"flat": flat, "key": ("param", "key"), "batch_size": ("param", "batch_size")})
                env2 = s.refprog(b, "idx = jr.choice(key, flat.shape[0], shape=(batch_size,), replace=False)",
                                 {"flat": flat, "key": ("param", "key"), "batch_size": ("param", "batch_size")})
                # `flat.shape` is `flat.rewards.shape` by the buffer's own property (checked just below)
                shp = live(s.paths(b, "RolloutBuffer", "shape"))
                s.ob("C09.2", "RolloutBuffer.shape", len(shp) == 1 and shp[0].ret == ("attr", ("attr", self_, "rewards"), "shape"), "RolloutBuffer.shape is rewards.shape (one entry per sample)",
                     s.loc("RolloutBuffer", "shape"), key="shape-property", detail=show(shp[0].ret if shp else NONE, maxlen=80))
                s.ob("C09.2", con2, src == flat and nz.canon(idx) in (nz.canon(env["idx"]), nz.canon(env2["idx"])),
                     "RolloutBuffer.sample: choice(key, total, (batch_size,), replace=False) over the flattened buffer it indexes", loc2,
                     key="sample-args", detail=f"{show(src, maxlen=120)} / {show(idx, maxlen=200)}")
    # ---------------------------------------------------------------- C09.3
    check_flatten(s, "C09.3")
    # ---------------------------------------------------------------- C09.4
    b4 = s.builder(inline=set())
    nz4 = Normalizer(b4)
    con4 = "PPO.train_epoch"
    loc4 = s.loc("PPO", "train_epoch")
    p = one(s.paths(b4, "PPO", "train_epoch"), con4)
    scans = [x for x in walk(p.ret) if isinstance(x, tuple) and x and x[0] == "scan"]
    s.ob("C09.4", con4, len(scans) == 1, "one scan over minibatches", loc4, key="one-scan", detail=str(len(scans)))
    # every update of the epoch goes through that scan over index rows: no path of train_epoch hands train_batch anything else (a
    # "single minibatch" short cut that trains on the whole flattened buffer uses all N samples where floor(N/B)*B are due)
    direct = []
    for p_all in live(s.paths(b4, "PPO", "train_epoch")):
        direct += [x for x in walk(p_all.ret) if isinstance(x, tuple) and x and x[0] == "call" and x[1] == ("attr", self_, "train_batch")]
    s.ob("C09.4", con4, not direct, "train_batch is reached only from the scan over minibatch index rows", loc4, key="update-outside-scan",
         detail="; ".join(show(x, maxlen=120) for x in direct[:2]), necessary_for="exactly floor(N/B)*B of the N samples are used, each in at most one minibatch of B rows")
    if len(scans) == 1:
        sc = scans[0]
        flat = ("call", ("attr", ("param", "rollout_buffer"), "flatten_axes"), (), ())
        want_xs = ("call", ("attr", flat, "batch_indices"), (("attr", self_, "batch_size"),), (("key", ("param", "key")),))
        s.ob("C09.4", con4, nz4.canon(sc[3]) == nz4.canon(want_xs),
             "the scanned rows are flat.batch_indices(self.batch_size, key=key) with flat = rollout_buffer.flatten_axes()", loc4,
             key="epoch-indices", detail=show(sc[3], maxlen=200), necessary_for="every epoch visits the data once under the epoch's own shuffle")
        s.ob("C09.4", con4, nz4.canon(sc[2]) == nz4.canon(("tuple", (("param", "policy"), ("param", "opt_state")))), "the carry is (policy, opt_state)", loc4, key="epoch-carry",
             detail=show(sc[2], maxlen=100))
        body = sc[1]
        if body is not None:
            # the scan body may be a local function, a functools.partial of a (new) method, or a bound method
            carry = ("tuple", (("param", "$pol"), ("param", "$opt")))
            out = b4.apply_any(body, (carry, ("param", "$rows")), ())
            tb = [x for x in walk(out) if isinstance(x, tuple) and x and x[0] == "call" and x[1] == ("attr", self_, "train_batch")]
            okb = False
            if len(tb) == 1:
                _, _, ftb = s.method("PPO", "train_batch")
                m = bind_args(ftb, tb[0][2], tb[0][3])
                want_batch = ("call", ("attr", flat, "gather"), (("param", "$rows"),), ())
                okb = (m.get("policy") == ("param", "$pol") and m.get("opt_state") == ("param", "$opt")
                       and nz4.canon(m.get("rollout_buffer", NONE)) == nz4.canon(want_batch)
                       and nz4.canon(out) == nz4.canon(("tuple", (("tuple", (("item", tb[0], 0), ("item", tb[0], 1))), ("item", tb[0], 2)))))
            s.ob("C09.4", con4, okb, "body: batch = flat.gather(row) (same flattened buffer the indices came from); carry' = train_batch's (policy, opt_state)",
                 loc4, key="epoch-body", detail=show(out, maxlen=300),
                 necessary_for="indices index the buffer they were computed for; the optimiser state threads through the minibatches")
    con5 = "PPO.train"
    loc5 = s.loc("PPO", "train")
    p5 = one(s.paths(b4, "PPO", "train"), con5)
    ret = p5.ret
    scans = [x for x in walk(ret[1][0]) if isinstance(x, tuple) and x and x[0] == "scan"] if isinstance(ret, tuple) and ret[0] == "tuple" else []
    s.ob("C09.4", con5, len(scans) == 1, "one scan over epochs", loc5, key="one-epoch-scan", detail=str(len(scans)))
    if len(scans) == 1:
        sc = scans[0]
        want_xs = s.ref(b4, "jr.split(key, self.num_epochs)", {"key": ("param", "key"), "self": self_})
        s.ob("C09.4", con5, nz4.canon(sc[3]) == nz4.canon(want_xs), "epoch keys are jr.split(key, self.num_epochs)", loc5, key="epoch-keys",
             detail=show(sc[3], maxlen=120), necessary_for="a fresh shuffle per epoch")
        body = sc[1]
        if isinstance(body, Closure):
            carry = ("tuple", (("param", "$pol"), ("param", "$opt")))
            out = b4.apply(body, (carry, ("param", "$k")), ())
            te = [x for x in walk(out) if isinstance(x, tuple) and x and x[0] == "call" and x[1] == ("attr", self_, "train_epoch")]
            okb = False
            if len(te) == 1:
                _, _, fte = s.method("PPO", "train_epoch")
                m = bind_args(fte, te[0][2], te[0][3])
                okb = (m.get("policy") == ("param", "$pol") and m.get("opt_state") == ("param", "$opt") and m.get("rollout_buffer") == ("param", "buffer")
                       and m.get("key") == ("param", "$k")
                       and nz4.canon(out) == nz4.canon(("tuple", (("tuple", (("item", te[0], 0), ("item", te[0], 1))), ("item", te[0], 2)))))
            if not okb:
                # the body does not call train_epoch literally (the flattening hoisted out of the loop, the epoch split into helpers): it
                # must still compute what train_epoch(policy, opt_state, buffer, key=<scanned key>) computes - compared with train_epoch
                # looked through on both sides
                b4i = s.builder(inline={"train_epoch"})
                nzi = Normalizer(b4i)
                p5i = one(s.paths(b4i, "PPO", "train"), con5)
                sci = [x for x in walk(p5i.ret) if isinstance(x, tuple) and x and x[0] == "scan"]
                sci = [x for x in sci if nzi.canon(x[3]) == nzi.canon(want_xs)]
                if len(sci) == 1 and isinstance(sci[0][1], Closure):
                    got_i = b4i.apply(sci[0][1], (carry, ("param", "$k")), ())
                    W = s.ref(b4i, "self.train_epoch(pol, opt, buffer, key=k)",
                              {"self": self_, "pol": ("param", "$pol"), "opt": ("param", "$opt"), "buffer": ("param", "buffer"), "k": ("param", "$k")})
                    want_i = ("tuple", (("tuple", (("item", W, 0), ("item", W, 1))), ("item", W, 2)))
                    okb = nzi.canon(got_i) == nzi.canon(want_i)
                    out = got_i
            s.ob("C09.4", con5, okb, "body: train_epoch(policy, opt_state, buffer, key=<scanned key>) — the shuffle key is the epoch's own key",
                 loc5, key="epoch-scan-body", detail=show(out, maxlen=300))
        s.ob("C09.4", con5, ret[1][0] == ("item", ("item", sc, 0), 0) and ret[1][1] == ("item", ("item", sc, 0), 1),
             "train returns the final (policy, opt_state) of the epoch scan", loc5, key="train-returns", detail=show(("tuple", ret[1][:2]), maxlen=200))
    b6 = s.builder(inline=set())
    nz6 = Normalizer(b6)
    p6 = one(s.paths(b6, "PPO", "__init__"), "PPO.__init__")
    s.eq("C09.4", "PPO.__init__", nz6, p6.self_attrs.get("batch_size", NONE),
         s.ref(b6, "(num_steps * num_envs) // num_batches", {k: ("param", k) for k in ("num_steps", "num_envs", "num_batches")}),
         "batch_size == (num_steps·num_envs) // num_batches", s.loc("PPO", "__init__"), key="batch-size")
    from .util import no_late_binding
    no_late_binding(s, "C09.2", ("lerax.buffer", "lerax.algorithm.ppo"), necessary_for="every field of a stored transition comes from the same insertion (a function value built in a loop must not read the loop variable late)")
    # ---------------------------------------------------------------- C09.5 "each minibatch row is one collected sample with all of its fields
    # still belonging together" starts where the row is written: observation, action, log-prob, value, mask and policy state of a row
    # are those of ONE policy call on ONE observation (the policy state the call was made from, not the one it returned)
    from .stepref import on_policy_rows
    from ..vgraph import NONE as _NONE
    for o in on_policy_rows(s):
        for fld, refname, what in (("observations", "obs", "the observation acted on"), ("actions", "action", "the action of the policy call"),
                                   ("log_probs", "logp", "the log-probability of that call"), ("values", "value", "the value of that call"),
                                   ("action_masks", "mask", "the mask given to that call")):
            s.eq("C09.5", o["con"], o["nz"], o["row"].get(fld, _NONE), o["ref"][refname], f"row.{fld} is {what}", o["loc"], key=f"row-{fld}",
                 necessary_for="each minibatch row is one collected sample with all of its fields still belonging together")
        s.eq("C09.5", o["con"], o["nz"], o["row"].get("states", _NONE), s.ref(o["b"], "state.policy_state", {"state": ("param", "state")}),
             "row.states is the policy state the call was made from (the incoming one)", o["loc"], key="row-states",
             necessary_for="each minibatch row is one collected sample with all of its fields (policy state included) still belonging together")

    for r_, n in (("C09.5", 12), ("C09.1", 4), ("C09.2", 6), ("C09.3", 3), ("C09.4", 9)):
        s.floor(r_, n)
