"""C20 — Unitree G1 episodes are randomised within range and gait phase stays coherent."""
from __future__ import annotations

from ..model import AnalysisError
from ..norm import Normalizer, show_term
from ..vgraph import KEY, NONE, Closure, show, strip_keys, walk
from .util import bind_args, fields, kwargs_of, live, one

EXPLANATION = (
    "C20.1 each randomize_* replaces exactly one model field through tree_replace({one key}); its factor is jr.uniform(minval=range[0], "
    "maxval=range[1]) of ITS OWN range parameter, value = nominal*scale (mass: plus a uniform torso offset at torso_body_id) written at the "
    "actuated slice [6:] (friction: the foot pair block); randomize_model forwards every range/nominal keyword to the like-named "
    "parameter with four distinct split keys. C20.2 in the three initial()s the model is randomize_model(self.base_model, <every keyword "
    "bound to the like-named attribute>), the state's model field is that node, the simulation data goes through mjx.forward after the "
    "last qpos change (via _snap_to_ground with the same model); locomotion samples each command component and the gait frequency from "
    "its own range attribute, the standing tasks store zeros. C20.3 advance_gait_phase == fmod(phase + 2*pi*f*dt + pi, 2*pi) - pi on the "
    "whole phase vector; transition (all 8 static configurations) advances it exactly once with (state.gait_phase, "
    "state.gait_frequency, self.dt) and carries gait_frequency, command and model unchanged; the initial phases are (0, pi). C20.4 "
    "desired_foot_height == where(x <= 0.5, B(0,h,2x), B(h,0,2x-1)) with x = (phase+pi)/(2*pi), B cubic Bezier x^3 + 3x^2(1-x)."
)
ASSUMPTIONS = [
    "jr.uniform(minval, maxval) stays within [minval, maxval); mjx.forward recomputes derived kinematics",
    "numeric range of the Bezier polynomial on [0,1] and fmod for negative frequencies are not decided",
]

RM = "lerax.env.unitree.g1.randomize"
RAND_REFS = {
    "randomize_friction": ("pair_friction", "model.pair_friction.at[0:2, 0:2].set(jr.uniform(key, minval=friction_range[0], maxval=friction_range[1]))"),
    "randomize_friction_loss": ("dof_frictionloss", "model.dof_frictionloss.at[6:].set(nominal_friction_loss * jr.uniform(key, shape=(nominal_friction_loss.shape[0],), "
                                                    "minval=scale_range[0], maxval=scale_range[1]))"),
    "randomize_armature": ("dof_armature", "model.dof_armature.at[6:].set(nominal_armature * jr.uniform(key, shape=(nominal_armature.shape[0],), "
                                           "minval=scale_range[0], maxval=scale_range[1]))"),
}
MASS_REF = """
ks = jr.split(key)
bm = nominal_body_mass * jr.uniform(ks[0], shape=(model.nbody,), minval=scale_range[0], maxval=scale_range[1])
out = bm.at[torso_body_id].set(bm[torso_body_id] + jr.uniform(ks[1], minval=torso_offset_range[0], maxval=torso_offset_range[1]))
"""
KW_OF = {
    "randomize_friction": {"friction_range": "friction_range"},
    "randomize_friction_loss": {"nominal_friction_loss": "nominal_friction_loss", "scale_range": "friction_loss_scale_range"},
    "randomize_armature": {"nominal_armature": "nominal_armature", "scale_range": "armature_scale_range"},
    "randomize_body_mass": {"nominal_body_mass": "nominal_body_mass", "scale_range": "mass_scale_range", "torso_body_id": "torso_body_id",
                            "torso_offset_range": "torso_offset_range"},
}
MODEL_KWS = ["nominal_friction_loss", "nominal_armature", "nominal_body_mass", "torso_body_id", "friction_range", "friction_loss_scale_range",
             "armature_scale_range", "mass_scale_range", "torso_offset_range"]


def replaced(ret):
    """model.tree_replace({k: v}) -> (base, {k: v}) or None."""
    if isinstance(ret, tuple) and ret[0] == "call" and isinstance(ret[1], tuple) and ret[1][0] == "attr" and ret[1][2] == "tree_replace" and len(ret[2]) == 1 \
            and isinstance(ret[2][0], tuple) and ret[2][0][0] == "dict":
        return ret[1][1], {k[1]: v for k, v in ret[2][0][1] if k[0] == "const"}
    return None


def check(s):
    P = s.prog
    self_ = ("param", "self")
    b = s.builder(inline=set())
    nz = Normalizer(b)
    # ---------------------------------------------------------------- C20.1
    for fn_name, (field, expr) in list(RAND_REFS.items()) + [("randomize_body_mass", ("body_mass", None))]:
        m, fn = s.function(RM, fn_name)
        loc = P.loc(m, fn)
        p = one(s.fpaths(b, RM, fn_name), fn_name)
        rp = replaced(p.ret)
        ok = rp is not None and rp[0] == ("param", "model") and set(rp[1]) == {field}
        s.ob("C20.1", fn_name, ok, f"{fn_name} replaces exactly the model field `{field}`", loc, key="one-field", detail=show(p.ret, maxlen=200),
             necessary_for="every other model parameter equals the nominal one")
        if not ok:
            continue
        params = {a.arg: ("param", a.arg) for a in fn.args.args + fn.args.kwonlyargs}
        if expr is not None:
            want = s.ref(b, expr, params)
        else:
            want = s.refprog(b, MASS_REF, params)["out"]
        s.eq("C20.1", fn_name, nz, rp[1][field], want, f"{field} == nominal · uniform(own range)" + (" (+ uniform torso offset at torso_body_id)" if expr is None else "")
             + " written at the randomised slice", loc, key="randomised-value", necessary_for="randomised parameters lie within the configured ranges around the nominal model")
    # randomize_model threading
    bm = s.builder(inline=set())
    m, fn = s.function(RM, "randomize_model")
    loc = P.loc(m, fn)
    p = one(s.fpaths(bm, RM, "randomize_model"), "randomize_model")
    node = p.ret
    chain = []
    while isinstance(node, tuple) and node[0] == "call" and isinstance(node[1], tuple) and node[1][0] == "global" and node[1][1].startswith(RM + ".randomize_"):
        chain.append(node)
        node = node[2][0] if node[2] else NONE
    names = [c[1][1].rsplit(".", 1)[1] for c in chain]
    s.ob("C20.1", "randomize_model", sorted(names) == sorted(KW_OF) and node == ("param", "model"), "randomize_model applies each of the four randomisers once, starting from `model`",
         loc, key="four-randomisers", detail=str(names))
    keys = []
    for c in chain:
        nm = c[1][1].rsplit(".", 1)[1]
        kw = kwargs_of(c)
        keys.append(kw.get("key"))
        for pn, src in KW_OF.get(nm, {}).items():
            s.ob("C20.1", f"randomize_model->{nm}", kw.get(pn) == ("param", src), f"{nm}({pn}=...) receives randomize_model's `{src}`", loc, key=f"forward-{nm}-{pn}",
                 detail=show(kw.get(pn, NONE)), necessary_for="each parameter is randomised within ITS configured range")
    sp = {k[1] for k in keys if isinstance(k, tuple) and k[0] == "item"}
    s.ob("C20.1", "randomize_model", len(keys) == 4 and len(set(keys)) == 4 and len(sp) == 1, "the four randomisers use four distinct items of one key split", loc, key="distinct-keys",
         detail=str([show(k or NONE) for k in keys]))
    # ---------------------------------------------------------------- C20.2
    for cls in ("G1Locomotion", "G1Standing", "G1Standup"):
        if not P.has_cls(cls):
            raise AnalysisError(f"anchor class {cls} vanished")
        bi = s.builder(inline=set())
        nzi = Normalizer(bi)
        con = f"{cls}.initial"
        loc = s.loc(cls, "initial")
        p = one(s.paths(bi, cls, "initial"), con)
        f = fields(p.ret)
        if not f:
            raise AnalysisError(f"{con}: does not return a G1EnvState construction")
        model = f.get("model")
        okm = isinstance(model, tuple) and model[0] == "call" and model[1] == ("global", RM + ".randomize_model") and model[2] == (("attr", self_, "base_model"),)
        s.ob("C20.2", con, okm, "state.model == randomize_model(self.base_model, ...)", loc, key="model-source", detail=show(model or NONE, maxlen=160),
             necessary_for="every episode starts from a freshly randomised model around the nominal one")
        if okm:
            kw = kwargs_of(model)
            for k_ in MODEL_KWS:
                s.ob("C20.2", con, kw.get(k_) == ("attr", self_, k_), f"randomize_model({k_}=self.{k_})", loc, key=f"kw-{k_}", detail=show(kw.get(k_, NONE)),
                     necessary_for="each range is the configured range of that parameter (keyword alignment)")
        sim = f.get("sim_state")
        oks = isinstance(sim, tuple) and sim[0] == "call" and sim[1] == ("attr", self_, "_snap_to_ground") and len(sim[2]) == 2 and sim[2][0] == model
        s.ob("C20.2", con, oks, "sim_state == self._snap_to_ground(model, data) with the same randomised model", loc, key="snap-to-ground", detail=show(sim or NONE, maxlen=200))
        if oks:
            d = sim[2][1]
            okf = isinstance(d, tuple) and d[0] == "call" and d[1] == ("global", "mujoco.mjx.forward") and d[2][0] == model
            s.ob("C20.2", con, okf, "the data handed to _snap_to_ground went through mjx.forward(model, ·) after qpos/qvel were set", loc, key="forward-before-snap", detail=show(d, maxlen=160),
                 necessary_for="derived kinematics (xpos, site_xpos) used by the ground snap are consistent with the joint configuration")
            if okf:
                inner = d[2][1]
                okr = isinstance(inner, tuple) and inner[0] == "call" and isinstance(inner[1], tuple) and inner[1][0] == "attr" and inner[1][2] == "replace" \
                    and {"qpos", "qvel"} <= set(kwargs_of(inner))
                s.ob("C20.2", con, okr, "qpos and qvel are written into the data before that forward pass", loc, key="replace-before-forward", detail=show(inner, maxlen=120))
        if cls == "G1Locomotion":
            cmd = strip_keys(f.get("command", NONE))
            s.ob("C20.2", con, cmd == ("call", ("attr", self_, "sample_command"), (), (("key", KEY),)), "command == self.sample_command(key)", loc, key="command-source", detail=show(cmd, maxlen=120))
            gf = strip_keys(f.get("gait_frequency", NONE))
            want = s.ref(bi, "jr.uniform(K, minval=self.gait_frequency_range[0], maxval=self.gait_frequency_range[1])", {"self": self_, "K": KEY})
            got = gf
            if isinstance(got, tuple) and got[0] == "call" and got[1] == ("global", "jax.random.uniform") and got[2]:
                got = ("call", got[1], (KEY,) + tuple(got[2][1:]), got[3])
            s.eq("C20.2", con, nzi, got, want, "gait_frequency == uniform(gait_frequency_range[0], gait_frequency_range[1])", loc, key="gait-frequency",
                 necessary_for="the gait frequency lies within its configured range")
        else:
            s.ob("C20.2", con, nzi.canon(f.get("command", NONE)) == nzi.canon(s.ref(bi, "jnp.zeros(3)", {})), "standing tasks store a zero command", loc, key="zero-command",
                 detail=show(f.get("command", NONE)), necessary_for="zero command for the standing tasks")
            s.ob("C20.2", con, nzi.canon(f.get("gait_frequency", NONE)) == ("k", 0), "standing tasks store gait frequency 0", loc, key="zero-frequency", detail=show(f.get("gait_frequency", NONE)))
        ph = f.get("gait_phase")
        s.ob("C20.3", con, isinstance(ph, tuple) and ph[0] == "call" and ph[1] == ("global", "lerax.env.unitree.g1.gait.initial_gait_phase") and not ph[2], "gait_phase starts at initial_gait_phase()",
             loc, key="initial-phase", detail=show(ph or NONE))
    # _snap_to_ground ends in mjx.forward after its qpos edit
    bs = s.builder(inline=set())
    p = one(s.paths(bs, "AbstractG1Env", "_snap_to_ground"), "_snap_to_ground")
    r = p.ret
    ok = isinstance(r, tuple) and r[0] == "call" and r[1] == ("global", "mujoco.mjx.forward") and r[2][0] == ("param", "model")
    inner = r[2][1] if ok else None
    ok = ok and isinstance(inner, tuple) and inner[0] == "call" and isinstance(inner[1], tuple) and inner[1][0] == "attr" and inner[1][2] == "replace" and "qpos" in kwargs_of(inner)
    s.ob("C20.2", "AbstractG1Env._snap_to_ground", ok, "_snap_to_ground returns mjx.forward(model, data.replace(qpos=...)): kinematics are recomputed after the last qpos change",
         s.loc("AbstractG1Env", "_snap_to_ground"), key="forward-after-snap", detail=show(r, maxlen=200),
         necessary_for="derived kinematics of the initial state are consistent with its joint configuration")
    # locomotion sample_command
    bc = s.builder(inline=set())
    nzc = Normalizer(bc)
    p = one(s.paths(bc, "G1Locomotion", "sample_command"), "G1Locomotion.sample_command")
    from .C14 import keyless
    want = s.ref(bc, "jnp.where(jr.bernoulli(K, p=self.zero_command_probability), jnp.zeros(3), jnp.array(["
                     "jr.uniform(K, minval=self.lin_vel_x_range[0], maxval=self.lin_vel_x_range[1]), "
                     "jr.uniform(K, minval=self.lin_vel_y_range[0], maxval=self.lin_vel_y_range[1]), "
                     "jr.uniform(K, minval=self.ang_vel_yaw_range[0], maxval=self.ang_vel_yaw_range[1])]))", {"self": self_, "K": KEY})
    s.eq("C20.2", "G1Locomotion.sample_command", nzc, keyless(p.ret), keyless(want), "command == where(bernoulli(p_zero), 0, [U(x-range), U(y-range), U(yaw-range)]) — each component from its own range",
         s.loc("G1Locomotion", "sample_command"), key="command-law", necessary_for="the velocity command lies within its configured ranges")
    ks = [c[2][0] for c in walk(p.ret) if isinstance(c, tuple) and c and c[0] == "call" and c[1] in (("global", "jax.random.uniform"), ("global", "jax.random.bernoulli"))]
    s.ob("C20.2", "G1Locomotion.sample_command", len(ks) == 4 and len(set(ks)) == 4, "the four draws use four distinct keys", s.loc("G1Locomotion", "sample_command"), key="command-keys", detail=str(len(set(ks))))
    # ---------------------------------------------------------------- C20.3
    GM = "lerax.env.unitree.g1.gait"
    bg = s.builder(inline=set())
    nzg = Normalizer(bg)
    m, fn = s.function(GM, "advance_gait_phase")
    p = one(s.fpaths(bg, GM, "advance_gait_phase"), "advance_gait_phase")
    want = s.ref(bg, "jnp.fmod(phase + 2 * jnp.pi * frequency * dt + jnp.pi, 2 * jnp.pi) - jnp.pi", {k: ("param", k) for k in ("phase", "frequency", "dt")})
    s.eq("C20.3", "advance_gait_phase", nzg, p.ret, want, "next phase == fmod(phase + 2π·f·dt + π, 2π) − π (one common shift for both feet)", P.loc(m, fn), key="phase-advance",
         necessary_for="phases stay within [−π, π], remain half a cycle apart and advance by 2π·f·dt per control step")
    m, fn = s.function(GM, "initial_gait_phase")
    p = one(s.fpaths(bg, GM, "initial_gait_phase"), "initial_gait_phase")
    s.eq("C20.3", "initial_gait_phase", nzg, p.ret, s.ref(bg, "jnp.array([0.0, jnp.pi])", {}), "the two feet start half a cycle apart: (0, π)", P.loc(m, fn), key="initial-phase-value")
    bt = s.builder(inline=set())
    loc = s.loc("AbstractG1Env", "transition")
    tp = live(s.paths(bt, "G1Locomotion", "transition"))
    if len(tp) != 8:
        raise AnalysisError(f"AbstractG1Env.transition: expected 8 static configurations, found {len(tp)}")
    state = ("param", "state")
    for i, p in enumerate(tp):
        f = fields(p.ret)
        tag = "[" + ",".join(("+" if v else "-") for t, v in p.conds) + "]"
        adv = [c for c in walk(p.ret) if isinstance(c, tuple) and c and c[0] == "call" and c[1] == ("global", GM + ".advance_gait_phase")]
        want = ("call", ("global", GM + ".advance_gait_phase"), (("attr", state, "gait_phase"), ("attr", state, "gait_frequency"), ("attr", self_, "dt")), ())
        s.ob("C20.3", "AbstractG1Env.transition" + tag, len(adv) == 1 and f.get("gait_phase") == want,
             "gait_phase' == advance_gait_phase(state.gait_phase, state.gait_frequency, self.dt), applied exactly once", loc, key="phase-once", detail=show(f.get("gait_phase", NONE), maxlen=160),
             necessary_for="the phase advances by 2π·frequency·dt per control step")
        for fld in ("gait_frequency", "command", "model"):
            s.ob("C20.3", "AbstractG1Env.transition" + tag, f.get(fld) == ("attr", state, fld), f"{fld} is carried over unchanged", loc, key=f"carry-{fld}", detail=show(f.get(fld, NONE), maxlen=100),
                 necessary_for="randomised parameters, command and frequency stay fixed along the episode")
        steps = [c for c in walk(f.get("sim_state", NONE)) if isinstance(c, tuple) and c and c[0] == "scan"]
        oksc = len(steps) == 1 and steps[0][4] == ("attr", self_, "frame_skip")
        if oksc:
            body = steps[0][1]
            out = bt.apply(body, (("param", "$d"), NONE), ()) if isinstance(body, Closure) else None
            oksc = out is not None and isinstance(out, tuple) and out[0] == "tuple" and out[1][0] == ("call", ("global", "mujoco.mjx.step"), (("attr", state, "model"), ("param", "$d")), ())
        s.ob("C20.3", "AbstractG1Env.transition" + tag, oksc, "the physics is stepped frame_skip times with the episode's own (randomised) model", loc, key="step-with-state-model",
             detail=str(len(steps)))
    # the `dt` the phase advances by is the duration of one control step: frame_skip physics steps of the model's timestep
    bi = s.builder(inline=set())
    nzi = Normalizer(bi)
    n_dt = 0
    seen_dt = set()
    for p in live(s.paths(bi, "AbstractG1Env", "_init_common")):
        a = p.self_attrs
        k_ = (a.get("dt"), a.get("frame_skip"))
        if k_ in seen_dt or a.get("dt") is None:
            continue
        seen_dt.add(k_)
        n_dt += 1
        s.eq("C20.3", "AbstractG1Env._init_common.dt", nzi, a.get("dt", NONE), s.ref(bi, "jnp.array(M.opt.timestep * FS)", {"M": a.get("mujoco_model", NONE), "FS": a.get("frame_skip", NONE)}),
             "dt == model timestep * frame_skip (the duration of the frame_skip physics steps one control step runs)", s.loc("AbstractG1Env", "_init_common"), key="control-period",
             necessary_for="the phase advances by 2π·frequency·dt per control step, dt being the time a control step simulates")
    if n_dt == 0:
        raise AnalysisError("AbstractG1Env._init_common: dt is not assigned")
    # ---------------------------------------------------------------- C20.4
    m, fn = s.function(GM, "desired_foot_height")
    p = one(s.fpaths(bg, GM, "desired_foot_height"), "desired_foot_height")
    ref = s.refprog(bg, """
x = (phase + jnp.pi) / (2 * jnp.pi)
u = 2 * x
w = 2 * x - 1
stance = 0 + (swing_height - 0) * (u ** 3 + 3 * (u ** 2 * (1 - u)))
swing = swing_height + (0 - swing_height) * (w ** 3 + 3 * (w ** 2 * (1 - w)))
out = jnp.where(x <= 0.5, stance, swing)
""", {"phase": ("param", "phase"), "swing_height": ("param", "swing_height")})
    s.eq("C20.4", "desired_foot_height", nzg, p.ret, ref["out"], "desired height == where(x ≤ ½, B(0,h,2x), B(h,0,2x−1)), x = (φ+π)/2π, B = x³ + 3x²(1−x)", P.loc(m, fn), key="foot-height",
         necessary_for="desired foot heights vanish at phase −π and peak at phase 0")
    br = s.builder(inline=set())
    for p in live(s.paths(br, "G1Locomotion", "reward"))[:1]:
        calls = [c for c in walk(p.ret) if isinstance(c, tuple) and c and c[0] == "call" and c[1] == ("global", GM + ".desired_foot_height")]
        ok = len(calls) == 1 and calls[0][2] == (("attr", ("param", "next_state"), "gait_phase"), ("attr", self_, "max_foot_height"))
        s.ob("C20.4", "G1Locomotion.reward", ok, "the reward asks for desired_foot_height(next_state.gait_phase, self.max_foot_height)", s.loc("G1Locomotion", "reward"), key="foot-height-args",
             detail="; ".join(show(c, maxlen=160) for c in calls))
    check_config_plumbing(s)
    from .util import ctor_wiring
    for cls_ in ("G1Locomotion", "G1Standing", "G1Standup"):
        ctor_wiring(s, "C20.5", cls_, necessary_for="command components, gait frequency and the zero-command probability are the configured ones (zero included)")
    for r_, n_ in (("C20.1", 19), ("C20.2", 44), ("C20.3", 45), ("C20.4", 2), ("C20.5", 40)):
        s.floor(r_, n_)


def check_config_plumbing(s):
    """C20.5: the configured ranges reach the randomisers. Every constructor parameter of a G1 task that `_init_common` also takes is
    forwarded under its own name (a keyword that is dropped silently falls back to _init_common's default: the randomisation then
    ignores the configured range), and `_init_common` stores every parameter that has a like-named attribute from that parameter."""
    import ast
    P = s.prog
    self_ = ("param", "self")
    ci0, dc0, f0 = s.method("AbstractG1Env", "_init_common")
    common = [a.arg for a in f0.args.args + f0.args.kwonlyargs if a.arg != "self"]
    b0 = s.builder(inline=set())
    loc0 = s.loc("AbstractG1Env", "_init_common")

    def derived_from(v, name):
        ps = {x[1] for x in walk(v) if isinstance(x, tuple) and x and x[0] == "param"} - {"self"}
        return name in ps and ps <= {name}

    def is_none_on(path, name):
        for t, v in path.conds:
            if isinstance(t, tuple) and t[0] == "cmp" and t[3] == NONE and t[2] == ("param", name) and ((t[1] == "IsNot" and not v) or (t[1] == "Is" and v)):
                return True
        return False

    fields_of = {f.name for f in P.dataclass_fields(P.cls("AbstractG1Env"))}
    for p0 in live(s.paths(b0, "AbstractG1Env", "_init_common")):
        for name in common:
            if name not in fields_of and name not in p0.self_attrs:
                continue
            v = p0.self_attrs.get(name)
            none_default = v is not None and is_none_on(p0, name) and not {x for x in walk(v) if isinstance(x, tuple) and x and x[0] == "param"}
            s.ob("C20.5", f"AbstractG1Env._init_common.{name}", v is not None and (derived_from(v, name) or none_default), f"attribute `{name}` is set from the parameter `{name}` (and nothing else)", loc0,
                 key=f"stores-{name}", detail=show(v if v is not None else NONE, maxlen=120), necessary_for="randomisation and command sampling use the configured ranges")
    for cls in ("G1Locomotion", "G1Standing", "G1Standup"):
        ci, dc, fn = s.method(cls, "__init__")
        loc = s.loc(cls, "__init__")
        own = [a.arg for a in fn.args.args + fn.args.kwonlyargs if a.arg != "self"]
        b = s.builder(inline=set())
        for p_ in live(s.paths(b, cls, "__init__")):
            calls = [e[1] for e in p_.effects if isinstance(e[1], tuple) and e[1][0] == "call" and e[1][1] == ("attr", self_, "_init_common")]
            calls += [c for c in walk(("tuple", tuple(v for v in p_.self_attrs.values() if v is not None))) if isinstance(c, tuple) and c and c[0] == "call" and c[1] == ("attr", self_, "_init_common")]
            s.ob("C20.5", f"{cls}.__init__", len(calls) >= 1, "the constructor calls self._init_common(...)", loc, key="calls-init-common", detail=str(len(calls)))
            if not calls:
                continue
            m_ = bind_args(f0, calls[0][2], calls[0][3])
            for name in common:
                if name not in own:
                    continue
                v = m_.get(name)
                s.ob("C20.5", f"{cls}.__init__.{name}", v is not None and derived_from(v, name), f"constructor argument `{name}` is forwarded to _init_common({name}=...)", loc,
                     key=f"forwards-{name}", detail="not passed (the default of _init_common applies)" if v is None else show(v, maxlen=120),
                     necessary_for="friction, friction loss, armature and body masses lie within the CONFIGURED ranges for every task")
            # task-specific parameters with a like-named attribute
            for name in own:
                if name in common:
                    continue
                v = p_.self_attrs.get(name)
                if v is None:
                    continue
                none_default = is_none_on(p_, name) and not {x for x in walk(v) if isinstance(x, tuple) and x and x[0] == "param"}
                s.ob("C20.5", f"{cls}.__init__.{name}", derived_from(v, name) or none_default, f"attribute `{name}` is set from the constructor argument `{name}`", loc, key=f"stores-{name}",
                     detail=show(v, maxlen=120), necessary_for="command components and gait frequency are sampled from their own configured ranges")
