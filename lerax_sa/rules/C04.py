"""C04 — an on-policy rollout is a faithful record of the interaction."""
from __future__ import annotations

from ..model import AnalysisError
from ..norm import Normalizer, show_term
from ..vgraph import KEY, NONE, TRUE, Closure, replace_nodes, show, strip_keys, walk
from .stepref import ACT_BOX, ACT_OTHER, BIND, ON_POLICY, box_case
from .util import bind_args, fields, live, one

EXPLANATION = (
    "Field-sensitive dataflow on the value graph of AbstractActorCriticOnPolicyAlgorithm.step (both static cases of "
    "isinstance(env.action_space, Box)), compared field by field (modulo PRNG-key routing, which C11 decides) with a "
    "reference dataflow written from the property: stored observation = the one the policy saw; stored action, value and "
    "log-prob are items of ONE action_and_value call (the stored action is the very sample); the environment is driven "
    "and its reward computed with the clipped action; done = terminal|truncate of the successor; reward bootstrap "
    "gamma*V(obs(successor)) under exactly `truncation & ~termination`; env and policy state reset under `done`; the "
    "recorded mask is the one applied. Plus collect_rollout's scan structure, sibling agreement of "
    "action_and_value / evaluate_action inside MLPActorCriticPolicy, and the lowering of lerax.utils.filter_cond."
)
ASSUMPTIONS = [
    "lax.cond / lax.scan semantics (JAX); eqx.partition/combine (Equinox)",
    "PRNG key routing is abstracted here and decided by C11's provenance rule",
    "policy and env methods are uninterpreted: the rule states which call results flow where, for every env/policy",
]


def check_policy_siblings(s, rule="C04.9"):
    """Sibling agreement inside the MLP actor-critic policy: action_and_value (used while collecting) and evaluate_action (used by the
    losses) build value and action distribution by identical sub-graphs - features, head, MASK - and reduce the log-probability alike."""
    P = s.prog
    b3 = s.builder(inline=set())
    nz3 = Normalizer(b3)
    pol = "MLPActorCriticPolicy"
    pa = one(s.paths(b3, pol, "action_and_value"), f"{pol}.action_and_value")
    pe = one(s.paths(b3, pol, "evaluate_action"), f"{pol}.evaluate_action")
    pv = one(s.paths(b3, pol, "value"), f"{pol}.value")
    con9 = f"siblings({pol}.action_and_value, evaluate_action, value)"
    loc9 = s.loc(pol, "action_and_value")
    if all(isinstance(x.ret, tuple) and x.ret[0] == "tuple" for x in (pa, pe, pv)) and len(pa.ret[1]) == 4 and len(pe.ret[1]) == 4:
        _, a_act, a_val, a_lp = pa.ret[1]
        _, e_val, e_lp, e_ent = pe.ret[1]
        s.ob(rule, con9, nz3.canon(a_val) == nz3.canon(e_val) == nz3.canon(pv.ret[1][1]),
             "value is computed by the same sub-graph in action_and_value, evaluate_action and value", loc9, key="value-sibling",
             detail=f"{show(a_val, maxlen=160)} | {show(e_val, maxlen=160)} | {show(pv.ret[1][1], maxlen=160)}",
             necessary_for="the stored value is the policy's own value for exactly that observation")
        # distribution node: receiver of sample_and_log_prob / log_prob
        sl = [x for x in walk(a_lp) if isinstance(x, tuple) and x and x[0] == "call" and isinstance(x[1], tuple) and x[1][0] == "attr"
              and x[1][2] == "sample_and_log_prob"]
        lp = [x for x in walk(e_lp) if isinstance(x, tuple) and x and x[0] == "call" and isinstance(x[1], tuple) and x[1][0] == "attr"
              and x[1][2] == "log_prob"]
        ok = len(sl) == 1 and len(lp) == 1
        s.ob(rule, con9, ok, "one sample_and_log_prob call / one log_prob call", loc9, key="logprob-calls", detail=f"{len(sl)}/{len(lp)}")
        if ok:
            s.ob(rule, con9, nz3.canon(sl[0][1][1]) == nz3.canon(lp[0][1][1]),
                 "both methods build the action distribution (features, head, mask) by identical sub-graphs", loc9, key="dist-sibling",
                 detail=f"{show(sl[0][1][1], maxlen=200)} | {show(lp[0][1][1], maxlen=200)}",
                 necessary_for="re-evaluating the stored sample reproduces the stored log-probability")
            s.ob(rule, con9, a_act == ("item", sl[0], 0), "the returned action is element 0 of the sample_and_log_prob call whose element 1 is reduced to the log-prob",
                 loc9, key="action-of-logprob", detail=show(a_act, maxlen=160))
            X = ("param", "$lp")
            ra = replace_nodes(a_lp, {("item", sl[0], 1): X})
            re_ = replace_nodes(e_lp, {lp[0]: X})
            s.ob(rule, con9, nz3.canon(ra) == nz3.canon(re_) and X in set(walk(ra)),
                 "the per-component log-probabilities are reduced by the same function in both methods", loc9, key="reduction-sibling",
                 detail=f"{show(ra, maxlen=160)} | {show(re_, maxlen=160)}")
            _, _, fl = s.method("AbstractDistribution", "log_prob") if P.has_cls("AbstractDistribution") else (None, None, None)
            s.ob(rule, con9, len(lp[0][2]) == 1 and lp[0][2][0] == ("param", "action"), "evaluate_action scores the `action` argument", loc9,
                 key="evaluate-action-arg", detail=show(lp[0], maxlen=160))
    else:
        raise AnalysisError(f"{pol}: unexpected return shapes")


def check(s):
    P = s.prog
    cls = "AbstractActorCriticOnPolicyAlgorithm"
    con0 = f"{cls}.step"
    loc = s.loc(cls, "step")
    b = s.builder(inline=set())
    nz = Normalizer(b)
    paths = live(s.paths(b, cls, "step"))
    cases = {box_case(p) for p in paths}
    if cases != {True, False}:
        raise AnalysisError(f"{con0}: expected the two static cases of isinstance(env.action_space, Box), found {cases}")
    for p in paths:
        box = box_case(p)
        con = f"{con0}[Box={box}]"
        ref = s.refprog(b, ON_POLICY.replace("{ACT}", ACT_BOX if box else ACT_OTHER), BIND)
        ret = strip_keys(p.ret)
        if not (isinstance(ret, tuple) and ret[0] == "tuple" and len(ret[1]) == 2):
            raise AnalysisError(f"{con}: step does not return (step state, buffer row)")
        st, row = fields(ret[1][0]), fields(ret[1][1])
        if not st or not row:
            raise AnalysisError(f"{con}: returned step state / buffer row are not record constructions")

        def eq(rule, fld, got, want, fact, key, nec=""):
            return s.eq(rule, con, nz, got if got is not None else NONE, want, fact, loc, key=key, necessary_for=nec)

        eq("C04.1", "observations", row.get("observations"), ref["obs"],
           "row.observations == env.observation(state.env_state) == the observation passed to the policy", "observations-field",
           "step t holds the observation the policy saw")
        eq("C04.2", "actions", row.get("actions"), ref["action"],
           "row.actions == item 1 of the action_and_value call (the sample itself, not its clipped image)", "actions-field",
           "re-evaluating the stored sample under the unchanged policy reproduces the stored log-prob (first PPO ratio is 1)")
        eq("C04.2", "values", row.get("values"), ref["value"], "row.values == item 2 of the same action_and_value call", "values-field")
        eq("C04.2", "log_probs", row.get("log_probs"), ref["logp"], "row.log_probs == item 3 of the same action_and_value call",
           "log_probs-field", "the stored log-probability is that of the stored action")
        avs = {x for x in walk(("tuple", tuple(v for v in row.values() if v is not None))) if isinstance(x, tuple) and x and x[0] == "call"
               and isinstance(x[1], tuple) and x[1][0] == "attr" and x[1][2] == "action_and_value"}
        raw_row = fields(p.ret[1][1])
        avs_raw = {x for x in walk(("tuple", tuple(v for v in raw_row.values() if v is not None))) if isinstance(x, tuple) and x and x[0] == "call"
                   and isinstance(x[1], tuple) and x[1][0] == "attr" and x[1][2] == "action_and_value"}
        s.ob("C04.2", con, len(avs) == 1 and len(avs_raw) == 1, "exactly one policy.action_and_value call (one key) feeds the row", loc,
             key="one-policy-call", detail=f"{len(avs_raw)} calls")
        # C04.3 — what drives the environment
        trans = [x for x in walk(ret) if isinstance(x, tuple) and x and x[0] == "call" and x[1] == ("attr", ("param", "env"), "transition")]
        rews = [x for x in walk(ret) if isinstance(x, tuple) and x and x[0] == "call" and x[1] == ("attr", ("param", "env"), "reward")]
        s.ob("C04.3", con, len(trans) == 1 and nz.canon(trans[0]) == nz.canon(ref["s1"]),
             "the single env.transition call receives (state.env_state, " + ("clip(action, low, high)" if box else "action") + ")", loc,
             key="transition-action", detail="; ".join(show(x, maxlen=200) for x in trans),
             necessary_for="the environment is driven with the action clipped into a bounded action space")
        s.ob("C04.3", con, len(rews) == 1 and nz.canon(rews[0]) == nz.canon(ref["r"]),
             "the single env.reward call receives (state.env_state, the executed action, successor)", loc, key="reward-action",
             detail="; ".join(show(x, maxlen=200) for x in rews),
             necessary_for="the reward is computed for the executed (clipped) action and the transition taken")
        eq("C04.4", "dones", row.get("dones"), ref["done"], "row.dones == terminal(s1) | truncate(s1) of the pre-reset successor",
           "dones-field", "done = terminal or truncated")
        # C04.5 — bootstrap (selections expanded over Boolean atoms, so cond / where / additive spellings agree; rewards are finite)
        rw = row.get("rewards")
        nzp = Normalizer(b, ite_poly=True)
        got5 = nzp.canon(rw) if rw is not None else None
        want5 = nzp.canon(("ite", ref["boot_pred"], ref["boot_val"], ref["r"]))
        ok5 = got5 == want5
        key5, why5 = "bootstrap-formula", ""
        if not ok5 and got5 is not None:
            # name the failing part: same branches under another predicate, or same predicate with other branches
            for label, pred in (("truncation", "trunc"), ("done", "done"), ("termination", "term"), ("truncation & termination", "trunc & term"), ("~termination", "~term")):
                alt = s.ref(b, pred, ref)
                if got5 == nzp.canon(("ite", alt, ref["boot_val"], ref["r"])):
                    key5, why5 = "bootstrap-predicate", f"the bootstrap is applied under `{label}` instead of `truncation & ~termination`"
            if got5 == nzp.canon(("ite", ref["boot_pred"], ref["r"], ref["boot_val"])):
                key5, why5 = "bootstrap-branch-order", "the bootstrapped value is selected when the predicate is FALSE"
            if got5 == nzp.canon(ref["r"]):
                key5, why5 = "bootstrap-missing", "no bootstrap at all"
        s.ob("C04.5", con, ok5, "row.rewards == r + [truncation & ~termination]·γ·V(obs(pre-reset successor)) with the post-action policy state", loc, key=key5,
             detail=(why5 + "\n" if why5 else "") + f"code normal form:      {show_term(got5, 600) if got5 else 'missing'}\nreference normal form: {show_term(want5, 600)}",
             necessary_for="a step ended only by truncation has γ·V(successor observation) added to its reward; a true termination never bootstraps")
        # unconditional sub-clauses of the bootstrap
        vals = [x for x in walk(rw) if isinstance(x, tuple) and x and x[0] == "call" and x[1] == ("attr", ("param", "policy"), "value")] if rw is not None else []
        s.ob("C04.5", con, len(vals) == 1 and nz.canon(("item", vals[0], 1)) == nz.canon(s.ref(b, "policy.value(nps, env.observation(s1, key=K))[1]", ref)),
             "the bootstrap value is V(post-action policy state, observation of the pre-reset successor)", loc, key="bootstrap-value-inputs",
             detail="; ".join(show(v, maxlen=200) for v in vals))
        # C04.6 resets
        eq("C04.6", "env_state", st.get("env_state"), ref["env_next"],
           "carried env state == cond(done, env.initial(), successor)", "env-reset", "after a done step the environment restarts from a fresh initial state")
        eq("C04.6", "policy_state", st.get("policy_state"), ref["pol_next"],
           "carried policy state == cond(done, policy.reset(), post-action policy state)", "policy-reset",
           "after a done step the policy state restarts")
        # the comparisons are made with the PRNG keys erased; a termination test may draw from its key, so the recorded done flag, the
        # bootstrap guard and the two restart gates have to share ONE evaluation of env.terminal (and of env.truncate)
        for fn_ in ("terminal", "truncate"):
            evs = {x for x in walk(p.ret) if isinstance(x, tuple) and x and x[0] == "call" and x[1] == ("attr", ("param", "env"), fn_)}
            s.ob("C04.6", con, len(evs) == 1, f"env.{fn_} is evaluated once per step: the recorded flag and the restart gates share that evaluation", loc, key=f"one-{fn_}-evaluation",
                 detail="; ".join(show(x, maxlen=120) for x in sorted(evs, key=repr)), necessary_for="done is raised exactly on the steps after which the environment and the policy state restart")
        # C04.7 masks and states
        eq("C04.7", "action_masks", row.get("action_masks"), ref["mask"], "row.action_masks == env.action_mask(state.env_state)", "mask-field",
           "masks offered by the environment are the ones recorded")
        eq("C04.7", "states", row.get("states"), s.ref(b, "state.policy_state", BIND), "row.states == incoming policy state", "states-field")
        av = next(iter(avs)) if len(avs) == 1 else None
        if av is not None:
            _, _, fav = s.method("AbstractActorCriticPolicy", "action_and_value")
            m = bind_args(fav, av[2], av[3])
            s.ob("C04.7", con, nz.canon(m.get("action_mask", NONE)) == nz.canon(ref["mask"]),
                 "the mask passed to the policy is env.action_mask(state.env_state) (the recorded one)", loc, key="mask-applied",
                 detail=show(m.get("action_mask", NONE), maxlen=160), necessary_for="masks are the ones applied")
            s.ob("C04.1", con, nz.canon(m.get("observation", NONE)) == nz.canon(ref["obs"]) and m.get("state") == ("attr", ("param", "state"), "policy_state"),
                 "the policy acts on (state.policy_state, env.observation(state.env_state))", loc, key="policy-inputs",
                 detail=show(av, maxlen=240))
    # ---- C04.8 collect_rollout
    b2 = s.builder(inline=set())
    con8 = f"{cls}.collect_rollout"
    loc8 = s.loc(cls, "collect_rollout")
    pc = one(s.paths(b2, cls, "collect_rollout"), con8)
    scans = [x for x in walk(pc.ret) if isinstance(x, tuple) and x and x[0] == "scan"]
    s.ob("C04.8", con8, len(scans) == 1, "collect_rollout contains exactly one scan", loc8, key="one-scan", detail=str(len(scans)))
    if len(scans) == 1:
        sc = scans[0]
        nz2 = Normalizer(b2)
        xs = sc[3]
        ok_xs = (isinstance(xs, tuple) and xs[0] == "call" and xs[1] == ("global", "jax.random.split") and len(xs[2]) == 2
                 and xs[2][1] == ("attr", ("param", "self"), "num_steps"))
        s.ob("C04.8", con8, ok_xs, "the scan runs over jr.split(key, self.num_steps) (num_steps steps, one fresh key each)", loc8,
             key="scan-length", detail=show(xs, maxlen=160))
        s.ob("C04.8", con8, sc[2] == ("param", "step_state"), "the scan starts from the incoming step state", loc8, key="scan-init",
             detail=show(sc[2], maxlen=100))
        body = sc[1]
        if isinstance(body, Closure):
            out = b2.apply(body, (("param", "$carry"), ("param", "$k")), ())
            ok_body = False
            if isinstance(out, tuple) and out[0] == "tuple" and len(out[1]) == 2:
                nc, emit = out[1]
                stepc = [x for x in walk(out) if isinstance(x, tuple) and x and x[0] == "call" and x[1] == ("attr", ("param", "self"), "step")]
                if len(stepc) == 1:
                    _, _, fs = s.method(cls, "step")
                    m = bind_args(fs, stepc[0][2], stepc[0][3])
                    ok_body = (m.get("env") == ("param", "env") and m.get("policy") == ("param", "policy") and m.get("state") == ("param", "$carry")
                               and m.get("key") == ("param", "$k") and m.get("callback") == ("param", "callback")
                               and emit == ("item", stepc[0], 1)
                               and nc == ("call", ("attr", ("param", "self"), "per_step"), (("item", stepc[0], 0),), ()))
            s.ob("C04.8", con8, ok_body, "scan body = self.step(env, policy, carry, key=k, callback=callback); carry' = per_step(step state), row emitted",
                 loc8, key="scan-body", detail=show(out, maxlen=300))
    for cname in ("PPO", "A2C", "REINFORCE"):
        bb = s.builder(inline=set())
        pp = one(s.paths(bb, cname, "per_step"), f"{cname}.per_step")
        s.ob("C04.8", f"{cname}.per_step", pp.ret == ("param", "step_state"), "per_step returns the step state unchanged", s.loc(cname, "per_step"),
             key="per-step-identity", detail=show(pp.ret, maxlen=100))
    # ---- C04.9 sibling agreement inside the MLP policy
    check_policy_siblings(s, "C04.9")
    # ---- C04.12 the stored log-probability is the law's own: no distribution class re-implements sample_and_log_prob / log_prob beside the
    # wrapped law (a "fused" override that forgets the scale Jacobian stores a log-prob evaluate_action does not reproduce)
    from .C15 import check_thin_wrappers
    check_thin_wrappers(s, "C04.12")
    # ---- C04.10 lowering of lerax.utils.filter_cond / filter_scan (shared rule: rules/lowering.py)
    from .lowering import check_lowering
    check_lowering(s, "C04.10")
    # ---- C04.11 `env.truncate` / `env.terminal` on a wrapper stack: done = terminal or truncated needs every wrapper to hand the inner
    # flags through, TimeLimit OR-ing its own count (closed form), so that a truncation-only step is seen as such by the collector
    from .C13 import check_delegation, check_timelimit
    check_delegation(s, "C04.11", ["terminal", "truncate", "action_mask"])
    check_timelimit(s, "C04.11")
    # ---- C04.13 the record survives the estimator: collect_rollout returns post_collect's result, i.e. what
    # compute_returns_and_advantages returns - the collected buffer with only returns / advantages filled in
    from .C03 import check_estimator_keeps_record
    check_estimator_keeps_record(s, "C04.13")
    # ---- C04.14 the stored action is the one the policy drew and scored: the class index survives the trip out of the law (not the
    # wrapped library's int8-narrowed draw: above 127 actions the stored action would be a wrapped index with log-probability -inf), and
    # "masks offered by the environment are ... applied": the head applies the mask for every maskable law
    from .C15 import check_index_width
    check_index_width(s, "C04.14")
    from .C16 import check_mask_gate
    check_mask_gate(s, "C04.14")
    for r, n in (("C04.14", 10), ("C04.13", 1), ("C04.1", 4), ("C04.2", 8), ("C04.3", 4), ("C04.4", 2), ("C04.5", 4), ("C04.6", 4), ("C04.7", 6), ("C04.8", 7), ("C04.9", 6), ("C04.10", 7), ("C04.11", 30)):
        s.floor(r, n)
