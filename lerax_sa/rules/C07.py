"""C07 — TD targets bootstrap through truncation, never through termination."""
from __future__ import annotations

from ..model import AnalysisError
from ..norm import Normalizer, show_term
from ..vgraph import NONE, Closure, show, walk
from .util import bind_args, live, one, params_of

EXPLANATION = (
    "Value-graph analysis of DQN.dqn_loss, SAC.sac_train/compute_target, SAC.q_loss and SAC.actor_loss. "
    "C07.1 DQN loss normal form == mean((Q_online(s)[a] - (r + gamma*Q_target(s')[argmax Q_online(s')]*NT))^2)/2 with "
    "network roles decided by dependence on the `policy` / `target_policy` parameters; C07.2 SAC target normal form == "
    "r + gamma*(min(q1_tgt,q2_tgt)(s',a') - alpha*logpi(a'))*NT with (a', logpi) items of one action_and_log_prob call on s'; "
    "C07.3 the non-terminal mask is the Boolean function ~done | timeout (truth-table canonical form) in both siblings; "
    "C07.7 ReplayBuffer.add writes reward, done, timeout and successor observation of one transition at one ring index (rows the target combines belong together); C07.6 composed with the collector's stored flags (AbstractOffPolicyAlgorithm.step) the mask is ~terminal; C07.4 gradient scope: every filter_value_and_grad differentiates parameter 0 only, targets and target networks arrive "
    "through other parameters, actor update does not reassign critics; C07.5 both critics regress onto one target node; C07.10 the two target critics the minimum is taken over start (SAC.reset) as their own online critics, which are built from different keys."
)
ASSUMPTIONS = [
    "eqx.filter_value_and_grad differentiates its first positional argument only (Equinox contract)",
    "jax.vmap applies the per-sample function independently per row",
    "normal forms are over the reals / Booleans",
]

DQN_REF = """
q = jax.vmap(policy.q_values)(batch.states, batch.observations)[1]
a = batch.actions.astype(int)
q_sel = q[jnp.arange(a.shape[0]), a]
qn_online = jax.vmap(policy.q_values)(batch.next_states, batch.next_observations)[1]
best = jnp.argmax(qn_online, axis=-1)
qn_tgt = jax.vmap(target_policy.q_values)(batch.next_states, batch.next_observations)[1]
next_sel = qn_tgt[jnp.arange(a.shape[0]), best]
NT = (~batch.dones | batch.timeouts).astype(float)
targets = batch.rewards + gamma * next_sel * NT
loss = jnp.mean(jnp.square(q_sel - targets)) / 2
"""

SAC_REF = """
ap = policy.action_and_log_prob(None, next_obs, key=k)
na = ap[1]
nlp = ap[2]
NT = (~done | timeout).astype(float)
target = reward + self.gamma * (jnp.minimum(qf1_target(next_obs, na), qf2_target(next_obs, na)) - jnp.exp(log_alpha) * nlp) * NT
"""


def bool_atoms(term, found):
    """Collect canonical Boolean atoms ("B", atoms, table) inside a canonical term."""
    if isinstance(term, tuple):
        if term and term[0] == "B":
            found.append(term)
        for x in term:
            bool_atoms(x, found)
    return found


def mask_ok(nz, term, d, t):
    """Does `term` contain exactly the Boolean function ~d | t over atoms d, t (and no other mix of them)?"""
    want = nz.boolean(("bin", "BitOr", ("un", "Invert", d), t))
    found = [x for x in bool_atoms(term, []) if set(x[1]) & {nz.canon(d), nz.canon(t)}]
    return found, want, bool(found) and all(x == want for x in found)


def mask_cases(s, nz, rule, con, loc, code, ref, d, t):
    """For each of the four (done, timeout) flag combinations the code and the reference agree (the reference bootstraps unless
    done and not timeout). Independent of how the mask is spelled (~d|t, 1-(d&~t), where(...))."""
    from ..vgraph import FALSE as F_, TRUE as T_, replace_nodes
    for dv in (False, True):
        for tv in (False, True):
            sub = {d: T_ if dv else F_, t: T_ if tv else F_}
            a, b_ = nz.canon(replace_nodes(code, sub)), nz.canon(replace_nodes(ref, sub))
            boot = (not dv) or tv
            s.ob(rule, f"{con}[done={dv},timeout={tv}]", a == b_,
                 f"with done={dv}, timeout={tv} the target {'bootstraps' if boot else 'does not bootstrap'} exactly like the reference", loc,
                 key=f"mask-done{int(dv)}-timeout{int(tv)}", detail=f"code: {show_term(a, 300)}\nreference: {show_term(b_, 300)}",
                 necessary_for="bootstraps through time-limit truncations and never through true terminations")


def batch_rows(n, batch=("param", "batch")):
    """Rewrite `X.shape[0]` to one symbol when X has the sampled batch as its leading axis (a field of the batch, a cast / element-wise
    function of such, the result of a function vmapped over such, an argmax over the LAST axis of such): the row index
    `arange(X.shape[0])` then reads the same whichever of those arrays the code takes the length from."""
    from ..vgraph import mapnodes

    def leads(x, depth=0):
        if depth > 8 or not isinstance(x, tuple) or not x:
            return False
        if x[0] == "attr" and x[1] == batch:
            return True
        if x[0] == "cast":
            return leads(x[2], depth + 1)
        if x[0] == "item" and isinstance(x[1], tuple) and x[1] and x[1][0] == "call" and isinstance(x[1][1], tuple) and x[1][1] and x[1][1][0] == "vmapfn" \
                and not x[1][1][2]:
            return bool(x[1][2]) and all(leads(a, depth + 1) for a in x[1][2])
        if x[0] == "call" and isinstance(x[1], tuple):
            if x[1][0] == "attr" and x[1][2] in ("astype",):
                return leads(x[1][1], depth + 1)
            if x[1] in (("global", "jax.numpy.argmax"), ("global", "jax.numpy.argmin"), ("global", "jax.numpy.max"), ("global", "jax.numpy.min")):
                kw = dict((k_, v) for k_, v in x[3] if k_)
                return len(x[2]) == 1 and kw.get("axis") == ("const", -1) and leads(x[2][0], depth + 1)
            if x[1] in (("global", "jax.numpy.asarray"), ("global", "jax.numpy.array")) and x[2]:
                return leads(x[2][0], depth + 1)
        if x[0] == "bin":
            return leads(x[2], depth + 1) or leads(x[3], depth + 1)
        return False

    def f(n_):
        if n_ and n_[0] == "item" and n_[2] == 0 and isinstance(n_[1], tuple) and n_[1] and n_[1][0] == "attr" and n_[1][2] == "shape" and leads(n_[1][1]):
            return ("attr", batch, "<rows>")
        if n_ and n_[0] == "call" and n_[1] == ("global", "len") and len(n_[2]) == 1 and not n_[3] and leads(n_[2][0]):
            return ("attr", batch, "<rows>")
        return n_

    return mapnodes(n, f)


def check(s):
    P = s.prog
    # ---------------------------------------------------------------- DQN
    b = s.builder(inline=set())
    nz = Normalizer(b, ite_poly=True, bool_terms=[("attr", ("p", "batch"), "dones"), ("attr", ("p", "batch"), "timeouts")])
    con = "DQN.dqn_loss"
    loc = s.loc("DQN", "dqn_loss")
    p = one(s.paths(b, "DQN", "dqn_loss"), con)
    loss = batch_rows(p.ret)
    bind = {k: ("param", k) for k in ("policy", "batch", "target_policy", "gamma")}
    env = s.refprog(b, DQN_REF, bind)
    env = {k_: batch_rows(v) for k_, v in env.items()}
    s.eq("C07.1", con, nz, loss, env["loss"],
         "loss == mean((Q_online(s)[a] − (r + γ·Q_target(s′)[argmax_a Q_online(s′)]·NT))²)/2", loc, key="dqn-loss-formula",
         necessary_for="Double-DQN target r + γ(1−terminated)·Q_tgt(s′, argmax Q_online(s′)) compared with the online value of the action taken")
    # role dependence (unconditional): which network evaluates, which selects
    vm = [x for x in walk(loss) if isinstance(x, tuple) and x and x[0] == "call" and isinstance(x[1], tuple) and x[1][0] == "vmapfn"]
    roles = {}
    for x in vm:
        f = x[1][1]
        if isinstance(f, tuple) and f[0] == "attr" and f[2] == "q_values":
            roles.setdefault(f[1], []).append(tuple(x[2]))
    batch = ("param", "batch")
    nxt = (("attr", batch, "next_states"), ("attr", batch, "next_observations"))
    cur = (("attr", batch, "states"), ("attr", batch, "observations"))
    s.ob("C07.1", con, sorted(map(repr, roles.get(("param", "target_policy"), []))) == [repr(nxt)],
         "the target network is evaluated exactly once, on (next_states, next_observations)", loc, key="target-net-inputs",
         detail=str([show(("tuple", a)) for a in roles.get(("param", "target_policy"), [])]))
    s.ob("C07.1", con, sorted(map(repr, roles.get(("param", "policy"), []))) == sorted([repr(cur), repr(nxt)]),
         "the online network is evaluated on (states, observations) and on (next_states, next_observations)", loc,
         key="online-net-inputs", detail=str([show(("tuple", a)) for a in roles.get(("param", "policy"), [])]))
    am = [x for x in walk(loss) if isinstance(x, tuple) and x and x[0] == "call" and x[1] == ("global", "jax.numpy.argmax")]
    ok_am = bool(am) and all("policy" in params_of(x) and "target_policy" not in params_of(x) for x in am)
    s.ob("C07.1", con, ok_am, "the greedy next action (argmax) is chosen by the online network, not the target network", loc,
         key="argmax-network", detail="; ".join(show(x, maxlen=160) for x in am),
         necessary_for="Double DQN: V' is the target network's value of the online network's greedy action")
    mask_cases(s, nz, "C07.3", con, loc, loss, env["loss"], ("attr", batch, "dones"), ("attr", batch, "timeouts"))
    # C07.4 for DQN: grad wrt param 0; target policy passed separately and differs from arg 0
    b2 = s.builder(inline=set())
    con2 = "DQN.dqn_train"
    loc2 = s.loc("DQN", "dqn_train")
    p2 = one(s.paths(b2, "DQN", "dqn_train"), con2)
    G = [x for x in walk(p2.ret) if isinstance(x, tuple) and x and x[0] == "call" and isinstance(x[1], tuple) and x[1][0] == "gradfn"]
    s.ob("C07.4", con2, len(G) == 1 and isinstance(G[0][1][1], Closure) and G[0][1][1].name == "dqn_loss",
         "exactly one differentiated call, of dqn_loss", loc2, key="grad-call", detail=str(len(G)))
    if len(G) == 1:
        _, _, fnl = s.method("DQN", "dqn_loss")
        m = bind_args(fnl, G[0][2], G[0][3], skip_first=False)
        s.ob("C07.4", con2, m.get("policy") == ("param", "policy") and m.get("target_policy") == ("param", "target_policy")
             and m.get("batch") is not None and m.get("gamma") == ("attr", ("param", "self"), "gamma"),
             "dqn_loss(policy, batch, target_policy, self.gamma): the target network is a non-differentiated argument", loc2,
             key="grad-args", detail=show(G[0], maxlen=240),
             necessary_for="no gradient reaches the target network")
    names = [a.arg for a in s.method("DQN", "dqn_loss")[2].args.args]
    s.ob("C07.4", con, names and names[0] == "policy" and "target_policy" in names[1:],
         "in dqn_loss the differentiated parameter 0 is the online policy; target_policy is a later parameter", loc,
         key="param-order", detail=str(names))
    # iteration passes state.target_policy
    b3 = s.builder(inline={"train"})  # an update routed through the generic `train` hook is read through to the dqn_train call it makes
    con3 = "DQN.iteration"
    loc3 = s.loc("DQN", "iteration")
    n_it = 0
    for pi in live(s.paths(b3, "DQN", "iteration")):
        calls = [x for x in walk(pi.ret) if isinstance(x, tuple) and x and x[0] == "call" and isinstance(x[1], tuple)
                 and x[1][0] == "attr" and x[1][2] == "dqn_train"]
        _, _, fnt = s.method("DQN", "dqn_train")
        for c in calls[:1]:
            n_it += 1
            m = bind_args(fnt, c[2], c[3])
            s.ob("C07.4", con3, m.get("target_policy") == ("attr", ("param", "state"), "target_policy")
                 and m.get("policy") == ("attr", ("param", "state"), "policy"),
                 "iteration trains with policy=state.policy and target_policy=state.target_policy", loc3, key="iteration-target",
                 detail=show(c, maxlen=200))
        if not calls:
            n_it += 1
            s.ob("C07.4", con3, False, "iteration trains through dqn_train with policy=state.policy and target_policy=state.target_policy", loc3, key="iteration-target",
                 detail="no dqn_train call on this path: " + show(pi.ret, maxlen=200), necessary_for="V' is the TARGET network's value of the online network's greedy action")
    if n_it == 0:
        raise AnalysisError("DQN.iteration: no path")
    # ---------------------------------------------------------------- SAC
    b4 = s.builder(inline=set())
    nz4 = Normalizer(b4, ite_poly=True, bool_terms=[("p", "$done"), ("p", "$timeout")])
    con4 = "SAC.sac_train"
    loc4 = s.loc("SAC", "sac_train")
    sac_paths = live(s.paths(b4, "SAC", "sac_train"))
    autos = {any(v for t, v in p4.conds if t == ("attr", ("param", "self"), "autotune")) for p4 in sac_paths}
    if autos != {True, False}:
        raise AnalysisError(f"{con4}: expected both autotune cases, found {autos}")
    _, _, fq = s.method("SAC", "q_loss")
    for p4 in sac_paths:
        auto = any(v for t, v in p4.conds if t == ("attr", ("param", "self"), "autotune"))
        tag = f"[autotune={auto}]"
        from .util import tuple_elems
        te_ = tuple_elems(b4, p4.ret)
        if te_ is None or len(te_) != 8:
            raise AnalysisError(f"{con4}: expected an 8-tuple return")
        ret = ("tuple", tuple(te_))
        pol, opt, qf1, qf2, qopt, la, aopt, log = ret[1]
        G = [x for x in walk(("tuple", (qf1, qf2))) if isinstance(x, tuple) and x and x[0] == "call" and isinstance(x[1], tuple)
             and x[1][0] == "gradfn"]
        Gq = [g for g in G if isinstance(g[1][1], Closure) and g[1][1].name == "q_loss"]
        s.ob("C07.4", con4 + tag, len(Gq) == 1 and len(G) == 1,
             "the returned critics depend on exactly one differentiated call, that of q_loss (the actor loss does not move the critics)",
             loc4, key="critic-grad-source", detail=str([show(g[1], maxlen=80) for g in G]),
             necessary_for="the actor loss does not move the critics")
        if len(Gq) != 1:
            continue
        m = bind_args(fq, Gq[0][2], Gq[0][3], skip_first=False)
        qp = m.get("q_params")
        s.ob("C07.4", con4 + tag, qp == ("tuple", (("param", "qf1"), ("param", "qf2"))),
             "q_loss differentiates the online critic pair (qf1, qf2) only", loc4, key="q-grad-wrt", detail=show(qp or NONE, maxlen=120))
        targets = m.get("target")
        ok_t = isinstance(targets, tuple) and targets[0] == "call" and isinstance(targets[1], tuple) and targets[1][0] == "vmapfn" \
            and isinstance(targets[1][1], Closure)
        s.ob("C07.2", con4 + tag, ok_t, "the regression targets are a vmapped per-sample function computed outside q_loss", loc4,
             key="targets-source", detail=show(targets or NONE, maxlen=160),
             necessary_for="targets are constants for optimisation")
        if not ok_t:
            continue
        batch = [x for x in walk(targets) if isinstance(x, tuple) and x and x[0] == "call" and isinstance(x[1], tuple)
                 and x[1][0] == "attr" and x[1][2] == "sample"]
        fn_t = targets[1][1]
        pn = fn_t.param_names()
        # per-sample semantics: apply the closure to symbolic row elements named after the batch fields
        argmap = {}
        ok_rows = True
        rows = []
        # which arguments are mapped: all of them for a plain vmap; with in_axes=(None, ..., 0, ...) the None positions are broadcast
        # (the per-sample function receives the argument itself), the others are rows
        vkw = dict(targets[1][2])
        axes = vkw.get("in_axes", vkw.get("#1"))
        if isinstance(axes, tuple) and axes and axes[0] == "tuple" and len(axes[1]) == len(targets[2]):
            mapped = [ax != NONE for ax in axes[1]]
        else:
            mapped = [True] * len(targets[2])
        actual = []
        for a, mp in zip(targets[2], mapped):
            if not mp:
                actual.append(a)
                continue
            if isinstance(a, tuple) and a[0] == "attr" and a[2] in ("next_observations", "rewards", "dones", "timeouts"):
                rows.append(a[2])
            else:
                rows.append("key")
            actual.append(None)
        s.ob("C07.2", con4 + tag, sorted(rows) == sorted(["next_observations", "rewards", "dones", "timeouts", "key"]),
             "the per-sample target function is mapped over (next_observations, rewards, dones, timeouts, fresh keys)", loc4,
             key="targets-rows", detail=str(rows))
        sym = {"next_observations": ("param", "$next_obs"), "rewards": ("param", "$reward"), "dones": ("param", "$done"),
               "timeouts": ("param", "$timeout"), "key": ("param", "$k")}
        it_rows = iter(rows)
        out = b4.apply(fn_t, tuple(a if a is not None else sym[next(it_rows)] for a in actual), ())
        rbind = {"policy": ("param", "policy"), "next_obs": sym["next_observations"], "reward": sym["rewards"], "done": sym["dones"],
                 "timeout": sym["timeouts"], "k": sym["key"], "self": ("param", "self"), "qf1_target": ("param", "qf1_target"),
                 "qf2_target": ("param", "qf2_target"), "log_alpha": ("param", "log_alpha")}
        env4 = s.refprog(b4, SAC_REF, rbind)
        s.eq("C07.2", con4 + tag, nz4, out, env4["target"],
             "per-sample target == r + γ·(min(q1_tgt, q2_tgt)(s′, a′) − α·log π(a′|s′))·NT, (a′, log π) from one fresh-key sample at s′",
             loc4, key="sac-target-formula",
             necessary_for="V' is the minimum of the two target critics at a freshly sampled next action minus alpha*log pi")
        mask_cases(s, nz4, "C07.3", con4 + tag, loc4, out, env4["target"], sym["dones"], sym["timeouts"])
        # the key of the next-action sample is a per-row split of a key not used for the batch sample
        keyarg = targets[2][rows.index("key")] if "key" in rows else None
        samp_keys = [dict((k_, v) for k_, v in c[3] if k_).get("key") for c in batch]
        s.ob("C07.2", con4 + tag, keyarg is not None and all(keyarg != sk and not (sk is not None and sk in list(walk(keyarg))) for sk in samp_keys),
             "next actions are sampled with keys that are not the replay-sampling key", loc4, key="fresh-key",
             detail=show(keyarg or NONE, maxlen=120))
        # actor update: returns only (policy, opt_state); policy/opt_state outputs are an ite on one gate
        G2 = [x for x in walk(("tuple", (pol, opt))) if isinstance(x, tuple) and x and x[0] == "call" and isinstance(x[1], tuple)
              and x[1][0] == "gradfn" and isinstance(x[1][1], Closure) and x[1][1].name == "actor_loss"]
        s.ob("C07.4", con4 + tag, len(G2) == 1, "the returned policy depends on one differentiated actor_loss call", loc4,
             key="actor-grad", detail=str(len(G2)))
        if G2:
            _, _, fa = s.method("SAC", "actor_loss")
            m = bind_args(fa, G2[0][2], G2[0][3], skip_first=False)
            s.ob("C07.4", con4 + tag, m.get("policy") == ("param", "policy"),
                 "actor_loss differentiates the policy (parameter 0); the critics are parameters 2 and 3", loc4, key="actor-grad-wrt",
                 detail=show(m.get("policy", NONE)))
    # q_loss body -------------------------------------------------------
    b5 = s.builder(inline=set())
    nz5 = Normalizer(b5)
    con5 = "SAC.q_loss"
    loc5 = s.loc("SAC", "q_loss")
    p5 = one(s.paths(b5, "SAC", "q_loss"), con5)
    ref5 = s.ref(b5, "jnp.mean(jnp.square(jax.vmap(q_params[0])(batch.observations, batch.actions).squeeze() - target))/2 + "
                     "jnp.mean(jnp.square(jax.vmap(q_params[1])(batch.observations, batch.actions).squeeze() - target))/2",
                 {k: ("param", k) for k in ("q_params", "batch", "target")})
    s.eq("C07.5", con5, nz5, p5.ret, ref5,
         "q_loss == Σ_i mean((Q_i(s,a) − target)²)/2 with the same `target` for both critics", loc5, key="q-loss-formula",
         necessary_for="both critics regress onto the same constant target")
    s.ob("C07.4", con5, params_of(p5.ret) <= {"q_params", "batch", "target"} and [a.arg for a in fq.args.args][0] == "q_params",
         "q_loss depends only on (q_params, batch, target); no target network is reachable inside the differentiated function",
         loc5, key="q-loss-deps", detail=str(sorted(params_of(p5.ret))))
    # actor_loss body: critics are parameters
    b6 = s.builder(inline=set())
    nz6 = Normalizer(b6)
    con6 = "SAC.actor_loss"
    loc6 = s.loc("SAC", "actor_loss")
    p6 = one(s.paths(b6, "SAC", "actor_loss"), con6)
    names = [a.arg for a in s.method("SAC", "actor_loss")[2].args.args]
    s.ob("C07.4", con6, names[:1] == ["policy"] and "qf1" in names[1:] and "qf2" in names[1:],
         "actor_loss(policy, batch, qf1, qf2, ...): only the policy is differentiated", loc6, key="actor-params", detail=str(names))
    # ---------------------------------------------------------------- C07.6 producer ∘ consumer
    # The losses read the flags the collector wrote. Composing the collector's Boolean expressions for (done, timeout) with the
    # mask ~done | timeout (C07.3) must give exactly ~terminated, whatever the time limit did on that step.
    from .stepref import off_policy_adds
    for o in off_policy_adds(s):
        nzb = Normalizer(o["b"])
        d, t = o["args"].get("done"), o["args"].get("timeout")
        term = o["ref"]["term"]
        ok = d is not None and t is not None
        got = nzb.boolean(("bin", "BitOr", ("un", "Invert", d), t)) if ok else None
        want = nzb.boolean(("un", "Invert", term))
        s.ob("C07.6", o["con"], ok and got == want,
             "with the flags as the collector writes them, ~done | timeout is the Boolean function ~terminal(successor) (independent of truncation)", o["loc"],
             key="collector-mask-composition", detail=f"composed: {show_term(got, 300) if got else 'flags missing'}\nwanted:   {show_term(want, 300)}",
             necessary_for="the target never bootstraps through a termination, also when the time limit expires on the terminating step, and always through a pure truncation")
        s.eq("C07.6", o["con"], o["nz"], o["args"].get("next_observation", NONE), o["ref"]["next_obs"],
             "the successor observation s' the target evaluates V' at is the observation of the pre-reset successor state", o["loc"], key="collector-successor-observation",
             necessary_for="V'(s') is the value of the state the transition led to, not of the freshly reset state")
        rews = [x for x in walk(("tuple", tuple(v for v in o["args"].values() if v is not None))) if isinstance(x, tuple) and x and x[0] == "call" and x[1] == ("attr", ("param", "env"), "reward")]
        s.ob("C07.6", o["con"], len(rews) == 1 and o["args"].get("reward") == rews[0], "the reward r of the target is the step's env.reward result, stored unmodified", o["loc"],
             key="collector-reward", detail=show(o["args"].get("reward", NONE), maxlen=160))
    # ---------------------------------------------------------------- C07.8 "log pi of that action" is the density of the very draw
    # The target subtracts alpha * log pi(a'|s') for a freshly sampled a'. For a squashed law that number has to come from the fused
    # sample_and_log_prob of the distribution (evaluated at the pre-squash draw): recomputing log_prob(a') inverts the squashing in
    # float32 and is off by nats - or NaN - for confident policies near an action bound.
    for ci_ in [c for c in P.subclasses("AbstractSACPolicy") if "action_and_log_prob" in c.methods and not c.is_abstractmethod("action_and_log_prob")]:
        bq = s.builder(inline=set())
        locq = s.loc(ci_.name, "action_and_log_prob")
        for pq in live(s.paths(bq, ci_.name, "action_and_log_prob")):
            r_ = pq.ret
            okq = isinstance(r_, tuple) and r_[0] == "tuple" and len(r_[1]) == 3
            fused = [c for c in walk(r_) if isinstance(c, tuple) and c and c[0] == "call" and isinstance(c[1], tuple) and c[1][0] == "attr" and c[1][2] == "sample_and_log_prob"]
            sep = [c for c in walk(r_) if isinstance(c, tuple) and c and c[0] == "call" and isinstance(c[1], tuple) and c[1][0] == "attr" and c[1][2] in ("log_prob", "sample")]
            ok_f = okq and len(fused) == 1 and not sep and r_[1][1] == ("item", fused[0], 0) and ("item", fused[0], 1) in set(walk(r_[1][2]))
            s.ob("C07.8", f"{ci_.name}.action_and_log_prob", ok_f,
                 "(action, log-prob) are elements 0 and 1 of ONE dist.sample_and_log_prob(key) call (no separate sample / log_prob round trip through the squashing)", locq,
                 key="fused-sample-logprob", detail=show(r_, maxlen=240), necessary_for="V' = min of the target critics at a freshly sampled next action minus alpha * log pi of THAT action")
            if ok_f:
                # log pi of a vector action is the JOINT log-density: the per-component values may only be summed (and squeezed), not averaged
                nzq = Normalizer(bq)
                Lb = {"L": ("item", fused[0], 1)}
                okj = nzq.canon(r_[1][2]) in [nzq.canon(s.ref(bq, e_, Lb)) for e_ in ("L", "L.sum()", "L.sum().squeeze()", "L.squeeze()", "L.squeeze().sum()", "L.sum(axis=-1)")]
                s.ob("C07.8", f"{ci_.name}.action_and_log_prob", okj, "the reported log-probability is that element itself, at most summed over the action components (joint density) and squeezed",
                     locq, key="joint-logprob", detail=show(r_[1][2], maxlen=160), necessary_for="minus alpha * log pi of that action (the joint density of the sampled action vector)")
    # ---------------------------------------------------------------- C07.9 the flags a Gymnasium-adapted environment reports
    # timeout = truncated & ~terminated is computed from env.terminal / env.truncate; for an adapted Gymnasium environment these are the
    # flags its step() returned, kept apart (a `terminal` that also absorbs `truncated` makes every time-limit ending a termination)
    from .C13 import check_adapters
    check_adapters(s, "C07.9")
    # ---------------------------------------------------------------- C07.7 the buffer keeps the tuple (r, done, timeout, s') together
    # The target combines batch.rewards, batch.dones, batch.timeouts and batch.next_observations row by row: ReplayBuffer.add must
    # write all of them at one ring index (a flag written at another slot pairs a transition with a stale done/timeout flag).
    from .C06 import check_add
    check_add(s, "C07.7", "C07.7")
    from .util import no_late_binding
    no_late_binding(s, "C07.7", ("lerax.buffer", "lerax.algorithm.dqn", "lerax.algorithm.sac"), necessary_for="every field of a stored transition comes from the same insertion (a function value built in a loop must not read the loop variable late)")
    # ---------------------------------------------------------------- C07.10 the target critics V' is the minimum of are, from reset on, copies of
    # their own online critics (target_2 seeded from critic 1 makes min(target_1, target_2) the single critic 1 at the start)
    from .C10 import check_sac_target_init
    check_sac_target_init(s, "C07.10", necessary="V' is the minimum of the two target critics (two distinct estimators, each tracking its own online critic)")
    for r, n in (("C07.10", 3), ("C07.1", 4), ("C07.2", 8), ("C07.3", 12), ("C07.4", 12), ("C07.5", 1), ("C07.6", 6), ("C07.7", 40), ("C07.8", 1)):
        s.floor(r, n)
