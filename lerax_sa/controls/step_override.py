# Synthetic positive control for rule C01.6 (parsed, never imported): an environment that overrides `step`.
# The who-may-override matcher must flag this class on every run, otherwise the rule is not armed.
class ControlEnvLike:
    def step(self, state, action, *, key):
        return state


class ControlOverridingEnv(ControlEnvLike):
    def step(self, state, action, *, key):
        return self.transition(state, action, key=key)

    def reset(self, *, key):
        return None
