# Synthetic positive control for rule C12.3 (parsed, never imported): a named-axis collective inside a collection helper.
from jax import lax


def collect_rollout_with_collective(advantages):
    return advantages - lax.pmean(advantages, axis_name="env")
