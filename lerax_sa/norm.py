"""Normaliser: a terminating rewriting system mapping value-graph nodes to
canonical terms (DESIGN.md §2.3).  Equal canonical terms => equal values for
all inputs (over the reals / Booleans; floating-point reassociation is the
stated trusted gap).

Canonical term grammar (all hashable tuples):
  ("poly", ((monomial, coeff_str), ...))   monomial = ((atom, exp), ...)
  atoms: ("p", name) ("g", qualname) ("k", const) ("attr", t, name) ("sub", t, idx)
         ("call", fname|term, (args...), ((kw, term)...)) ("item", t, i)
         ("cmp", op, a, b) ("B", atoms, table) ("ite", c, a, b) ("tuple", ...)
         ("rec", cls, fields) ("upd", base, fields) ("lam", n, body) ...
"""
from __future__ import annotations

import math
from fractions import Fraction

from .vgraph import NONE, BoolConst, Builder, Closure, SelfObj

KTRUE, KFALSE = ("kb", True), ("kb", False)

# ----------------------------------------------------------------------------- polynomials
def pconst(c) -> dict:
    c = Fraction(c)
    return {(): c} if c != 0 else {}


def patom(a) -> dict:
    return {((a, 1),): Fraction(1)}


def padd(p, q):
    r = dict(p)
    for m, c in q.items():
        v = r.get(m, 0) + c
        if v == 0:
            r.pop(m, None)
        else:
            r[m] = v
    return r


def pneg(p):
    return {m: -c for m, c in p.items()}


IDEMPOTENT_TAGS = ("B", "cmp", "boolatom")
_IDEM: set = set()  # canonical atoms declared Boolean by the active Normalizer (annotation-derived)


def _mmul(m1, m2):
    d = {}
    for a, e in m1:
        d[a] = d.get(a, 0) + e
    for a, e in m2:
        d[a] = d.get(a, 0) + e
    out = []
    for a, e in d.items():
        if e == 0:
            continue
        if e > 1 and ((isinstance(a, tuple) and a and a[0] in IDEMPOTENT_TAGS) or a in _IDEM):
            e = 1  # Boolean-valued atoms are idempotent under product
        out.append((a, e))
    return tuple(sorted(out, key=_key))


def pmul(p, q):
    r = {}
    for m1, c1 in p.items():
        for m2, c2 in q.items():
            m = _mmul(m1, m2)
            v = r.get(m, 0) + c1 * c2
            if v == 0:
                r.pop(m, None)
            else:
                r[m] = v
    return r


def _key(x):
    return repr(x)


def freeze(p) -> tuple:
    items = sorted(((m, str(c)) for m, c in p.items()), key=_key)
    if len(items) == 1 and items[0][1] == "1" and len(items[0][0]) == 1 and items[0][0][0][1] == 1:
        return items[0][0][0][0]  # a bare atom
    if not items:
        return ("k", 0)
    if len(items) == 1 and items[0][0] == ():
        c = Fraction(items[0][1])
        return ("k", int(c) if c.denominator == 1 else ("frac", str(c)))
    return ("poly", tuple(items))


def thaw(t) -> dict:
    """Canonical term -> polynomial."""
    if isinstance(t, tuple) and t and t[0] == "poly":
        return {m: Fraction(c) for m, c in t[1]}
    if isinstance(t, tuple) and t and t[0] == "k" and isinstance(t[1], (int, float)) and not isinstance(t[1], bool) \
            and math.isfinite(t[1]):
        return pconst(Fraction(t[1]).limit_denominator(10**12))
    if isinstance(t, tuple) and t and t[0] == "k" and isinstance(t[1], tuple) and t[1][0] == "frac":
        return pconst(Fraction(t[1][1]))
    return patom(t)


# ----------------------------------------------------------------------------- tables
NP = ("jax.numpy.", "numpy.", "math.")
INF_NAMES = {"jax.numpy.inf", "numpy.inf", "math.inf", "numpy.Inf", "jax.numpy.Inf"}
PI_NAMES = {"jax.numpy.pi", "numpy.pi", "math.pi"}
NAN_NAMES = {"jax.numpy.nan", "numpy.nan", "math.nan"}

BINFUN = {
    "add": "Add", "subtract": "Sub", "multiply": "Mult", "divide": "Div", "true_divide": "Div",
    "power": "Pow", "mod": "Mod", "remainder": "Mod", "floor_divide": "FloorDiv",
    "logical_and": "BitAnd", "logical_or": "BitOr", "logical_xor": "BitXor",
    "bitwise_and": "BitAnd", "bitwise_or": "BitOr", "bitwise_xor": "BitXor",
    "less": "Lt", "less_equal": "LtE", "greater": "Gt", "greater_equal": "GtE", "equal": "Eq", "not_equal": "NotEq",
}
UNFUN = {"negative": "USub", "logical_not": "Invert", "bitwise_not": "Invert", "invert": "Invert"}
AC_FUN = {"minimum", "maximum"}
# array methods that have an identical jnp.<name>(x, ...) spelling
ARRAY_METHODS = {
    "sum", "mean", "std", "var", "min", "max", "reshape", "ravel", "flatten", "squeeze", "astype", "clip",
    "all", "any", "argmax", "argmin", "prod", "round", "transpose", "dot", "cumsum", "take", "swapaxes",
}
IDENTITY_CALLS = {"jax.numpy.asarray", "jax.numpy.array", "numpy.asarray", "numpy.array", "jax.lax.stop_gradient",
                  "jax.numpy.float32", "jax.numpy.float64"}
# positional parameter names of frequently used external callees (for kw/positional equivalence)
SIGS = {
    "jax.numpy.clip": ["x", "min", "max"],
    "jax.numpy.take": ["a", "indices", "axis"],
    "jax.numpy.concatenate": ["arrays", "axis"],
    "jax.numpy.stack": ["arrays", "axis"],
    "jax.numpy.sum": ["a", "axis"],
    "jax.numpy.mean": ["a", "axis"],
    "jax.numpy.all": ["a", "axis"],
    "jax.numpy.any": ["a", "axis"],
    "jax.numpy.argmax": ["a", "axis"],
    "jax.numpy.moveaxis": ["a", "source", "destination"],
    "jax.numpy.broadcast_to": ["array", "shape"],
    "jax.numpy.full_like": ["a", "fill_value", "dtype"],
    "jax.numpy.squeeze": ["a", "axis"],
    "jax.numpy.split": ["ary", "indices_or_sections", "axis"],
    "diffrax.diffeqsolve": ["terms", "solver", "t0", "t1", "dt0", "y0", "args"],
    "jax.random.split": ["key", "num"],
    "jax.random.uniform": ["key", "shape", "dtype", "minval", "maxval"],
    "jax.random.normal": ["key", "shape", "dtype"],
    "jax.random.choice": ["key", "a", "shape", "replace", "p", "axis"],
    "jax.random.permutation": ["key", "x", "axis"],
    "jax.random.randint": ["key", "shape", "minval", "maxval", "dtype"],
    "jax.random.exponential": ["key", "shape", "dtype"],
    "jax.random.bernoulli": ["key", "p", "shape"],
    "jax.random.categorical": ["key", "logits", "axis", "shape"],
}
KW_ALIASES = {"jax.numpy.clip": {"a": "x", "a_min": "min", "a_max": "max", "arr": "x"}}
DEFAULTS = {
    ("jax.numpy.concatenate", "axis"): ("k", 0),
    ("jax.numpy.stack", "axis"): ("k", 0),
    ("jax.random.split", "num"): ("k", 2),
    ("jax.random.uniform", "minval"): ("k", 0),
    ("jax.random.uniform", "maxval"): ("k", 1),
    ("jax.random.choice", "replace"): ("kb", True),
    ("jax.random.choice", "shape"): ("tuple",),
    ("jax.random.randint", "dtype"): None,
    ("jax.random.categorical", "axis"): ("k", -1),
    ("jax.numpy.argmax", "axis"): None,
}
FLOAT_DTYPES = {("g", "float"), ("g", "jax.numpy.float32"), ("g", "jax.numpy.float64"), ("g", "jax.numpy.floating"),
                ("k", "float32"), ("k", "float64"), ("k", "float")}
BOOL_DTYPES = {("g", "bool"), ("g", "jax.numpy.bool_"), ("k", "bool")}
INT_DTYPES = {("g", "int"), ("g", "jax.numpy.int32"), ("g", "jax.numpy.int64"), ("k", "int32"), ("k", "int")}


class Normalizer:
    def __init__(self, builder: Builder | None = None, keep_stop_gradient: bool = False,
                 erase_error_if: bool = True, ite_poly: bool = False, bool_terms=(), int_terms=(), total_order: bool = False,
                 minmax: bool = False):
        self.total_order = total_order  # a <= b is not(b < a): valid when no operand is NaN (reference comparisons)
        self.minmax = minmax  # ite(a < b, a, b) = minimum(a, b); clip(x, lo, hi) = minimum(maximum(x, lo), hi)
        self.int_terms = set(int_terms)  # canonical atoms known to be integer-valued (from annotations)
        self.ite_poly = ite_poly  # Ite(c,a,b) = c*a + (1-c)*b; sound for finite a, b only
        self.bool_terms = set(bool_terms)  # canonical terms known to be Boolean-valued (from annotations)
        _IDEM.clear()
        _IDEM.update(self.bool_terms)
        self.b = builder
        self.keep_sg = keep_stop_gradient
        self.erase_error_if = erase_error_if
        self.memo: dict = {}
        self.lam_depth = 0

    # -- public ---------------------------------------------------------------
    def canon(self, n):
        return freeze(self.poly(n))

    def equal(self, a, b) -> bool:
        return self.canon(a) == self.canon(b)

    # -- core -----------------------------------------------------------------
    def poly(self, n) -> dict:
        try:
            if n in self.memo:
                return self.memo[n]
        except TypeError:
            return self._poly(n)
        r = self._poly(n)
        self.memo[n] = r
        return r

    def _poly(self, n) -> dict:
        if isinstance(n, Closure):
            return patom(self.lam(n))
        if isinstance(n, SelfObj):
            return patom(("selfobj", n.cls.qualname))
        if not isinstance(n, tuple) or not n:
            return patom(("k", repr(n)))
        k = n[0]
        if k == "const":
            v = n[1]
            if isinstance(v, BoolConst):
                return patom(KTRUE if v.v else KFALSE)
            if isinstance(v, bool) or v is None or isinstance(v, str) or isinstance(v, bytes) or v is Ellipsis:
                return patom(("k", v))
            if isinstance(v, (int, float)):
                if isinstance(v, float) and not math.isfinite(v):
                    if math.isnan(v):
                        return patom(("k", "nan"))
                    return pmul(pconst(1 if v > 0 else -1), patom(("k", "inf")))
                return pconst(Fraction(v).limit_denominator(10**12) if isinstance(v, float) else Fraction(v))
            return patom(("k", repr(v)))
        if k == "param":
            return patom(("p", n[1]))
        if k == "global":
            q = n[1]
            if q in INF_NAMES:
                return patom(("k", "inf"))
            if q in PI_NAMES:
                return patom(("k", "pi"))
            if q in NAN_NAMES:
                return patom(("k", "nan"))
            return patom(("g", q))
        if k == "bin":
            return self.binop(n[1], n[2], n[3])
        if k == "un":
            op = n[1]
            if op == "USub":
                return pneg(self.poly(n[2]))
            if op == "UAdd":
                return self.poly(n[2])
            if op in ("Invert", "Not"):
                return self.boolval(n)
            return patom(("un", op, self.canon(n[2])))
        if k == "boolop":
            return self.boolval(n)
        if k == "cmp":
            return self.boolval(n)
        if k == "ite":
            if self.minmax:
                r = self.ite(n[1], n[2], n[3])
                if isinstance(r, tuple) and r and r[0] == "call" and r[1] in ("jax.numpy.minimum", "jax.numpy.maximum"):
                    return self.minmax_term(r[1].rsplit(".", 1)[1], r[2][0], r[2][1])
            if self.ite_poly:
                c = self.boolean(n[1])
                if c == KTRUE:
                    return self.poly(n[2])
                if c == KFALSE:
                    return self.poly(n[3])
                pc = self.boolpoly(c)
                return padd(pmul(pc, self.poly(n[2])), pmul(padd(pconst(1), pneg(pc)), self.poly(n[3])))
            return patom(self.ite(n[1], n[2], n[3]))
        if k == "call":
            return self.call(n)
        if k == "attr":
            return patom(self.attr(n))
        if k == "sub":
            if n[2][0] == "const" and isinstance(n[2][1], int) and not isinstance(n[2][1], bool) and n[2][1] >= 0:
                return patom(("item", self.canon(n[1]), n[2][1]))  # x[i] == i-th element of an unpacking
            return patom(("sub", self.canon(n[1]), self.index(n[2])))
        if k == "slice":
            return patom(self.index(n))
        if k == "item":
            src = n[1]
            if isinstance(src, tuple) and src and src[0] == "call" and src[1] == ("global", "zip") and not src[3] and len(src[2]) == 1 \
                    and isinstance(src[2][0], tuple) and src[2][0] and src[2][0][0] == "star" and isinstance(n[2], int):
                # zip(*rows)[i] is the i-th column: tuple(row[i] for row in rows)
                rows = src[2][0][1]
                from .vgraph import walk as _walk
                own = {c_[4] for c_ in _walk(rows) if isinstance(c_, tuple) and len(c_) == 5 and c_[0] == "comp"}
                d_ = 1 + max([b[1] for b in _walk(rows) if isinstance(b, tuple) and b and b[0] == "bound" and b[1] not in own], default=0)
                col = ("comp", "GeneratorExp", ("item", ("bound", d_, 0), n[2]), ((rows, ()),), d_)
                return self._poly(("call", ("global", "tuple"), (col,), ()))
            c = self.canon(n[1])
            if isinstance(c, tuple) and c and c[0] == "tuple" and isinstance(n[2], int) and 0 <= n[2] < len(c) - 1:
                return thaw(c[1 + n[2]])
            return patom(("item", c, n[2]))
        if k in ("tuple", "list"):
            if any(isinstance(x, tuple) and x and x[0] == "star" for x in n[1]):
                # (a, *b, c) is the concatenation (a,) + b + (c,): the same ordered form the `+` of sequences gets
                parts = []
                seg = []
                for x in n[1]:
                    if isinstance(x, tuple) and x and x[0] == "star":
                        if seg:
                            parts.append(("tuple",) + tuple(self.canon(y) for y in seg))
                            seg = []
                        parts.append(self.canon(x[1]))
                    else:
                        seg.append(x)
                if seg:
                    parts.append(("tuple",) + tuple(self.canon(y) for y in seg))
                return self.concat(parts)
            return patom(("tuple",) + tuple(self.canon(x) for x in n[1]))
        if k == "set":
            return patom(("set",) + tuple(sorted((self.canon(x) for x in n[1]), key=_key)))
        if k == "dict":
            return patom(("dict",) + tuple(sorted(((self.canon(a), self.canon(b)) for a, b in n[1]), key=_key)))
        if k == "record":
            nt = self.b.namedtuple_fields(n) if self.b is not None else None
            if nt is not None:
                # an instance of a NamedTuple class is the tuple of its fields (same pytree leaves in the same order, same unpacking)
                return self._poly(("tuple", nt))
            return patom(("rec", n[1], tuple((f, self.canon(v)) for f, v in n[2])))
        if k == "update":
            return patom(("upd", self.canon(n[1]), tuple((p, self.canon(v)) for p, v in n[2])))
        if k == "scan":
            return patom(("scan",) + tuple(self.canon(x) for x in n[1:]))
        if k == "while":
            return patom(("while",) + tuple(self.canon(x) for x in n[1:]))
        if k == "gradfn":
            return patom(("gradfn", self.canon(n[1]), self.canon(n[2])))
        if k == "vmapfn":
            return patom(("vmapfn", self.canon(n[1]), tuple((a, self.canon(b)) for a, b in n[2])))
        if k == "partial":
            return patom(("partial", self.canon(n[1]), tuple(self.canon(x) for x in n[2]),
                          tuple(sorted(((a, self.canon(b)) for a, b in n[3]), key=_key))))
        if k == "bound":
            return patom(("bv", n[1], n[2]))
        if k == "comp":
            # a list comprehension and a generator expression denote the same sequence of values (laziness aside)
            def unwrapped(it):
                # iterating over tuple(xs) / list(xs) is iterating over xs
                while isinstance(it, tuple) and it and it[0] == "call" and it[1] in (("global", "tuple"), ("global", "list")) and len(it[2]) == 1 and not it[3]:
                    it = it[2][0]
                return it
            return patom(("comp", "GeneratorExp" if n[1] == "ListComp" else n[1], self.canon(n[2]),
                          tuple((self.canon(unwrapped(it)), tuple(self.canon(c) for c in cs)) for it, cs in n[3])))
        if k == "loop":
            return patom(("loop", self.canon(n[1]), self.canon(n[2]), self.canon(n[3])))
        if k == "star":
            return patom(("star", self.canon(n[1])))
        if k == "sel":
            return patom(("sel",))
        if k == "super":
            return patom(("super", n[1]))
        if k in ("missing", "localclass", "listmut"):
            return patom(("k", repr(n[:2])))
        # already-canonical atoms may be injected by references
        if k in ("p", "g", "k", "kb", "poly", "B", "bv"):
            return thaw(n)
        return patom(("raw", k) + tuple(self.canon(x) if isinstance(x, (tuple, Closure)) else x for x in n[1:]))

    # -- arithmetic -----------------------------------------------------------
    def arith(self, x) -> dict:
        """Polynomial of an operand of +, -, *, /: a Boolean combination used as a number is its 0/1 indicator, written in the
        multilinear form over its atoms (so `(a & b) * r`, `a * b * r` and `(a & b).astype(float) * r` coincide)."""
        p = self.poly(x)
        if len(p) == 1:
            (m, c), = p.items()
            if len(m) == 1 and m[0][1] == 1 and isinstance(m[0][0], tuple) and m[0][0] and m[0][0][0] == "B":
                return {mm: cc * c for mm, cc in self.boolpoly(m[0][0]).items()}
        return p

    @staticmethod
    def _is_seq(t) -> bool:
        return isinstance(t, tuple) and bool(t) and (t[0] in ("tuple", "concat") or (t[0] == "k" and isinstance(t[1], str) and t[1] not in ("inf", "nan", "div0", "pi"))
                                                      or (t[0] == "call" and t[1] == "<fstring>"))

    def concat(self, parts) -> dict:
        """Ordered concatenation of sequences (the `+` of tuples / lists, `(*a, b)`): unlike a sum it does not commute. Adjacent
        literal segments are fused; a single segment is that segment."""
        segs: list = []
        for t in parts:
            for seg in (t[1:] if isinstance(t, tuple) and t and t[0] == "concat" else (t,)):
                if segs and isinstance(seg, tuple) and seg and seg[0] == "tuple" and isinstance(segs[-1], tuple) and segs[-1] and segs[-1][0] == "tuple":
                    segs[-1] = segs[-1] + seg[1:]
                elif seg == ("tuple",):
                    continue
                else:
                    segs.append(seg)
        if not segs:
            return patom(("tuple",))
        return thaw(segs[0]) if len(segs) == 1 else patom(("concat",) + tuple(segs))

    def binop(self, op, a, b) -> dict:
        if op == "Add":
            pa, pb = self.arith(a), self.arith(b)
            fa, fb = freeze(pa), freeze(pb)
            if self._is_seq(fa) or self._is_seq(fb):
                return self.concat((fa, fb))
            return padd(pa, pb)
        if op == "Sub":
            return padd(self.arith(a), pneg(self.arith(b)))
        if op == "Mult":
            return pmul(self.arith(a), self.arith(b))
        if op == "Div":
            return pmul(self.arith(a), self.inv(self.arith(b)))
        if op == "Pow":
            pb = self.poly(b)
            if list(pb.keys()) == [()] and pb[()].denominator == 1 and 0 <= pb[()] <= 6:
                r = pconst(1)
                pa = self.poly(a)
                for _ in range(int(pb[()])):
                    r = pmul(r, pa)
                return r
            return patom(("pow", freeze(self.poly(a)), freeze(pb)))
        if op in ("BitAnd", "BitOr", "BitXor"):
            return self.boolval(("bin", op, a, b))
        return patom(("bin", op, self.canon(a), self.canon(b)))

    def inv(self, p) -> dict:
        if not p:
            return patom(("k", "div0"))
        if len(p) == 1:
            (m, c), = p.items()
            # idempotent atoms must not get negative exponents
            if all(not (isinstance(a, tuple) and a and a[0] in IDEMPOTENT_TAGS) for a, _ in m):
                return {tuple(sorted(((a, -e) for a, e in m), key=_key)): 1 / c}
        # normalise the leading coefficient so that 1/(2x+2y) == (1/2)*1/(x+y)
        items = sorted(p.items(), key=lambda kv: _key(kv[0]))
        lead = items[0][1]
        q = {m: c / lead for m, c in p.items()}
        return {((("inv", freeze(q)), 1),): 1 / lead}

    # -- Boolean layer --------------------------------------------------------
    def boolean(self, n):
        """Canonical form of a Boolean-operator tree: truth table over its atoms."""
        atoms: list = []

        def build(x):
            """returns a function assignment->bool as nested structure"""
            if isinstance(x, tuple) and x:
                k = x[0]
                if k == "un" and x[1] in ("Invert", "Not"):
                    return ("not", build(x[2]))
                if k == "bin" and x[1] in ("BitAnd", "BitOr", "BitXor"):
                    return ({"BitAnd": "and", "BitOr": "or", "BitXor": "xor"}[x[1]], build(x[2]), build(x[3]))
                if k == "boolop":
                    parts = [build(y) for y in x[2]]
                    r = parts[0]
                    for p_ in parts[1:]:
                        r = ("and" if x[1] == "And" else "or", r, p_)
                    return r
                if k == "cmp":
                    op, a, b = x[1], x[2], x[3]
                    neg = False
                    if op == "Gt":
                        op, a, b = "Lt", b, a
                    elif op == "GtE":
                        op, a, b = "LtE", b, a
                    elif op == "NotEq":
                        op, neg = "Eq", True
                    elif op == "IsNot":
                        op, neg = "Is", True
                    elif op == "NotIn":
                        op, neg = "In", True
                    ca, cb = self.canon(a), self.canon(b)
                    if self.total_order and op == "LtE":
                        op, ca, cb, neg = "Lt", cb, ca, not neg
                    if op in ("Eq", "Is") and _key(cb) < _key(ca):
                        ca, cb = cb, ca
                    at = ("cmp", op, ca, cb)
                    r = ("atom", at)
                    return ("not", r) if neg else r
                if k == "call":
                    f = x[1]
                    fname = f[1] if isinstance(f, tuple) and f[0] == "global" else None
                    if fname == "bool" and len(x[2]) == 1 and not x[3]:
                        return build(x[2][0])  # bool(<Boolean expression>) is that expression
                    short = fname.split(".")[-1] if fname and fname.startswith(NP) else None
                    if short in BINFUN and len(x[2]) == 2 and not x[3]:
                        o = BINFUN[short]
                        if o in ("BitAnd", "BitOr", "BitXor"):
                            return build(("bin", o, x[2][0], x[2][1]))
                        if o in ("Lt", "LtE", "Gt", "GtE", "Eq", "NotEq"):
                            return build(("cmp", o, x[2][0], x[2][1]))
                    if short in UNFUN and UNFUN[short] == "Invert" and len(x[2]) == 1:
                        return ("not", build(x[2][0]))
                if k == "const" and isinstance(x[1], (bool, BoolConst)):
                    return ("lit", bool(x[1]))
            c = self.canon(x)
            if isinstance(c, tuple) and c and c[0] == "B":
                # nested canonical Boolean: re-expand over its atoms
                return ("tab", c[1], c[2])
            return ("atom", c)

        tree = build(n)

        def collect(t):
            if t[0] == "atom":
                if t[1] not in atoms:
                    atoms.append(t[1])
            elif t[0] == "tab":
                for a in t[1]:
                    if a not in atoms:
                        atoms.append(a)
            elif t[0] in ("not",):
                collect(t[1])
            elif t[0] in ("and", "or", "xor"):
                collect(t[1])
                collect(t[2])

        collect(tree)
        atoms_sorted = sorted(atoms, key=_key)
        if len(atoms_sorted) > 10:
            return ("Bbig", repr(tree))
        idx = {a: i for i, a in enumerate(atoms_sorted)}

        def ev(t, asg):
            k = t[0]
            if k == "atom":
                return asg[idx[t[1]]]
            if k == "lit":
                return t[1]
            if k == "not":
                return not ev(t[1], asg)
            if k == "and":
                return ev(t[1], asg) and ev(t[2], asg)
            if k == "or":
                return ev(t[1], asg) or ev(t[2], asg)
            if k == "xor":
                return ev(t[1], asg) != ev(t[2], asg)
            if k == "tab":
                j = 0
                for bi, a in enumerate(t[1]):
                    if asg[idx[a]]:
                        j |= 1 << bi
                return bool((t[2] >> j) & 1)
            raise AssertionError(k)

        nat = len(atoms_sorted)
        table = 0
        for j in range(1 << nat):
            asg = [bool((j >> i) & 1) for i in range(nat)]
            if ev(tree, asg):
                table |= 1 << j
        # drop irrelevant atoms
        changed = True
        while changed and nat > 0:
            changed = False
            for i in range(nat):
                dep = False
                for j in range(1 << nat):
                    if ((table >> j) & 1) != ((table >> (j ^ (1 << i))) & 1):
                        dep = True
                        break
                if not dep:
                    # remove atom i
                    newt = 0
                    nj = 0
                    for j in range(1 << nat):
                        if (j >> i) & 1:
                            continue
                        if (table >> j) & 1:
                            low = j & ((1 << i) - 1)
                            high = (j >> (i + 1)) << i
                            newt |= 1 << (low | high)
                    table = newt
                    atoms_sorted.pop(i)
                    nat -= 1
                    changed = True
                    break
        if nat == 0:
            return KTRUE if table & 1 else KFALSE
        if nat == 1 and table == 0b10:
            return atoms_sorted[0]
        return ("B", tuple(atoms_sorted), table)

    def boolval(self, n) -> dict:
        c = self.boolean(n)
        if self.ite_poly:
            if c == KTRUE:
                return pconst(1)
            if c == KFALSE:
                return {}
            return self.boolpoly(c)
        return patom(c)

    def boolpoly(self, c) -> dict:
        """0/1-valued polynomial of a canonical Boolean term over idempotent atoms (multilinear form)."""
        if not (isinstance(c, tuple) and c and c[0] == "B"):
            return patom(c)
        atoms, table = c[1], c[2]
        res: dict = {}
        n = len(atoms)
        for j in range(1 << n):
            if not (table >> j) & 1:
                continue
            term = pconst(1)
            for i, a in enumerate(atoms):
                pa = patom(a)
                term = pmul(term, pa if (j >> i) & 1 else padd(pconst(1), pneg(pa)))
            res = padd(res, term)
        return res

    def minmax_term(self, short: str, ca, cb) -> dict:
        """minimum/maximum of two canonical terms, with the nested form recognised as clip3(x, lo, hi)."""
        xs = sorted((ca, cb), key=_key)
        if xs[0] == xs[1]:
            return thaw(xs[0])
        fname_j = "jax.numpy." + short
        if self.minmax:
            other = "jax.numpy.maximum" if short == "minimum" else "jax.numpy.minimum"
            for i in (0, 1):
                inner, outer = xs[i], xs[1 - i]
                if isinstance(inner, tuple) and inner and inner[0] == "call" and inner[1] == other and len(inner[2]) == 2:
                    trio = [inner[2][0], inner[2][1], outer]
                    var = [t for t in trio if _depends_on_input(t)]
                    if len(var) == 1 and var[0] in inner[2]:
                        x = var[0]
                        b_in = inner[2][1] if inner[2][0] == x else inner[2][0]
                        lo_, hi_ = (b_in, outer) if short == "minimum" else (outer, b_in)
                        return patom(("call", "clip3", (x, lo_, hi_), ()))
        return patom(("call", fname_j, tuple(xs), ()))

    def ite(self, c, a, b):
        if self.minmax:
            cc0 = self.boolean(c)
            ca0, cb0 = self.canon(a), self.canon(b)
            neg = False
            t = cc0
            if isinstance(t, tuple) and t and t[0] == "B" and len(t[1]) == 1 and t[2] == 0b01:
                t, neg = t[1][0], True
            if isinstance(t, tuple) and t and t[0] == "cmp" and t[1] in ("Lt", "LtE"):
                lo_, hi_ = t[2], t[3]  # lo_ < hi_
                x, y = (cb0, ca0) if neg else (ca0, cb0)  # value when lo_<hi_ is x, else y
                if {x, y} == {lo_, hi_}:
                    name = "jax.numpy.minimum" if x == lo_ else "jax.numpy.maximum"
                    return ("call", name, tuple(sorted((lo_, hi_), key=_key)), ())
        cc = self.boolean(c)
        nc = self.boolean(("un", "Invert", c))
        ca, cb = self.canon(a), self.canon(b)
        if ca == cb:
            return ca
        if cc == KTRUE:
            return ca
        if cc == KFALSE:
            return cb
        tree = ("ite", cc, ca, cb)
        canon_tree = self._decision_tree(tree)
        if canon_tree is not None:
            return canon_tree
        if _key(nc) < _key(cc):
            return ("ite", nc, cb, ca)
        return tree

    @staticmethod
    def _cond_atoms(c):
        if c in (KTRUE, KFALSE):
            return ()
        if isinstance(c, tuple) and c and c[0] == "B":
            return tuple(c[1])
        return (c,)

    @staticmethod
    def _cond_value(c, asg):
        if c == KTRUE:
            return True
        if c == KFALSE:
            return False
        if isinstance(c, tuple) and c and c[0] == "B":
            j = 0
            for bi, a in enumerate(c[1]):
                if asg[a]:
                    j |= 1 << bi
            return bool((c[2] >> j) & 1)
        return asg[c]

    def _decision_tree(self, tree):
        """Canonical form of nested selections: the function from the truth values of the atoms of all tests to the selected leaf,
        written as a Shannon expansion over the atoms in canonical order (equal branches collapsed). `where` chains in any order,
        `select` with mutually exclusive cases, and nested conditional expressions over the same tests coincide."""
        atoms = []

        def collect(t):
            if isinstance(t, tuple) and len(t) == 4 and t[0] == "ite":
                for a in self._cond_atoms(t[1]):
                    if a not in atoms:
                        atoms.append(a)
                collect(t[2])
                collect(t[3])

        collect(tree)
        if not atoms or len(atoms) > 6:
            return None
        atoms.sort(key=_key)

        def leaf(t, asg):
            while isinstance(t, tuple) and len(t) == 4 and t[0] == "ite":
                t = t[2] if self._cond_value(t[1], asg) else t[3]
            return t

        def build(i, asg):
            if i == len(atoms):
                return leaf(tree, asg)
            a = atoms[i]
            tt = build(i + 1, dict(asg, **{}) | {a: True})
            ff = build(i + 1, dict(asg) | {a: False})
            if tt == ff:
                return tt
            return ("ite", a, tt, ff)

        return build(0, {})

    # -- calls ----------------------------------------------------------------
    FOREIGN_METHOD_NAMES = {"init", "update", "sample", "log_prob", "prob", "entropy", "mode", "reset", "step", "render", "close", "apply", "mean", "replace",
                            "get", "pop", "items", "keys", "values", "set", "add", "split", "join", "format", "copy", "index", "count"}

    def _method_sig(self, name):
        """(parameter names after self, {name: literal default}) of a method name every definition of which in the analysed package has the
        same parameter list and defaults, and that is not also the name of a method of the libraries' own objects; else None. For such a
        name `x.m(a, None)` and `x.m(a)` are one call when None is the declared default."""
        import ast as _ast
        tab = getattr(self, "_msigs", None)
        if tab is None:
            tab = self._msigs = {}
        if name in tab:
            return tab[name]
        res = None
        if self.b is not None and name not in ARRAY_METHODS and name not in self.FOREIGN_METHOD_NAMES and not name.startswith("__"):
            sigs = set()
            for ci in self.b.prog.classes.values():
                fn = ci.methods.get(name)
                if fn is None:
                    continue
                a = fn.args
                if a.vararg is not None or a.kwarg is not None or ci.is_classmethod(name) or any(isinstance(d, _ast.Name) and d.id == "staticmethod" for d in fn.decorator_list):
                    sigs.add(None)
                    continue
                pos = [x.arg for x in a.posonlyargs + a.args][1:]
                dfl = {}
                ok = True
                nd = len(a.defaults)
                allpos = [x.arg for x in a.posonlyargs + a.args]
                for nm, d in list(zip(allpos[len(allpos) - nd:], a.defaults)) + [(x.arg, d) for x, d in zip(a.kwonlyargs, a.kw_defaults) if d is not None]:
                    if isinstance(d, _ast.Constant) and (d.value is None or isinstance(d.value, (bool, int, float, str))):
                        dfl[nm] = d.value
                    else:
                        ok = False
                sigs.add((tuple(pos), tuple(x.arg for x in a.kwonlyargs), tuple(sorted(dfl.items(), key=repr))) if ok else None)
            if len(sigs) == 1 and None not in sigs:
                (pos, kwo, dfl), = sigs
                res = (pos, kwo, dict(dfl))
        tab[name] = res
        return res

    def call(self, n) -> dict:
        f, args, kwargs = n[1], n[2], n[3]
        if isinstance(f, tuple) and f and f[0] == "attr" and not any(isinstance(a_, tuple) and a_ and a_[0] == "star" for a_ in args) and all(k_ is not None for k_, _ in kwargs):
            ms = self._method_sig(f[2])
            if ms is not None and len(args) <= len(ms[0]):
                pos, kwo, dfl = ms
                bound = dict(zip(pos, args))
                if not (set(bound) & {k_ for k_, _ in kwargs}) and all(k_ in pos or k_ in kwo for k_, _ in kwargs):
                    bound.update(dict(kwargs))

                    def is_default(nm, v):
                        if nm not in dfl or not (isinstance(v, tuple) and v and v[0] == "const"):
                            return False
                        dv = v[1].v if isinstance(v[1], BoolConst) else v[1]
                        return type(dv) is type(dfl[nm]) and dv == dfl[nm]
                    kept = {nm: v for nm, v in bound.items() if not is_default(nm, v)}
                    # the longest prefix of positional parameters that is still bound stays positional, the rest goes by keyword
                    npos = 0
                    while npos < len(pos) and pos[npos] in kept:
                        npos += 1
                    new_args = tuple(kept[nm] for nm in pos[:npos])
                    new_kw = tuple(sorted(((nm, v) for nm, v in kept.items() if nm not in pos[:npos]), key=lambda kv: kv[0]))
                    if (new_args, new_kw) != (tuple(args), tuple(kwargs)):
                        return self.call(("call", f, new_args, new_kw))
        fname = None
        if isinstance(f, tuple) and f[0] == "global":
            fname = f[1]
        # array-method spelling -> function spelling
        if isinstance(f, tuple) and f[0] == "attr" and f[2] in ARRAY_METHODS:
            recv = f[1]
            is_module = isinstance(recv, tuple) and recv[0] == "global"
            is_self = recv == ("param", "self")  # self.clip(...) / self.mean(...) are the object's own methods, not array methods
            if not is_module and not is_self:
                fname = "jax.numpy." + f[2]
                args = (recv,) + tuple(args)
        if fname is not None and fname.startswith("numpy.") and ("jax.numpy." + fname[6:]) in SIGS | {"jax.numpy." + s: 0 for s in BINFUN}:
            pass
        if fname is not None and fname.startswith(("numpy.", "math.")):
            base = fname.split(".", 1)[1]
            fname_j = "jax.numpy." + base
        else:
            fname_j = fname
        kw = dict((k_, v) for k_, v in kwargs if k_ is not None)
        if fname_j is not None and fname_j.startswith("jax.numpy.") and "dtype" in kw and self.canon(kw["dtype"]) in FLOAT_DTYPES \
                and fname_j.rsplit(".", 1)[-1] in ("ones_like", "zeros_like", "full_like", "ones", "zeros", "full", "empty_like"):
            # a float dtype on an array constructor is a float cast, erased like every other float cast
            kwargs = tuple((k_, v) for k_, v in kwargs if k_ != "dtype")
            kw = dict((k_, v) for k_, v in kwargs if k_ is not None)
        if fname_j is not None and fname_j.startswith("jax.numpy."):
            short = fname_j[len("jax.numpy."):]
            if short in BINFUN and len(args) == 2 and not kw:
                o = BINFUN[short]
                if o in ("Lt", "LtE", "Gt", "GtE", "Eq", "NotEq"):
                    return patom(self.boolean(("cmp", o, args[0], args[1])))
                return self.binop(o, args[0], args[1])
            if short in UNFUN and len(args) == 1 and not kw:
                return self._poly(("un", UNFUN[short], args[0]))
            if short == "square" and len(args) == 1 and not kw:
                p = self.poly(args[0])
                return pmul(p, p)
            if short == "reciprocal" and len(args) == 1:
                return self.inv(self.poly(args[0]))
            if short in ("full", "full_like") and len(args) >= 2 and "fill_value" not in kw:
                # full(shape, v) is v times full(shape, 1): the sign and scale of the fill value stay visible to the polynomial layer
                pv = self.poly(args[1])
                if pv != pconst(1):
                    one_ = self.call(("call", f, (args[0], ("const", 1)) + tuple(args[2:]), kwargs))
                    return pmul(pv, one_)
            if short == "expand_dims" and ((len(args) == 2 and not kw) or (len(args) == 1 and set(kw) == {"axis"})):
                ax = args[1] if len(args) == 2 else kw["axis"]
                if ax == ("const", 0):
                    # expand_dims(x, axis=0) is x[None]
                    return self._poly(("sub", args[0], ("const", None)))
            if short == "clip" and self.minmax:
                names = ["x", "min", "max"]
                b_ = dict(zip(names, args))
                b_.update({KW_ALIASES["jax.numpy.clip"].get(k_, k_): v for k_, v in kw.items()})
                if set(b_) == {"x", "min", "max"}:
                    inner = freeze(self.minmax_term("maximum", self.canon(b_["x"]), self.canon(b_["min"])))
                    return self.minmax_term("minimum", inner, self.canon(b_["max"]))
            if short in AC_FUN and len(args) == 2 and not kw:
                return self.minmax_term(short, self.canon(args[0]), self.canon(args[1]))
            if False:
                xs = []
                if self.minmax:
                    other = "jax.numpy.maximum" if short == "minimum" else "jax.numpy.minimum"
                    for i in (0, 1):
                        inner, outer = xs[i], xs[1 - i]
                        if isinstance(inner, tuple) and inner and inner[0] == "call" and inner[1] == other and len(inner[2]) == 2:
                            trio = [inner[2][0], inner[2][1], outer]
                            var = [t for t in trio if _depends_on_input(t)]
                            if len(var) == 1 and var[0] in inner[2]:
                                x = var[0]
                                b_in = inner[2][1] if inner[2][0] == x else inner[2][0]
                                lo_, hi_ = (b_in, outer) if short == "minimum" else (outer, b_in)
                                return patom(("call", "clip3", (x, lo_, hi_), ()))
                return patom(("call", fname_j, tuple(xs), ()))
            if short == "astype" and len(args) == 2:
                return self.cast(args[0], self.canon(args[1]))
            if short in ("asarray", "array") and len(args) >= 1:
                dt = kw.get("dtype", args[1] if len(args) > 1 else None)
                if dt is None:
                    return self.poly(args[0])
                return self.cast(args[0], self.canon(dt))
            if short in ("ravel", "flatten") and len(args) == 1 and not kw:
                return patom(("call", "jax.numpy.reshape", (self.canon(args[0]), ("k", -1)), ()))
            if short == "reshape" and len(args) == 2 and not kw:
                sh = self.canon(args[1])
                if sh == ("tuple", ("k", -1)):
                    sh = ("k", -1)
                return patom(("call", "jax.numpy.reshape", (self.canon(args[0]), sh), ()))
            if short in ("mean", "sum") and len(args) == 1 and not kw:
                p = self.poly(args[0])
                if not p:
                    return {}
                items = sorted(p.items(), key=lambda kv: _key(kv[0]))
                lead = items[0][1]
                q = {m: c / lead for m, c in p.items()}
                return pmul(pconst(lead), patom(("call", fname_j, (freeze(q),), ())))
            if short == "exp" and len(args) == 1:
                return patom(("call", fname_j, (self.canon(args[0]),), ()))
        if fname in ("min", "max") and len(args) == 2 and not kw and self.minmax:
            return self.minmax_term("minimum" if fname == "min" else "maximum", self.canon(args[0]), self.canon(args[1]))
        if fname in ("float", "int", "bool") and len(args) == 1 and not kw:
            return self.cast(args[0], ("g", fname))
        if fname == "float" and len(args) == 1 and args[0] == ("const", "inf"):
            return patom(("k", "inf"))
        if fname in IDENTITY_CALLS and len(args) == 1 and not kw:
            if fname == "jax.lax.stop_gradient" and self.keep_sg:
                return patom(("call", fname, (self.canon(args[0]),), ()))
            return self.poly(args[0])
        if fname == "equinox.error_if" and len(args) >= 1 and self.erase_error_if:
            return self.poly(args[0])
        if fname in ("tuple", "list") and len(args) == 1 and not kw:
            # tuple(tuple(x)) is tuple(x); tuple((a, b)) is (a, b)  [lists and tuples are one canonical sequence kind]
            inner = self.canon(args[0])
            if isinstance(inner, tuple) and inner and (inner[0] == "tuple" or (inner[0] == "call" and inner[1] in ("tuple", "list") and len(inner[2]) == 1 and not inner[3])):
                return patom(inner) if inner[0] == "tuple" else patom(("call", fname, inner[2], ()))
        # pytree operations act component-wise on a tuple of trees: partition / combine / tree.map of literal tuples are the tuples of
        # the per-component results (so blending two critics in one call reads like blending each in its own call)
        if fname in ("equinox.partition", "equinox.combine", "jax.tree.map", "jax.tree_util.tree_map") and not kw:
            trees = args[1:] if fname.endswith("map") else (args[:1] if fname == "equinox.partition" else args)
            ct = [self.canon(t) for t in trees]
            if trees and all(isinstance(c, tuple) and c and c[0] == "tuple" and len(c) == len(ct[0]) and len(c) > 1 for c in ct):
                n_ = len(ct[0]) - 1
                comps = []
                for i in range(n_):
                    parts_i = tuple(("item", t, i) for t in trees)
                    if fname == "equinox.partition":
                        comps.append(("call", f, parts_i + tuple(args[1:]), ()))
                    elif fname == "equinox.combine":
                        comps.append(("call", f, parts_i, ()))
                    else:
                        comps.append(("call", f, (args[0],) + parts_i, ()))
                if fname == "equinox.partition":
                    return self._poly(("tuple", (("tuple", tuple(("item", c, 0) for c in comps)), ("tuple", tuple(("item", c, 1) for c in comps)))))
                return self._poly(("tuple", tuple(comps)))
        if fname == "jax.random.permutation" and len(args) >= 2 and isinstance(args[1], tuple) and args[1] and args[1][0] == "call" \
                and args[1][1] == ("global", "jax.numpy.arange") and len(args[1][2]) == 1 and not args[1][3]:
            # permutation(key, arange(n)) is permutation(key, n) (JAX shuffles arange(n) for an integer argument)
            return self.call(("call", f, (args[0], args[1][2][0]) + tuple(args[2:]), kwargs))
        if fname == "functools.reduce" and len(args) == 3 and not kw and (args[0], args[2]) == (("global", "operator.mul"), ("const", 1)):
            # the left fold of a product from 1 is math.prod
            return self.call(("call", ("global", "math.prod"), (args[1],), ()))
        if fname == "math.prod" and len(args) == 1 and not kwargs and isinstance(args[0], tuple) and args[0] and args[0][0] in ("tuple", "list") \
                and not any(isinstance(x, tuple) and x and x[0] == "star" for x in args[0][1]):
            # the product of a displayed sequence is the product of its elements (1 for the empty one)
            out = ("const", 1)
            for x in args[0][1]:
                out = x if out == ("const", 1) else ("bin", "Mult", out, x)
            return self._poly(out)
        if fname in ("tuple", "list") and len(args) == 1 and not kwargs:
            # the materialised sequence of a comprehension is the comprehension (a list comprehension and a generator expression already
            # denote one sequence of values), also when it is materialised more than once (tuple(tuple(gen)))
            inner = args[0]
            while isinstance(inner, tuple) and inner and inner[0] == "call" and inner[1] in (("global", "tuple"), ("global", "list")) and len(inner[2]) == 1 and not inner[3]:
                inner = inner[2][0]
            if isinstance(inner, tuple) and inner and inner[0] == "comp" and inner[1] in ("ListComp", "GeneratorExp"):
                return self._poly(inner)
        if fname == "equinox.filter" and len(args) == 2 and not kw:
            # filter(tree, spec) is the first half of partition(tree, spec)
            return self._poly(("item", ("call", ("global", "equinox.partition"), tuple(args), ()), 0))
        if fname == "typing.cast" and len(args) == 2 and not kw:
            return self.poly(args[1])
        if fname == "jax.numpy.finfo" or fname == "numpy.finfo":
            return patom(("call", "finfo", tuple(self.canon(a) for a in args), ()))
        # generic call: canonical callee, kw/positional equivalence for known signatures
        cf = fname_j if fname_j is not None else self.canon(f)
        cargs = [self.canon(a) for a in args]
        ckw = {k_: self.canon(v) for k_, v in kw.items()}
        star_kw = [self.canon(v) for k_, v in kwargs if k_ is None]
        if isinstance(cf, str) and cf in SIGS:
            names = SIGS[cf]
            al = KW_ALIASES.get(cf, {})
            ckw = {al.get(k_, k_): v for k_, v in ckw.items()}
            if len(cargs) <= len(names):
                for nme, v in zip(names, cargs):
                    ckw[nme] = v
                cargs = []
                for nme in list(ckw):
                    if (cf, nme) in DEFAULTS and DEFAULTS[(cf, nme)] == ckw[nme]:
                        del ckw[nme]
        return patom(("call", cf, tuple(cargs), tuple(sorted(ckw.items(), key=_key)) + tuple(("**", s) for s in star_kw)))

    def cast(self, x, dt):
        """Casts to float/bool are erased (value-preserving on the kinds lerax casts);
        a cast to int is kept unless the operand is an integer literal."""
        if dt in FLOAT_DTYPES:
            p = self.poly(x)
            fx = freeze(p)
            if isinstance(fx, tuple) and fx and fx[0] == "B":
                # a Boolean combination cast to float is its 0/1 indicator: (~d).astype(float) == 1 - d.astype(float)
                return self.boolpoly(fx)
            return p
        if dt in BOOL_DTYPES:
            return self.poly(x)
        p = self.poly(x)
        if dt in INT_DTYPES:
            fx = freeze(p)
            if fx in self.bool_terms or (isinstance(fx, tuple) and fx and fx[0] in ("B", "cmp")):
                return p  # Bool -> int is value-preserving
            if p and all(c.denominator == 1 for c in p.values()) and all(
                    e > 0 and (a in self.int_terms or a in self.bool_terms) for m in p for a, e in m):
                return p  # integer polynomial over integer atoms: the cast is the identity
            if list(p.keys()) in ([()], []) and all(c.denominator == 1 for c in p.values()):
                return p
            return patom(("cast", "int", freeze(p)))
        return patom(("cast", dt, freeze(p)))

    def attr(self, n):
        base = n[1]
        return ("attr", self.canon(base), n[2])

    def index(self, i):
        if isinstance(i, tuple) and i and i[0] == "slice":
            return ("slice",) + tuple(self.canon(x) for x in i[1:])
        if isinstance(i, tuple) and i and i[0] == "tuple":
            return ("tuple",) + tuple(self.index(x) for x in i[1])
        return self.canon(i)

    def lam(self, c: Closure):
        """Canonical lambda: body with parameters replaced by de-Bruijn-like bound variables."""
        if self.b is None or self.lam_depth > 6:
            return ("lamref", c.qualname or c.name, getattr(c.node, "lineno", 0))
        if c.qualname is not None:
            return ("fn", c.qualname, self.canon(c.bound_self) if c.bound_self is not None else None)
        names = c.param_names()
        self.lam_depth += 1
        d = 100 + self.lam_depth
        try:
            args = tuple(("bound", d, i) for i in range(len(names)))
            try:
                body = self.b.apply(c, args, ())
            except Exception as e:  # noqa: BLE001 - any failure makes the lambda opaque, never equal
                return ("lamerr", id(c), str(e)[:40])
            return ("lam", len(names), self.canon(body))
        finally:
            self.lam_depth -= 1


def _depends_on_input(t) -> bool:
    """Does a canonical term mention a parameter other than `self` (i.e. is it a variable rather than a configured bound)?"""
    if isinstance(t, tuple):
        if t and t[0] == "p" and len(t) == 2 and isinstance(t[1], str):
            return t[1] != "self"
        return any(_depends_on_input(x) for x in t)
    return False


# ----------------------------------------------------------------------------- display
def show_term(t, maxlen=600) -> str:
    s = _st(t, 0)
    return s if len(s) <= maxlen else s[: maxlen - 3] + "..."


def _st(t, d) -> str:
    if not isinstance(t, tuple) or not t:
        return repr(t)
    if d > 14:
        return "…"
    k = t[0]
    if k == "poly":
        terms = []
        for m, c in t[1]:
            ms = "·".join((_st(a, d + 1) + (f"^{e}" if e != 1 else "")) for a, e in m)
            if not ms:
                terms.append(c)
            elif c == "1":
                terms.append(ms)
            elif c == "-1":
                terms.append("-" + ms)
            else:
                terms.append(f"{c}·{ms}")
        return "(" + " + ".join(terms) + ")"
    if k == "p" and len(t) == 2 and isinstance(t[1], str):
        return t[1]
    if k == "g" and len(t) == 2 and isinstance(t[1], str):
        return t[1].replace("jax.numpy.", "jnp.").replace("jax.random.", "jr.")
    if k == "kb":
        return repr(t[1])
    if k == "k" and len(t) == 2:
        if isinstance(t[1], tuple) and t[1] and t[1][0] == "frac":
            return t[1][1]
        return repr(t[1]) if not isinstance(t[1], str) else t[1]
    if k == "attr":
        return f"{_st(t[1], d+1)}.{t[2]}"
    if k == "sub":
        return f"{_st(t[1], d+1)}[{_st(t[2], d+1)}]"
    if k == "slice":
        return ":".join("" if x == ("k", None) else _st(x, d + 1) for x in t[1:])
    if k == "item":
        return f"{_st(t[1], d+1)}#{t[2]}"
    if k == "call":
        f = t[1] if isinstance(t[1], str) else _st(t[1], d + 1)
        f = f.replace("jax.numpy.", "jnp.").replace("jax.random.", "jr.")
        a = [_st(x, d + 1) for x in t[2]] + [f"{kk}={_st(v, d+1)}" for kk, v in t[3]]
        return f"{f}({', '.join(a)})"
    if k == "cmp":
        op = {"Lt": "<", "LtE": "<=", "Eq": "==", "Is": "is", "In": "in"}.get(t[1], t[1])
        return f"({_st(t[2], d+1)} {op} {_st(t[3], d+1)})"
    if k == "B":
        return f"B[{', '.join(_st(a, d+1) for a in t[1])}; {bin(t[2])}]"
    if k == "ite":
        return f"ite({_st(t[1], d+1)}, {_st(t[2], d+1)}, {_st(t[3], d+1)})"
    if k == "inv":
        return f"1/{_st(t[1], d+1)}"
    if k == "tuple":
        return "(" + ", ".join(_st(x, d + 1) for x in t[1:]) + ")"
    if k == "rec":
        return t[1].split(".")[-1] + "{" + ", ".join(f"{f}={_st(v, d+1)}" for f, v in t[2]) + "}"
    if k == "lam":
        return f"λ{t[1]}.{_st(t[2], d+1)}"
    if k == "bv":
        return f"x{t[1]}_{t[2]}"
    return "(" + " ".join(_st(x, d + 1) if isinstance(x, tuple) else repr(x) for x in t) + ")"
