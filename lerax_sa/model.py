"""Program model of the lerax package: modules, imports, classes, MRO, methods.

Pure `ast`; nothing from /repo is imported or executed.  Everything is rebuilt
from the *current working tree* on every run.
"""
from __future__ import annotations

import ast
import os
from dataclasses import dataclass, field


class AnalysisError(Exception):
    """The analysis itself cannot be carried out (exit 2, never a pass/violation)."""


REPO = os.environ.get("LERAX_REPO", "/repo")
SRC = os.path.join(REPO, "src")

# canonical spellings of external module aliases --------------------------------
CANON_MODULES = {
    "jax.numpy": "jax.numpy",
    "jax.random": "jax.random",
    "jax.lax": "jax.lax",
    "numpy": "numpy",
    "equinox": "equinox",
}


@dataclass
class FieldInfo:
    name: str
    annotation: ast.expr | None
    default: ast.expr | None
    abstract: bool  # genuinely abstract for Equinox (see Program docs)
    abstract_written: bool  # annotation mentions AbstractVar/AbstractClassVar
    static: bool
    lineno: int


@dataclass
class ClassInfo:
    name: str
    qualname: str
    module: "ModuleInfo"
    node: ast.ClassDef
    base_exprs: list[ast.expr]
    bases: list[str] = field(default_factory=list)  # resolved qualified names
    fields: dict[str, FieldInfo] = field(default_factory=dict)
    methods: dict[str, ast.FunctionDef] = field(default_factory=dict)
    assigns: dict[str, ast.expr] = field(default_factory=dict)  # class-level non-annotated bindings
    typevars: dict[str, ast.expr | None] = field(default_factory=dict)  # PEP 695 params -> bound

    def decorators(self, meth: str) -> list[str]:
        fn = self.methods[meth]
        return [ast.unparse(d) for d in fn.decorator_list]

    def is_property(self, meth: str) -> bool:
        return any(d.split(".")[-1] in ("property", "cached_property") for d in self.decorators(meth))

    def is_abstractmethod(self, meth: str) -> bool:
        return any(d.split(".")[-1] == "abstractmethod" for d in self.decorators(meth))

    def is_static(self, meth: str) -> bool:
        return any(d.split(".")[-1] == "staticmethod" for d in self.decorators(meth))

    def is_classmethod(self, meth: str) -> bool:
        return any(d.split(".")[-1] == "classmethod" for d in self.decorators(meth))


@dataclass
class ModuleInfo:
    name: str  # dotted
    path: str
    tree: ast.Module
    source: str
    is_package: bool
    future_annotations: bool = False
    imports: dict[str, str] = field(default_factory=dict)  # local name -> qualified name
    classes: dict[str, ClassInfo] = field(default_factory=dict)
    functions: dict[str, ast.FunctionDef] = field(default_factory=dict)
    assigns: dict[str, ast.expr] = field(default_factory=dict)
    all: list[str] | None = None

    @property
    def relpath(self) -> str:
        return os.path.relpath(self.path, REPO)


class Program:
    """All modules under src/<package> of the working tree.

    Equinox abstractness is modelled the way Equinox implements it: with
    `from __future__ import annotations` the annotation is a string and
    `equinox._module._better_abstract` only honours it if it literally starts
    with `AbstractVar[` / `AbstractClassVar[`; `eqx.AbstractVar[...]` therefore
    becomes an ordinary dataclass field in such modules.
    """

    def __init__(self, src_root: str = SRC, package: str = "lerax", sources: dict[str, str] | None = None, file_filter=None):
        self.src_root = src_root
        self.package = package
        self.file_filter = file_filter
        self.modules: dict[str, ModuleInfo] = {}
        self.classes: dict[str, ClassInfo] = {}  # qualname -> ClassInfo
        self.by_name: dict[str, list[ClassInfo]] = {}
        self._mro_cache: dict[str, list[ClassInfo]] = {}
        self._overrides = sources or {}
        self._load()
        self._link()

    def data_text(self, rel: str) -> str | None:
        """Text of a non-Python data file under the source root (in-memory override first); None when absent."""
        if rel in self._overrides:
            return self._overrides[rel]
        path = os.path.join(self.src_root, rel)
        if not os.path.exists(path):
            return None
        with open(path, encoding="utf-8") as f:
            return f.read()

    # ------------------------------------------------------------------ loading
    def _load(self):
        root = os.path.join(self.src_root, self.package)
        if not os.path.isdir(root):
            raise AnalysisError(f"package root {root} not found")
        for dp, dns, fns in os.walk(root):
            dns[:] = sorted(d for d in dns if d != "__pycache__")
            for fn in sorted(fns):
                if not fn.endswith(".py"):
                    continue
                path = os.path.join(dp, fn)
                if self.file_filter is not None and not self.file_filter(os.path.relpath(path, self.src_root)):
                    continue
                rel = os.path.relpath(path, self.src_root)[:-3].split(os.sep)
                is_pkg = rel[-1] == "__init__"
                if is_pkg:
                    rel = rel[:-1]
                name = ".".join(rel)
                relkey = os.path.relpath(path, self.src_root)
                if relkey in self._overrides:
                    src = self._overrides[relkey]
                else:
                    with open(path, encoding="utf-8") as f:
                        src = f.read()
                try:
                    tree = ast.parse(src, filename=path)
                except SyntaxError as e:
                    raise AnalysisError(f"cannot parse {path}: {e}") from e
                self.modules[name] = ModuleInfo(name, path, tree, src, is_pkg)
        for m in self.modules.values():
            self._scan_module(m)

    def _abs_import(self, m: ModuleInfo, module: str | None, level: int) -> str:
        if level == 0:
            return module or ""
        parts = m.name.split(".")
        if not m.is_package:
            parts = parts[:-1]
        if level > 1:
            parts = parts[: len(parts) - (level - 1)]
        if module:
            parts = parts + module.split(".")
        return ".".join(parts)

    def _scan_module(self, m: ModuleInfo):
        def scan_imports(body):
            for st in body:
                if isinstance(st, ast.Import):
                    for a in st.names:
                        if a.asname:
                            m.imports[a.asname] = a.name
                        else:
                            m.imports[a.name.split(".")[0]] = a.name.split(".")[0]
                elif isinstance(st, ast.ImportFrom):
                    if st.module == "__future__":
                        if any(a.name == "annotations" for a in st.names):
                            m.future_annotations = True
                        continue
                    base = self._abs_import(m, st.module, st.level)
                    for a in st.names:
                        m.imports[a.asname or a.name] = f"{base}.{a.name}" if base else a.name
                elif isinstance(st, (ast.If, ast.Try)):
                    # TYPE_CHECKING / optional imports
                    for sub in ast.iter_child_nodes(st):
                        if isinstance(sub, list):
                            continue
                    scan_imports(getattr(st, "body", []))
                    scan_imports(getattr(st, "orelse", []))
                    for h in getattr(st, "handlers", []):
                        scan_imports(h.body)

        scan_imports(m.tree.body)
        for st in m.tree.body:
            if isinstance(st, ast.ClassDef):
                ci = self._scan_class(m, st)
                m.classes[st.name] = ci
            elif isinstance(st, ast.FunctionDef):
                m.functions[st.name] = st
            elif isinstance(st, ast.Assign):
                for t in st.targets:
                    if isinstance(t, ast.Name):
                        m.assigns[t.id] = st.value
                        if t.id == "__all__" and isinstance(st.value, (ast.List, ast.Tuple)):
                            m.all = [e.value for e in st.value.elts if isinstance(e, ast.Constant)]
            elif isinstance(st, ast.AnnAssign) and isinstance(st.target, ast.Name) and st.value is not None:
                m.assigns[st.target.id] = st.value

    def _scan_class(self, m: ModuleInfo, node: ast.ClassDef) -> ClassInfo:
        ci = ClassInfo(node.name, f"{m.name}.{node.name}", m, node, list(node.bases))
        for tp in getattr(node, "type_params", []) or []:
            ci.typevars[tp.name] = getattr(tp, "bound", None)
        for st in node.body:
            if isinstance(st, ast.AnnAssign) and isinstance(st.target, ast.Name):
                ann_src = ast.unparse(st.annotation) if st.annotation is not None else ""
                written = "AbstractVar[" in ann_src or "AbstractClassVar[" in ann_src
                if m.future_annotations:
                    genuinely = ann_src.startswith(("AbstractVar[", "AbstractClassVar["))
                else:
                    genuinely = written and ann_src.split("[")[0].split(".")[-1] in ("AbstractVar", "AbstractClassVar")
                static = False
                if st.value is not None and isinstance(st.value, ast.Call):
                    fsrc = ast.unparse(st.value.func)
                    if fsrc.split(".")[-1] == "field":
                        for kw in st.value.keywords:
                            if kw.arg == "static" and isinstance(kw.value, ast.Constant) and kw.value.value is True:
                                static = True
                if "ClassVar[" in ann_src and not written:
                    ci.assigns[st.target.id] = st.value  # plain ClassVar: class-level binding
                    continue
                ci.fields[st.target.id] = FieldInfo(
                    st.target.id, st.annotation, st.value, genuinely, written, static, st.lineno
                )
            elif isinstance(st, ast.FunctionDef):
                # property setters etc. are not used in lerax; last def wins like Python
                ci.methods[st.name] = st
            elif isinstance(st, ast.Assign):
                for t in st.targets:
                    if isinstance(t, ast.Name):
                        ci.assigns[t.id] = st.value
        return ci

    # ------------------------------------------------------------------ linking
    def _link(self):
        for m in self.modules.values():
            for ci in m.classes.values():
                self.classes[ci.qualname] = ci
                self.by_name.setdefault(ci.name, []).append(ci)
        for ci in self.classes.values():
            for b in ci.base_exprs:
                e = b
                while isinstance(e, ast.Subscript):
                    e = e.value
                q = self.resolve_expr_name(ci.module, e)
                if q is not None:
                    ci.bases.append(q)

    def resolve_expr_name(self, m: ModuleInfo, e: ast.expr) -> str | None:
        """Qualified name of a Name/Attribute chain as seen from module m."""
        parts = []
        while isinstance(e, ast.Attribute):
            parts.append(e.attr)
            e = e.value
        if not isinstance(e, ast.Name):
            return None
        head = e.id
        parts.reverse()
        return self.resolve_name(m, head, parts)

    def resolve_name(self, m: ModuleInfo, head: str, rest: list[str] | tuple = ()) -> str | None:
        if head in m.classes:
            q = f"{m.name}.{head}"
        elif head in m.functions or head in m.assigns:
            q = f"{m.name}.{head}"
        elif head in m.imports:
            q = m.imports[head]
        else:
            return None
        if rest:
            q = q + "." + ".".join(rest)
        return self.canonical(q)

    def canonical(self, q: str, _depth: int = 0) -> str:
        """Follow package re-exports to the defining module; canonicalise externals."""
        if _depth > 20:
            return q
        if not q.startswith(self.package + ".") and q != self.package:
            return q
        # longest module prefix
        parts = q.split(".")
        for i in range(len(parts), 0, -1):
            mod = ".".join(parts[:i])
            if mod in self.modules:
                rest = parts[i:]
                if not rest:
                    return q
                m = self.modules[mod]
                head = rest[0]
                if head in m.classes or head in m.functions or head in m.assigns:
                    return q
                if head in m.imports:
                    tgt = m.imports[head]
                    nq = ".".join([tgt] + rest[1:])
                    if nq == q:
                        return q
                    return self.canonical(nq, _depth + 1)
                sub = f"{mod}.{head}"
                if sub in self.modules:
                    continue
                return q
        return q

    # ------------------------------------------------------------------ queries
    def cls(self, name: str) -> ClassInfo:
        if name in self.classes:
            return self.classes[name]
        cands = self.by_name.get(name, [])
        if len(cands) == 1:
            return cands[0]
        if not cands:
            raise AnalysisError(f"anchor class {name} vanished")
        raise AnalysisError(f"class name {name} is ambiguous: {[c.qualname for c in cands]}")

    def has_cls(self, name: str) -> bool:
        return name in self.classes or len(self.by_name.get(name, [])) == 1

    def mro(self, ci: ClassInfo) -> list[ClassInfo]:
        if ci.qualname in self._mro_cache:
            return self._mro_cache[ci.qualname]
        seqs = []
        for b in ci.bases:
            if b in self.classes:
                seqs.append(list(self.mro(self.classes[b])))
        seqs.append([self.classes[b] for b in ci.bases if b in self.classes])
        res = [ci]
        seqs = [s for s in seqs if s]
        while seqs:
            for s in seqs:
                cand = s[0]
                if not any(cand in t[1:] for t in seqs):
                    break
            else:
                raise AnalysisError(f"inconsistent MRO for {ci.qualname}")
            res.append(cand)
            seqs = [[x for x in s if x is not cand] for s in seqs]
            seqs = [s for s in seqs if s]
        self._mro_cache[ci.qualname] = res
        return res

    def external_bases(self, ci: ClassInfo) -> list[str]:
        out = []
        for c in self.mro(ci):
            for b in c.bases:
                if b not in self.classes:
                    out.append(b)
        return out

    def is_subclass(self, ci: ClassInfo, base: ClassInfo | str) -> bool:
        if isinstance(base, str):
            base = self.cls(base)
        return base in self.mro(ci)

    def subclasses(self, base: ClassInfo | str, strict: bool = True) -> list[ClassInfo]:
        if isinstance(base, str):
            base = self.cls(base)
        out = [c for c in self.classes.values() if base in self.mro(c) and (c is not base or not strict)]
        return sorted(out, key=lambda c: c.qualname)

    def resolve_method(self, ci: ClassInfo, name: str, after: ClassInfo | None = None):
        """(defining class, FunctionDef) through the MRO, or None."""
        mro = self.mro(ci)
        if after is not None:
            mro = mro[mro.index(after) + 1 :]
        for c in mro:
            if name in c.methods:
                return c, c.methods[name]
        return None

    def resolve_attr(self, ci: ClassInfo, name: str):
        """First definition of `name` through the MRO: ('method'|'field'|'assign', class, obj)."""
        for c in self.mro(ci):
            if name in c.methods:
                return "method", c, c.methods[name]
            if name in c.assigns:
                return "assign", c, c.assigns[name]
            if name in c.fields:
                return "field", c, c.fields[name]
        return None

    def is_module_class(self, ci: ClassInfo) -> bool:
        """Derived (transitively) from equinox.Module."""
        return any(b.split(".")[-1] == "Module" and b.startswith("equinox") for b in self.external_bases(ci))

    def dataclass_fields(self, ci: ClassInfo) -> list[FieldInfo]:
        """Dataclass field order over the MRO (base first; redefinition keeps position).
        Genuinely-abstract variables are not dataclass fields."""
        order: dict[str, FieldInfo] = {}
        for c in reversed(self.mro(ci)):
            for f in c.fields.values():
                if f.abstract:
                    continue
                order[f.name] = f
        return list(order.values())

    def init_signature(self, ci: ClassInfo):
        """('custom', cls, FunctionDef) or ('dataclass', [field names])."""
        r = self.resolve_method(ci, "__init__")
        if r is not None:
            return ("custom", r[0], r[1])
        return ("dataclass", [f.name for f in self.dataclass_fields(ci)])

    def abstract_members(self, ci: ClassInfo) -> tuple[set[str], set[str]]:
        """(unsatisfied abstract vars, unsatisfied abstract methods) for instantiating ci."""
        mro = self.mro(ci)
        avars: set[str] = set()
        ameths: set[str] = set()
        # walk from base to derived, like Python/Equinox accumulate
        for c in reversed(mro):
            for f in c.fields.values():
                if f.abstract:
                    avars.add(f.name)
                else:
                    avars.discard(f.name)
                    ameths.discard(f.name)
            for n in c.methods:
                if c.is_abstractmethod(n):
                    ameths.add(n)
                    # an abstract property/method does not satisfy an abstract var
                else:
                    ameths.discard(n)
                    avars.discard(n)
            for n in c.assigns:
                avars.discard(n)
                ameths.discard(n)
        return avars, ameths

    def concrete_exported(self, package: str) -> list[ClassInfo]:
        m = self.modules.get(package)
        if m is None:
            raise AnalysisError(f"package {package} vanished")
        out = []
        for n in m.all or []:
            q = self.resolve_name(m, n)
            if q in self.classes and not self.classes[q].name.startswith("Abstract"):
                out.append(self.classes[q])
        return out

    # annotation -> lerax class ------------------------------------------------
    def annotation_class(self, m: ModuleInfo, ann: ast.expr | None, owner: ClassInfo | None = None,
                         fn: ast.FunctionDef | None = None) -> ClassInfo | None:
        if ann is None:
            return None
        if isinstance(ann, ast.Constant) and isinstance(ann.value, str):
            try:
                ann = ast.parse(ann.value, mode="eval").body
            except SyntaxError:
                return None
        while isinstance(ann, ast.Subscript):
            base = ast.unparse(ann.value)
            if base.split(".")[-1] in ("AbstractVar", "AbstractClassVar", "Optional", "ClassVar"):
                ann = ann.slice
            else:
                ann = ann.value
        if isinstance(ann, ast.BinOp) and isinstance(ann.op, ast.BitOr):
            return self.annotation_class(m, ann.left, owner, fn) or self.annotation_class(m, ann.right, owner, fn)
        if isinstance(ann, ast.Name):
            # the type variable of `self` (def f[S: Base](self: S) -> S): the receiver's own class
            if fn is not None and owner is not None:
                a0 = (fn.args.posonlyargs + fn.args.args)[:1]
                if a0 and isinstance(a0[0].annotation, ast.Name) and a0[0].annotation.id == ann.id and ann.id != "Self" \
                        and any(tp.name == ann.id for tp in getattr(fn, "type_params", []) or []):
                    return owner
            # type variable with a bound?
            for tv_src in ([fn] if fn is not None else []) + ([owner.node] if owner is not None else []):
                for tp in getattr(tv_src, "type_params", []) or []:
                    if tp.name == ann.id:
                        return self.annotation_class(m, getattr(tp, "bound", None), owner, None)
            if ann.id == "Self" and owner is not None:
                return owner
        q = self.resolve_expr_name(m, ann) if isinstance(ann, (ast.Name, ast.Attribute)) else None
        if q and q in self.classes:
            return self.classes[q]
        return None

    def loc(self, m: ModuleInfo, node: ast.AST) -> str:
        return f"{m.relpath}:{getattr(node, 'lineno', 0)}"

    def function_count(self) -> int:
        n = 0
        for m in self.modules.values():
            for x in ast.walk(m.tree):
                if isinstance(x, (ast.FunctionDef, ast.Lambda)):
                    n += 1
        return n
