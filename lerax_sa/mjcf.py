"""Model sizes read from the MJCF asset files (static data of the repository, parsed with xml.etree, never compiled).

nq / nv follow MuJoCo's joint table (free 7/6, ball 4/3, slide 1/1, hinge 1/1; the default joint type is hinge unless a
<default><joint type=...> of the applicable class says otherwise); nu = number of actuators; nbody = bodies + world."""
from __future__ import annotations

import os
import xml.etree.ElementTree as ET

from .model import SRC, AnalysisError

NQ = {"free": 7, "ball": 4, "slide": 1, "hinge": 1}
NV = {"free": 6, "ball": 3, "slide": 1, "hinge": 1}
_CACHE: dict = {}


ASSET_DIR = "lerax/env/mujoco/assets"


def sizes(xml_name: str, prog=None) -> dict:
    """Model sizes of lerax/env/mujoco/assets/<xml_name> (read through the Program so in-memory edits are seen)."""
    rel = f"{ASSET_DIR}/{xml_name}"
    if prog is not None:
        text = prog.data_text(rel)
    else:
        path = os.path.join(SRC, rel)
        text = open(path, encoding="utf-8").read() if os.path.exists(path) else None
    if text is None:
        raise AnalysisError(f"MJCF asset {xml_name} not found")
    if text in _CACHE:
        return _CACHE[text]
    try:
        root = ET.fromstring(text)
    except ET.ParseError as e:
        raise AnalysisError(f"MJCF asset {xml_name} does not parse: {e}") from e
    path = text
    if root.find(".//include") is not None:
        raise AnalysisError(f"MJCF asset {xml_name} uses <include>: sizes not derivable from this file alone")
    # default joint type per class
    defaults = {}

    def walk_defaults(el, cls, inherited):
        jt = inherited
        j = el.find("joint")
        if j is not None and j.get("type"):
            jt = j.get("type")
        defaults[cls] = jt
        for d in el.findall("default"):
            walk_defaults(d, d.get("class", cls), jt)

    for d in root.findall("default"):
        walk_defaults(d, d.get("class", "main"), "hinge")
    top = defaults.get("main", "hinge")
    nq = nv = nbody = njnt = 0

    def walk_body(el, childclass):
        nonlocal nq, nv, nbody, njnt
        for ch in el:
            if ch.tag == "body":
                nbody += 1
                walk_body(ch, ch.get("childclass", childclass))
            elif ch.tag == "freejoint":
                nq += 7
                nv += 6
                njnt += 1
            elif ch.tag == "joint":
                cls = ch.get("class", childclass)
                jt = ch.get("type") or (defaults.get(cls, top) if cls else top)
                if jt not in NQ:
                    raise AnalysisError(f"{xml_name}: unknown joint type {jt}")
                nq += NQ[jt]
                nv += NV[jt]
                njnt += 1

    wb = root.find("worldbody")
    if wb is None:
        raise AnalysisError(f"{xml_name}: no <worldbody>")
    walk_body(wb, wb.get("childclass"))
    act = root.find("actuator")
    nu = len(list(act)) if act is not None else 0
    out = {"nq": nq, "nv": nv, "nu": nu, "nbody": nbody + 1, "njnt": njnt}
    _CACHE[path] = out
    return out
