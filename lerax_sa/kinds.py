"""Kind and shape abstraction over value graphs (DESIGN.md §2.4).

Lattice: kind in {Bool, Int, Float, Key, Static, Unknown}; shape in {Scalar, NonScalar, Unknown}.
Seeds: jaxtyping annotations on parameters / fields / return types, literals and constructors.
`Unknown` never produces a violation; it is reported as undecided.
"""
from __future__ import annotations

import ast

from .model import ClassInfo, Program
from .vgraph import NONE, BoolConst, Builder, Closure

BOOL, INT, FLOAT, KEY, STATIC, UNKNOWN = "Bool", "Int", "Float", "Key", "Static", "Unknown"
SCALAR, NONSCALAR = "Scalar", "NonScalar"

JT_KIND = {"Bool": BOOL, "Int": INT, "Integer": INT, "UInt": INT, "Float": FLOAT, "Real": FLOAT, "Inexact": FLOAT, "Key": KEY, "Num": FLOAT,
           "Scalar": FLOAT, "ScalarLike": FLOAT}
PY_KIND = {"bool": BOOL, "int": INT, "float": FLOAT, "str": STATIC}


def ann_kind_shape(ann: ast.expr | None):
    """(kind, shape) of a jaxtyping / builtin annotation."""
    if ann is None:
        return UNKNOWN, UNKNOWN
    if isinstance(ann, ast.Constant) and isinstance(ann.value, str):
        try:
            ann = ast.parse(ann.value, mode="eval").body
        except SyntaxError:
            return UNKNOWN, UNKNOWN
    if isinstance(ann, ast.Name):
        if ann.id in PY_KIND:
            return PY_KIND[ann.id], SCALAR
        if ann.id in ("Scalar",):
            return FLOAT, SCALAR
        return UNKNOWN, UNKNOWN
    if isinstance(ann, ast.Subscript):
        head = ast.unparse(ann.value).split(".")[-1]
        if head in JT_KIND and isinstance(ann.slice, ast.Tuple) and len(ann.slice.elts) == 2:
            sh = ann.slice.elts[1]
            shape = UNKNOWN
            if isinstance(sh, ast.Constant) and isinstance(sh.value, str):
                shape = SCALAR if sh.value.strip() == "" else NONSCALAR if sh.value.strip() and "*" not in sh.value and "..." not in sh.value and "#" not in sh.value else UNKNOWN
            return JT_KIND[head], shape
        if head in ("AbstractVar", "AbstractClassVar", "ClassVar", "Optional"):
            return ann_kind_shape(ann.slice)
    if isinstance(ann, ast.BinOp) and isinstance(ann.op, ast.BitOr):
        a, b = ann_kind_shape(ann.left), ann_kind_shape(ann.right)
        if isinstance(ann.right, ast.Constant) and ann.right.value is None:
            return a
        return a if a == b else (UNKNOWN, UNKNOWN)
    return UNKNOWN, UNKNOWN


# floating-point array fields of mujoco.mjx.Data / Model read by the environments (MuJoCo's documented dtypes)
MJX_FLOAT_FIELDS = {"qpos", "qvel", "qacc", "ctrl", "act", "cfrc_ext", "cinert", "cvel", "qfrc_actuator", "qfrc_constraint", "xpos", "xipos", "xquat", "xmat",
                    "site_xpos", "site_xmat", "subtree_com", "sensordata", "ten_length", "ten_velocity", "actuator_force", "cacc", "geom_xpos"}


class Kinds:
    """Abstract interpretation of value-graph nodes within one function."""

    def __init__(self, prog: Program, builder: Builder, fn: ast.FunctionDef | None = None, self_cls: ClassInfo | None = None,
                 conds=(), extra=None):
        self.prog = prog
        self.b = builder
        self.fn = fn
        self.self_cls = self_cls
        self.params = {}
        self.memo = {}
        self.extra = extra or {}  # node -> (kind, shape) supplied by the rule
        if fn is not None:
            for a in fn.args.posonlyargs + fn.args.args + fn.args.kwonlyargs:
                self.params[a.arg] = ann_kind_shape(a.annotation)
        # facts from path conditions: x.ndim == 0 true / x.ndim != 0 false  => x scalar
        self.scalar_facts = set()
        for t, v in conds:
            if isinstance(t, tuple) and t[0] == "cmp" and t[3] == ("const", 0) and isinstance(t[2], tuple) and t[2][0] == "attr" and t[2][2] == "ndim":
                if (t[1] == "Eq" and v) or (t[1] == "NotEq" and not v):
                    self.scalar_facts.add(t[2][1])

    def of(self, n):
        try:
            if n in self.memo:
                return self.memo[n]
        except TypeError:
            return UNKNOWN, UNKNOWN
        self.memo[n] = (UNKNOWN, UNKNOWN)  # cycle guard
        r = self._of(n)
        if n in self.scalar_facts:
            r = (r[0], SCALAR)
        self.memo[n] = r
        return r

    def _one_dim(self, n):
        """is `n` annotated as an array with exactly one fixed axis (e.g. Float[Array, "2"])?"""
        ann = None
        if isinstance(n, tuple) and n and n[0] == "param" and self.fn is not None:
            for a in self.fn.args.posonlyargs + self.fn.args.args + self.fn.args.kwonlyargs:
                if a.arg == n[1]:
                    ann = a.annotation
        elif isinstance(n, tuple) and n and n[0] == "attr":
            ci = self.b.type_of(n[1])
            if ci is not None:
                r = self.prog.resolve_attr(ci, n[2])
                if r is not None and r[0] == "field":
                    ann = r[2].annotation
        if isinstance(ann, ast.Constant) and isinstance(ann.value, str):
            try:
                ann = ast.parse(ann.value, mode="eval").body
            except SyntaxError:
                return False
        if isinstance(ann, ast.Subscript) and isinstance(ann.slice, ast.Tuple) and len(ann.slice.elts) == 2:
            sh = ann.slice.elts[1]
            if isinstance(sh, ast.Constant) and isinstance(sh.value, str):
                toks = sh.value.split()
                return len(toks) == 1 and not any(c in toks[0] for c in "*.#")
        return False

    def join(self, a, b):
        k = a[0] if a[0] == b[0] else (FLOAT if {a[0], b[0]} <= {INT, FLOAT, BOOL} and FLOAT in (a[0], b[0]) else
                                       INT if {a[0], b[0]} <= {INT, BOOL} else UNKNOWN)
        if STATIC in (a[0], b[0]):
            o = b if a[0] == STATIC else a
            k = o[0] if o[0] != STATIC else STATIC
        s = SCALAR if a[1] == b[1] == SCALAR else (NONSCALAR if NONSCALAR in (a[1], b[1]) else UNKNOWN)
        return k, s

    def _of(self, n):
        if n in self.extra:
            return self.extra[n]
        if isinstance(n, Closure) or not isinstance(n, tuple) or not n:
            return UNKNOWN, UNKNOWN
        k = n[0]
        if k == "const":
            v = n[1]
            if isinstance(v, (bool, BoolConst)):
                return BOOL, SCALAR
            if isinstance(v, int):
                return INT, SCALAR
            if isinstance(v, float):
                return FLOAT, SCALAR
            return STATIC, SCALAR
        if k == "param":
            return self.params.get(n[1], (UNKNOWN, UNKNOWN))
        if k == "global":
            if n[1] in ("jax.numpy.inf", "jax.numpy.pi", "jax.numpy.nan", "numpy.inf", "numpy.pi", "math.pi", "math.inf"):
                return FLOAT, SCALAR
            return UNKNOWN, UNKNOWN
        if k == "attr":
            base = n[1]
            ci = self.b.type_of(base)
            if ci is not None:
                r = self.prog.resolve_attr(ci, n[2])
                if r is not None and r[0] == "field":
                    return ann_kind_shape(r[2].annotation)
                if r is not None and r[0] == "method" and r[1].is_property(n[2]):
                    return ann_kind_shape(r[2].returns)
            if n[2] in ("ndim", "size"):
                return INT, SCALAR
            if n[2] in MJX_FLOAT_FIELDS:
                return FLOAT, NONSCALAR
            return UNKNOWN, UNKNOWN
        if k == "cmp":
            a, b = self.of(n[2]), self.of(n[3])
            return BOOL, self.join(a, b)[1]
        if k == "boolop":
            sh = SCALAR
            for x in n[2]:
                sh = self.join((BOOL, sh), self.of(x))[1]
            return BOOL, sh
        if k == "un":
            a = self.of(n[2])
            if n[1] in ("Not",):
                return BOOL, SCALAR
            return a
        if k == "bin":
            a, b = self.of(n[2]), self.of(n[3])
            j = self.join(a, b)
            if n[1] == "Div":
                return FLOAT, j[1]
            if n[1] in ("Add", "Sub", "Mult", "Pow", "Mod") and FLOAT in (a[0], b[0]) and STATIC not in (a[0], b[0]):
                # type promotion: arithmetic with a float operand is float whatever the other numeric operand is
                return FLOAT, j[1]
            if n[1] in ("BitAnd", "BitOr", "BitXor") and a[0] == b[0] == BOOL:
                return BOOL, j[1]
            return j
        if k == "ite":
            a, b = self.of(n[2]), self.of(n[3])
            p = self.of(n[1])
            j = self.join(a, b)
            return j[0], (SCALAR if j[1] == SCALAR and p[1] == SCALAR else UNKNOWN if NONSCALAR not in (j[1], p[1]) else NONSCALAR)
        if k in ("item", "sub"):
            base = self.of(n[1])
            if base[0] in (FLOAT, INT, BOOL):
                # an element / slice of an array has the array's kind; rank is only known when a scalar index hits a 1-D annotation
                one_d = self._one_dim(n[1])
                idx = n[2]
                scalar_idx = isinstance(idx, int) or (isinstance(idx, tuple) and idx and idx[0] == "const" and isinstance(idx[1], int) and not isinstance(idx[1], bool))
                return base[0], (SCALAR if one_d and scalar_idx else UNKNOWN)
            return UNKNOWN, UNKNOWN
        if k == "call":
            return self.call(n)
        return UNKNOWN, UNKNOWN

    def call(self, n):
        f, args, kwargs = n[1], n[2], n[3]
        kw = {a: b for a, b in kwargs if a is not None}
        name = None
        recv = None
        if isinstance(f, tuple) and f[0] == "global":
            name = f[1]
        elif isinstance(f, tuple) and f[0] == "attr":
            name = "." + f[2]
            recv = f[1]
        if name is None:
            return UNKNOWN, UNKNOWN
        short = name.split(".")[-1]
        # constructors
        if name in ("jax.numpy.array", "jax.numpy.asarray", "numpy.array", "numpy.asarray") and args:
            a = self.of(args[0])
            dt = kw.get("dtype", args[1] if len(args) > 1 else None)
            kind = a[0]
            if dt is not None:
                kind = {("global", "bool"): BOOL, ("global", "int"): INT, ("global", "float"): FLOAT}.get(dt, kind)
            return kind, a[1]
        if name in ("jax.numpy.zeros", "jax.numpy.ones", "jax.numpy.empty", "jax.numpy.full") and args:
            dt = kw.get("dtype")
            kind = {("global", "bool"): BOOL, ("global", "int"): INT, ("global", "float"): FLOAT}.get(dt, FLOAT)
            shp = args[0]
            sh = SCALAR if shp == ("tuple", ()) else UNKNOWN
            return kind, sh
        if short in ("all", "any") and (name.startswith(("jax.numpy.", "numpy.")) or recv is not None):
            has_axis = "axis" in kw or (len(args) > (1 if recv is None else 0))
            return BOOL, (UNKNOWN if has_axis else SCALAR)
        if short in ("sum", "mean", "max", "min", "prod", "std", "var") and (name.startswith(("jax.numpy.", "numpy.")) or recv is not None):
            has_axis = "axis" in kw or (len(args) > (1 if recv is None else 0))
            src = self.of(args[0] if recv is None and args else recv) if (args or recv is not None) else (UNKNOWN, UNKNOWN)
            kind = FLOAT if short in ("mean", "std", "var") else (INT if src[0] == BOOL else src[0])
            return kind, (UNKNOWN if has_axis else SCALAR)
        if short in ("isfinite", "isnan", "isinf", "logical_and", "logical_or", "logical_not", "array_equal", "isclose", "allclose",
                     "less", "greater", "less_equal", "greater_equal", "equal", "not_equal"):
            sh = SCALAR if short in ("array_equal", "allclose") else UNKNOWN
            if short not in ("array_equal", "allclose"):
                sh = SCALAR
                for a in args:
                    sh = self.join((BOOL, sh), (BOOL, self.of(a)[1]))[1]
            return BOOL, sh
        if short == "astype" and recv is not None and args:
            kind = {("global", "bool"): BOOL, ("global", "int"): INT, ("global", "float"): FLOAT}.get(args[0], UNKNOWN)
            return kind, self.of(recv)[1]
        if short in ("squeeze",):
            src = args[0] if recv is None and args else recv
            a = self.of(src) if src is not None else (UNKNOWN, UNKNOWN)
            return a[0], (SCALAR if a[1] == SCALAR else UNKNOWN)
        if short in ("float",) and name == "float":
            return FLOAT, SCALAR
        if short in ("int", "len") and name in ("int", "len"):
            return INT, SCALAR
        if short == "bool" and name == "bool":
            return BOOL, SCALAR
        if short in ("cos", "sin", "tan", "exp", "log", "sqrt", "tanh", "abs", "square", "clip", "where", "minimum", "maximum", "floor", "sign",
                     "arctan2", "power", "fmod", "mod", "negative", "asarray"):
            res = None
            for a in ((recv,) if recv is not None else ()) + tuple(args):
                ka = self.of(a)
                res = ka if res is None else self.join(res, ka)
            if res is None:
                return UNKNOWN, UNKNOWN
            kind = FLOAT if short in ("cos", "sin", "tan", "exp", "log", "sqrt", "tanh", "arctan2") else res[0]
            return kind, res[1]
        if short in ("norm",):
            return FLOAT, (UNKNOWN if "axis" in kw else SCALAR)
        if short in ("dot", "vdot"):
            return FLOAT, UNKNOWN
        # resolved lerax methods: use the return annotation
        if recv is not None:
            ci = self.b.type_of(recv)
            if ci is not None:
                r = self.prog.resolve_method(ci, f[2])
                if r is not None:
                    return ann_kind_shape(r[1].returns)
                ra = self.prog.resolve_attr(ci, f[2])
                if ra is not None and ra[0] == "field":
                    # a field declared Callable[[...], R]: the call has R's kind
                    ann = ra[2].annotation
                    if isinstance(ann, ast.Constant) and isinstance(ann.value, str):
                        try:
                            ann = ast.parse(ann.value, mode="eval").body
                        except SyntaxError:
                            ann = None
                    if isinstance(ann, ast.Subscript) and ast.unparse(ann.value).split(".")[-1] == "Callable" and isinstance(ann.slice, ast.Tuple) and len(ann.slice.elts) == 2:
                        return ann_kind_shape(ann.slice.elts[1])
        return UNKNOWN, UNKNOWN
