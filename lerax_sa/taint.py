"""Field-partition non-interference (DESIGN.md §2.5, used by C11.3).

High = the callback object and every `callback_state` field of step / algorithm
states; Low = everything else.  A taint is "L", "H" or a dict {field|index: taint,
"*": default} for records and tuples.  Functions of the training loop are checked
one by one under summaries of their callees (assume/guarantee induction): a callee
whose Low inputs are Low returns a value of its annotated shape whose Low part is Low.
"""
from __future__ import annotations

import ast

from .model import ClassInfo, Program
from .vgraph import Builder, Closure, SelfObj

L, H = "L", "H"


def flat(t):
    if isinstance(t, dict):
        return H if any(flat(v) == H for v in t.values()) else L
    return t


def join(a, b):
    if isinstance(a, dict) and isinstance(b, dict):
        keys = set(a) | set(b)
        return {k: join(a.get(k, a.get("*", L)), b.get(k, b.get("*", L))) for k in keys}
    if isinstance(a, dict):
        return H if b == H else a
    if isinstance(b, dict):
        return H if a == H else b
    return H if H in (a, b) else L


def field(t, f):
    if isinstance(t, dict):
        return t.get(f, t.get("*", L))
    return t


def step_state_shape():
    return {"callback_state": H, "*": L}


def alg_state_shape():
    return {"callback_state": H, "step_state": step_state_shape(), "*": L}


def low_part(t):
    """Join of the Low-designated parts of a taint (High-designated fields removed)."""
    if isinstance(t, dict):
        out = L
        for k, v in t.items():
            if k == "callback_state":
                continue
            out = join(out, low_part(v) if isinstance(v, dict) else v)
        return flat(out)
    return t


class Taint:
    def __init__(self, prog: Program, builder: Builder, cls: ClassInfo | None):
        self.prog = prog
        self.b = builder
        self.cls = cls
        self.env: dict = {}
        self.memo: dict = {}
        self.sym = 0
        self.step_base = prog.cls("AbstractStepState")
        self.alg_base = prog.cls("AbstractAlgorithmState")
        self.cb_base = prog.cls("AbstractCallback")
        self.notes: list[str] = []

    # -- shapes from annotations ---------------------------------------------
    def shape_of_class(self, ci: ClassInfo | None):
        if ci is None:
            return L
        if self.prog.is_subclass(ci, self.step_base):
            return step_state_shape()
        if self.prog.is_subclass(ci, self.alg_base):
            return alg_state_shape()
        if self.prog.is_subclass(ci, self.cb_base):
            return H
        if ci.name.endswith("CallbackState") or ci.name.endswith("CallbackStepState") or ci.name.endswith("Context"):
            return H
        return L

    def shape_of_annotation(self, module, ann, owner, fn):
        if ann is None:
            return L
        if isinstance(ann, ast.Constant) and isinstance(ann.value, str):
            try:
                ann = ast.parse(ann.value, mode="eval").body
            except SyntaxError:
                return L
        if isinstance(ann, ast.Subscript) and ast.unparse(ann.value).split(".")[-1] == "tuple":
            elts = ann.slice.elts if isinstance(ann.slice, ast.Tuple) else [ann.slice]
            d = {i: self.shape_of_annotation(module, e, owner, fn) for i, e in enumerate(elts)}
            d["*"] = L
            return d
        ci = self.prog.annotation_class(module, ann, owner, fn)
        return self.shape_of_class(ci)

    def param_taints(self, fn: ast.FunctionDef, module, owner):
        for a in fn.args.posonlyargs + fn.args.args + fn.args.kwonlyargs:
            node = ("param", a.arg)
            if a.arg in ("self", "cls"):
                self.env[node] = L
                continue
            t = self.shape_of_annotation(module, a.annotation, owner, fn)
            if a.arg == "callback":
                t = H
            self.env[node] = t

    # -- evaluation ------------------------------------------------------------
    def of(self, n):
        if isinstance(n, Closure) and n.qualname is None:
            # a local function value carries whatever its body reads from the captured environment
            key = ("closure", id(n.node))
            if key in self.memo:
                return self.memo[key]
            self.memo[key] = L
            try:
                r = flat(self.apply_closure(n, (), arg_taints=[L] * len(n.param_names())))
            except Exception:  # noqa: BLE001 - an un-appliable closure is treated conservatively
                r = H
            self.memo[key] = r
            return r
        if isinstance(n, Closure) or isinstance(n, SelfObj):
            return L
        if not isinstance(n, tuple) or not n:
            return L
        try:
            if n in self.env:
                return self.env[n]
            if n in self.memo:
                return self.memo[n]
        except TypeError:
            return self._of(n)
        self.memo[n] = L
        r = self._of(n)
        self.memo[n] = r
        return r

    def summary_for(self, name: str, qual: str | None):
        """(module, owner class, FunctionDef) of a training-loop method whose summary may be assumed."""
        if qual is not None:
            mod, _, meth = qual.rpartition(".")
            ci = self.prog.classes.get(mod)
            if ci is not None and meth in ci.methods:
                return ci.module, ci, ci.methods[meth]
            return None
        if self.cls is None:
            return None
        r = self.prog.resolve_method(self.cls, name)
        if r is None:
            return None
        return r[0].module, r[0], r[1]

    def call_summary(self, target, args, kwargs):
        module, owner, fn = target
        low_in = L
        pos = [a for a in fn.args.posonlyargs + fn.args.args]
        if pos and pos[0].arg in ("self", "cls"):
            pos = pos[1:]
        byname = {a.arg: a for a in pos + list(fn.args.kwonlyargs)}
        bound = list(zip([a.arg for a in pos], args)) + [(k, v) for k, v in kwargs if k is not None]
        for pname, a in bound:
            pa = byname.get(pname)
            designated = self.shape_of_annotation(module, pa.annotation, owner, fn) if pa is not None else L
            if pname == "callback" or designated == H:
                continue  # a High-designated input: may be High without tainting the Low outputs
            low_in = join(low_in, low_part(self.of(a)))
        for a in args[len(pos):]:
            low_in = join(low_in, low_part(self.of(a)))
        if flat(low_in) == H:
            return H
        return self.shape_of_annotation(module, fn.returns, owner, fn)

    def _of(self, n):
        k = n[0]
        if k in ("const", "global", "bound", "missing"):
            return L
        if k == "param":
            return self.env.get(n, L)
        if k == "attr":
            return field(self.of(n[1]), n[2])
        if k == "item":
            return field(self.of(n[1]), n[2])
        if k in ("tuple", "list"):
            d = {i: self.of(x) for i, x in enumerate(n[1])}
            d["*"] = L
            return d
        if k == "record":
            d = {f: self.of(v) for f, v in n[2]}
            d["*"] = L
            return d
        if k == "update":
            base = self.of(n[1])
            if base == H:
                return H
            d = dict(base) if isinstance(base, dict) else {"*": base}
            for path, v in n[2]:
                cur = d
                for f in path[:-1]:
                    nxt = cur.get(f, cur.get("*", L))
                    nxt = dict(nxt) if isinstance(nxt, dict) else {"*": nxt}
                    cur[f] = nxt
                    cur = nxt
                cur[path[-1]] = self.of(v)
            return d
        if k == "ite":
            if flat(self.of(n[1])) == H:
                return H
            return join(self.of(n[2]), self.of(n[3]))
        if k == "scan":
            return self.scan(n)
        if k == "call":
            return self.call(n)
        if k == "dict":
            out = L
            for a, b in n[1]:
                out = join(out, flat(self.of(b)))
            return out
        out = L
        for x in n[1:]:
            if isinstance(x, (tuple, Closure)):
                out = join(out, flat(self.of(x)))
        return out

    def call(self, n):
        f, args, kwargs = n[1], n[2], n[3]
        kw = [(a, b) for a, b in kwargs]
        # callbacks: everything they return is High
        if isinstance(f, tuple) and f[0] == "attr" and flat(self.of(f[1])) == H and isinstance(self.of(f[1]), str):
            return H
        if f == ("global", "locals"):
            return H
        if f == ("param", "cls") and self.cls is not None:
            names = [fi.name for fi in self.prog.dataclass_fields(self.cls)]
            d = {nm: self.of(a) for nm, a in zip(names, args)}
            for a, b in kw:
                if a is not None:
                    d[a] = self.of(b)
            d["*"] = L
            return d
        target = None
        if isinstance(f, tuple) and f[0] == "attr" and f[1] == ("param", "self"):
            target = self.summary_for(f[2], None)
        elif isinstance(f, tuple) and f[0] == "attr" and isinstance(f[1], tuple) and f[1][0] == "global" and f[1][1] in self.prog.classes:
            target = self.summary_for(f[2], f"{f[1][1]}.{f[2]}")
            if target is None:
                r = self.prog.resolve_method(self.prog.classes[f[1][1]], f[2])
                target = (r[0].module, r[0], r[1]) if r else None
        elif isinstance(f, tuple) and f[0] == "global" and f[1].rpartition(".")[0] in self.prog.classes:
            target = self.summary_for(f[1].rpartition(".")[2], f[1])
        elif isinstance(f, tuple) and f[0] == "vmapfn":
            g = f[1]
            if isinstance(g, Closure) and g.qualname:
                target = self.summary_for(g.name, g.qualname)
            elif isinstance(g, Closure):
                return self.apply_closure(g, args)
        elif isinstance(f, Closure) and f.qualname is None:
            return self.apply_closure(f, args)
        if target is not None:
            return self.call_summary(target, args, kw)
        out = L
        if isinstance(f, tuple):
            out = join(out, flat(self.of(f)))
        for a in args:
            out = join(out, flat(self.of(a)))
        for _, b in kw:
            out = join(out, flat(self.of(b)))
        return out

    def apply_closure(self, clo: Closure, args, arg_taints=None):
        self.sym += 1
        names = clo.param_names()
        syms = []
        for i, nm in enumerate(names):
            node = ("param", f"${nm}#{self.sym}")
            syms.append(node)
            if arg_taints is not None:
                self.env[node] = arg_taints[i] if i < len(arg_taints) else L
            else:
                self.env[node] = self.of(args[i]) if i < len(args) else L
        out = self.b.apply(clo, tuple(syms), ())
        return self.of(out)

    def scan(self, n):
        _, f, init, xs, length, reverse = n
        carry = self.of(init)
        xt = flat(self.of(xs))
        if not isinstance(f, Closure):
            return H if H in (flat(carry), xt) else {0: carry, 1: L, "*": L}
        res = None
        for _ in range(4):
            self.memo_backup = None
            out = self.apply_closure(f, (), arg_taints=[carry, xt])
            new_carry = field(out, 0)
            ys = field(out, 1)
            joined = join(carry, new_carry)
            res = {0: joined, 1: ys, "*": L}
            if joined == carry:
                break
            carry = joined
            self.memo = {}
        return res


def violations(t, shape, path=""):
    """Low-designated parts of `t` (per `shape`) that are High."""
    bad = []
    if isinstance(shape, dict):
        if t == H:
            return [path or "<whole value>"]
        if not isinstance(t, dict):
            return []
        keys = (set(t) | set(shape)) - {"*"}
        for k in sorted(keys, key=str):
            sub_shape = shape.get(k, shape.get("*", L))
            sub_t = t.get(k, t.get("*", L))
            if sub_shape == H:
                continue
            bad += violations(sub_t, sub_shape, f"{path}.{k}" if path else str(k))
        if flat(t.get("*", L)) == H and shape.get("*", L) != H:
            bad.append(f"{path}.*")
        return bad
    if shape == H:
        return []
    return [path or "<whole value>"] if flat(t) == H else []
